//! Shared pieces of the C10/C11 harness: naive byte-string references, string enumeration,
//! bounded violation reporting, operand construction with exact allocation bounds.
use std::collections::BTreeMap;

/// Naive references over content bytes (no terminator). These are the whole trusted base of C11.
pub mod refm {
    /// first occurrence of `n` in `h`; the empty string occurs at 0
    pub fn find(h: &[u8], n: &[u8]) -> Option<usize> {
        if n.is_empty() {
            return Some(0);
        }
        if n.len() > h.len() {
            return None;
        }
        (0..=h.len() - n.len()).find(|&i| &h[i..i + n.len()] == n)
    }
    pub fn common_prefix(a: &[u8], b: &[u8]) -> usize {
        let mut i = 0;
        while i < a.len() && i < b.len() && a[i] == b[i] {
            i += 1;
        }
        i
    }
    pub fn ends_with(a: &[u8], b: &[u8]) -> bool {
        a.len() >= b.len() && &a[a.len() - b.len()..] == b
    }
    /// documented rule of path_join: an empty side yields the other side unchanged; otherwise
    /// exactly one '/' is placed between the last byte of `x` and the first byte of `y`
    /// (a slash present on one side is kept, present on both sides one is dropped).
    pub fn join(x: &[u8], y: &[u8]) -> Vec<u8> {
        if x.is_empty() {
            return y.to_vec();
        }
        if y.is_empty() {
            return x.to_vec();
        }
        let mut o = x.to_vec();
        match (x[x.len() - 1] == b'/', y[0] == b'/') {
            (true, true) => o.extend_from_slice(&y[1..]),
            (false, false) => {
                o.push(b'/');
                o.extend_from_slice(y);
            }
            _ => o.extend_from_slice(y),
        }
        o
    }
    #[derive(Debug, Clone, PartialEq, Eq)]
    pub enum Want {
        /// must be None
        None,
        /// must be Some(content)
        Some(Vec<u8>),
        /// documentation leaves it open: None or Some(content)
        NoneOrSome(Vec<u8>),
    }
    impl Want {
        pub fn accepts(&self, got: Option<&[u8]>) -> bool {
            match (self, got) {
                (Want::None, None) => true,
                (Want::Some(w), Some(g)) => w.as_slice() == g,
                (Want::NoneOrSome(_), None) => true,
                (Want::NoneOrSome(w), Some(g)) => w.as_slice() == g,
                _ => false,
            }
        }
        /// the content a chain continues with (None when the reference demands/permits None and got None)
        pub fn some(&self) -> Option<&[u8]> {
            match self {
                Want::None => None,
                Want::Some(w) | Want::NoneOrSome(w) => Some(w),
            }
        }
    }
    /// parent: split at the last separator. Documented edge cases: content of <= 1 byte, no
    /// separator, and a double separator at the split point have no parent; a separator at
    /// index 0 yields the root "/". A double separator elsewhere: the doc sentence ("any double
    /// slash") and the split rule disagree, both accepted.
    pub fn parent(c: &[u8]) -> Want {
        if c.len() < 2 {
            return Want::None;
        }
        let Some(i) = c.iter().rposition(|&b| b == b'/') else {
            return Want::None;
        };
        if i > 0 && c[i - 1] == b'/' {
            return Want::None;
        }
        if i == 0 {
            return Want::Some(vec![b'/']);
        }
        let p = c[..i].to_vec();
        if p.windows(2).any(|w| w == b"//") {
            Want::NoneOrSome(p)
        } else {
            Want::Some(p)
        }
    }
    /// file name: the bytes after the last separator; none when that part is empty ("/", "a/").
    /// Without any separator the documentation ("if possible") leaves it open for non-empty content.
    pub fn file_name(c: &[u8]) -> Want {
        match c.iter().rposition(|&b| b == b'/') {
            None => {
                if c.is_empty() {
                    Want::None
                } else {
                    Want::NoneOrSome(c.to_vec())
                }
            }
            Some(i) => {
                if i + 1 == c.len() {
                    Want::None
                } else {
                    Want::Some(c[i + 1..].to_vec())
                }
            }
        }
    }
}

/// all strings over `alpha` of length 0..=maxlen, ordered by length then lexicographically
pub fn all_strings(alpha: &[u8], maxlen: usize) -> Vec<Vec<u8>> {
    let mut out: Vec<Vec<u8>> = vec![vec![]];
    let mut start = 0;
    for _ in 0..maxlen {
        let end = out.len();
        for i in start..end {
            for &a in alpha {
                let mut s = out[i].clone();
                s.push(a);
                out.push(s);
            }
        }
        start = end;
    }
    out
}

/// number of strings of length 0..=maxlen over an alphabet of `a` letters
pub fn count_upto(a: u64, maxlen: usize) -> u64 {
    (0..=maxlen as u32).map(|l| a.pow(l)).sum()
}

/// One string of the same finite domain without materialising it: even draws are uniform over the
/// whole domain (mostly longest strings), odd draws pick the length first (short strings as likely
/// as long ones).
pub fn sample_string(r: &mut vh::Rng, alpha: &[u8], maxlen: usize, by_len: bool) -> Vec<u8> {
    let a = alpha.len() as u64;
    let (len, mut k) = if by_len {
        let len = r.below(maxlen as u64 + 1) as usize;
        (len, r.below(a.pow(len as u32)))
    } else {
        let mut idx = r.below(count_upto(a, maxlen));
        let mut len = 0usize;
        while idx >= a.pow(len as u32) {
            idx -= a.pow(len as u32);
            len += 1;
        }
        (len, idx)
    };
    let mut v = vec![0u8; len];
    for i in (0..len).rev() {
        v[i] = alpha[(k % a) as usize];
        k /= a;
    }
    v
}

/// content + one NUL in an allocation of exactly that size (tight bounds for Miri / ASan)
pub fn exact(content: &[u8]) -> Box<[u8]> {
    let mut v = Vec::with_capacity(content.len() + 1);
    v.extend_from_slice(content);
    v.push(0);
    v.into_boxed_slice()
}

pub fn hex(b: &[u8]) -> String {
    const D: &[u8; 16] = b"0123456789abcdef";
    let mut s = String::with_capacity(b.len() * 2);
    for c in b {
        s.push(D[(c >> 4) as usize] as char);
        s.push(D[(c & 15) as usize] as char);
    }
    s
}
pub fn unhex(s: &str) -> Vec<u8> {
    let s = s.trim();
    if s == "-" {
        return vec![];
    }
    (0..s.len() / 2)
        .map(|i| u8::from_str_radix(&s[2 * i..2 * i + 2], 16).unwrap_or(0))
        .collect()
}

/// deterministic membership of item `i` in the subset `res` of `modulus` (a partition over res)
#[inline]
pub fn selected(i: u64, seed: u64, modulus: u64, res: u64) -> bool {
    if modulus <= 1 {
        return true;
    }
    let mut z = i.wrapping_add(seed).wrapping_mul(0x9E37_79B9_7F4A_7C15);
    z = (z ^ (z >> 30)).wrapping_mul(0xBF58_476D_1CE4_E5B9);
    z = (z ^ (z >> 27)).wrapping_mul(0x94D0_49BB_1331_11EB);
    (z ^ (z >> 31)) % modulus == res
}

/// Violation reporter: a few literal witnesses per signature `<prop>/<op>/<what>`, the rest counted.
/// Nothing is formatted for cases beyond the cap.
pub struct Rep {
    prop: &'static str,
    counts: BTreeMap<(&'static str, &'static str), u64>,
    cap: u64,
}
impl Rep {
    pub fn new(prop: &'static str, cap: u64) -> Self {
        Rep {
            prop,
            counts: BTreeMap::new(),
            cap,
        }
    }
    pub fn viol(&mut self, op: &'static str, what: &'static str, detail: impl FnOnce() -> String) {
        let c = self.counts.entry((op, what)).or_insert(0);
        *c += 1;
        if *c <= self.cap {
            vh::viol(&format!("{}/{op}/{what}", self.prop), &detail());
        }
    }
    pub fn total(&self) -> u64 {
        self.counts.values().sum()
    }
    pub fn finish(&self) {
        for ((op, what), c) in &self.counts {
            vh::count(&format!("refuted_cases:{}/{op}/{what}", self.prop), *c);
        }
    }
}

/// Coarse class keys: formatted and printed only the first time a key is seen (formatting per
/// case would dominate the cost under Miri).
#[derive(Default)]
pub struct Classes {
    // keyed by the addresses of the (static) class names: integer compares only
    seen: std::collections::BTreeSet<[usize; 6]>,
}
impl Classes {
    #[inline]
    pub fn note(&mut self, key: [&'static str; 6]) {
        let k = [
            key[0].as_ptr() as usize,
            key[1].as_ptr() as usize,
            key[2].as_ptr() as usize,
            key[3].as_ptr() as usize,
            key[4].as_ptr() as usize,
            key[5].as_ptr() as usize ^ (key[5].len() << 48),
        ];
        if self.seen.insert(k) {
            let parts: Vec<&str> = key.iter().copied().filter(|p| !p.is_empty()).collect();
            vh::distinct(&parts.join("/"));
        }
    }
}

pub fn len_class(n: usize) -> &'static str {
    match n {
        0 => "0",
        1 => "1",
        2..=8 => "short",
        9..=255 => "mid",
        _ => "long",
    }
}

/// slash shape of a content string
pub fn slash_class(c: &[u8]) -> &'static str {
    let n = c.iter().filter(|&&b| b == b'/').count();
    if n == 0 {
        return "noslash";
    }
    if c.windows(2).any(|w| w == b"//") {
        return "double";
    }
    let lead = c.first() == Some(&b'/');
    let trail = c.last() == Some(&b'/');
    match (lead, trail, c.len()) {
        (true, _, 1) => "root",
        (true, true, _) => "lead+trail",
        (true, false, _) => {
            if n == 1 {
                "lead-only"
            } else {
                "lead+inner"
            }
        }
        (false, true, _) => "trail",
        (false, false, _) => "inner",
    }
}
