//! C11: find / find_buf / match_up_to(_str) / ends_with / path_join(_fmt) / parent_path /
//! path_file_name against naive references over &[u8] (content without the terminator).
//! Content of a produced value is taken by the library's own convention (all bytes but the last);
//! whether that last byte is NUL is C10's claim and only counted here.
//!
//! modes: exh <seed> <_> <maxlen> <mod> <res> <ops> <ulen>   all pairs over {a,b,'/','.'} up to maxlen,
//!                                                       path chains on all strings up to ulen
//!        rand <seed> <n> <maxlen> [ops]                long random strings with planted matches
//!        case <seed> <_> <hex x> <hex y> [ops]         one literal pair (replay)
//! ops: comma list of find,match,matchstr,ends,path,bytes,tight (default: all but tight). `bytes` is the
//! pass for operations taking caller bytes (&[u8] / &str): needles over {00,'a','/',FF} incl. needles that
//! start with / contain / end in NUL and needles one longer than the content (the terminator position);
//! every search runs twice on a haystack that is a sub-slice of a larger buffer with two different
//! continuations: an answer that differs is `result-depends-on-memory-after-haystack`. `tight` adds an
//! empty/short &str that ends exactly at the end of its heap allocation (for Miri / ASan only).
use h_unixstr::refm::Want;
use h_unixstr::*;
use rusl::string::unix_str::{UnixStr, UnixString};
use std::collections::BTreeMap;
use vh::Rng;

const ALPHA: [u8; 4] = [b'a', b'b', b'/', b'.'];

#[derive(Clone, Copy)]
struct Ops {
    find: bool,
    mtch: bool,
    mstr: bool,
    ends: bool,
    path: bool,
    tight: bool,
    bytes: bool,
}
impl Ops {
    fn parse(s: Option<&String>) -> Ops {
        let s = s.map_or("find,match,matchstr,ends,path,bytes", |s| s.as_str());
        let has = |k: &str| s.split(',').any(|p| p == k);
        Ops {
            find: has("find"),
            mtch: has("match"),
            mstr: has("matchstr"),
            ends: has("ends"),
            path: has("path"),
            tight: has("tight"),
            bytes: has("bytes"),
        }
    }
}

struct St {
    rep: Rep,
    evals: u64,
    per_op: BTreeMap<&'static str, u64>,
    notes: BTreeMap<&'static str, u64>,
    ops: Ops,
    classes: Classes,
    sampled: BTreeMap<&'static str, u64>,
}
impl St {
    fn new(ops: Ops) -> Self {
        St {
            rep: Rep::new("C11", 3),
            classes: Classes::default(),
            sampled: BTreeMap::new(),
            evals: 0,
            per_op: BTreeMap::new(),
            notes: BTreeMap::new(),
            ops,
        }
    }
    /// two literal samples per operation and process (fixed ordinal positions of that operation)
    fn take_sample(&mut self, op: &'static str) -> bool {
        let c = self.sampled.entry(op).or_insert(0);
        *c += 1;
        *c == 500 || *c == 4001
    }
    fn op(&mut self, op: &'static str) {
        self.evals += 1;
        *self.per_op.entry(op).or_insert(0) += 1;
    }
    fn note(&mut self, k: &'static str) {
        *self.notes.entry(k).or_insert(0) += 1;
    }
    fn finish(&self) {
        vh::eval(self.evals);
        for (k, v) in &self.per_op {
            vh::count(&format!("op_{k}"), *v);
        }
        for (k, v) in &self.notes {
            vh::count(k, *v);
        }
        self.rep.finish();
    }
    fn viol(&mut self, what: &'static str, op: &'static str, x: &[u8], y: &[u8], got: &str, want: &str) {
        self.rep.viol(op, what, || {
            format!(
                "{{\"op\":{},\"self\":{},\"other\":{},\"got\":{},\"reference\":{},\"self_hex\":{},\"other_hex\":{}}}",
                vh::js(op),
                vh::jb(x),
                vh::jb(y),
                vh::js(got),
                vh::js(want),
                vh::js(&hex(x)),
                vh::js(&hex(y))
            )
        });
    }
    fn sample(&self, op: &str, x: &[u8], y: &[u8], got: &str, want: &str) {
        vh::sample(
            &format!(
                "{{\"op\":{},\"self\":{},\"other\":{},\"got\":{},\"reference\":{}}}",
                vh::js(op),
                vh::jb(x),
                vh::jb(y),
                vh::js(got),
                vh::js(want)
            ),
            12,
        );
    }
}

fn mk(b: &[u8]) -> &UnixStr {
    // operands are built by the harness from NUL-free content + one NUL (constructors are C10's subject)
    UnixStr::try_from_bytes(b).expect("harness operand")
}

fn rel_class(h: &[u8], n: &[u8]) -> &'static str {
    if n.is_empty() {
        "n-empty"
    } else if n.len() == 1 {
        "n-1byte"
    } else if n.len() > h.len() {
        "n-longer"
    } else if n.len() == h.len() {
        "n-samelen"
    } else {
        "n-shorter"
    }
}
fn pos_class(h: &[u8], n: &[u8], r: Option<usize>) -> &'static str {
    match r {
        None => "none",
        Some(i) => {
            let end = i + n.len() == h.len();
            match (i == 0, end) {
                (true, true) => "whole",
                (true, false) => "start",
                (false, true) => "end",
                _ => "middle",
            }
        }
    }
}

/// content by the library's convention + whether the last byte is the terminator
fn content(st: &mut St, raw: &[u8]) -> Option<Vec<u8>> {
    if raw.is_empty() {
        st.note("results_with_empty_slice_left_to_C10");
        return None;
    }
    if raw[raw.len() - 1] != 0 {
        st.note("results_without_terminator_left_to_C10");
    }
    Some(raw[..raw.len() - 1].to_vec())
}

fn pair(st: &mut St, x: &[u8], y: &[u8]) {
    let hx = exact(x);
    let hy = exact(y);
    let ux = mk(&hx);
    let uy = mk(&hy);
    let ops = st.ops;
    if ops.find {
        let want = refm::find(x, y);
        // --- find
        st.op("find");
        match vh::catch(|| ux.find(uy)) {
            Err(p) => {
                let sig = if y.len() <= 1 { "panic-short-needle" } else { "panic" };
                st.viol(sig, "find", x, y, &format!("panic: {p}"), &format!("{want:?}"));
            }
            Ok(g) => {
                if g != want {
                    let sig = if y.len() >= 2 && g == refm::find(x, &y[..y.len() - 1]) {
                        "needle-last-byte-dropped"
                    } else {
                        "wrong-index"
                    };
                    st.viol(sig, "find", x, y, &format!("{g:?}"), &format!("{want:?}"));
                }
                if st.take_sample("find") {
                    st.sample("find", x, y, &format!("{g:?}"), &format!("{want:?}"));
                }
            }
        }
        // --- find_buf (needle without terminator, exact allocation)
        st.op("find_buf");
        let yb: Box<[u8]> = y.to_vec().into_boxed_slice();
        match vh::catch(|| ux.find_buf(&yb)) {
            Err(p) => {
                let sig = if y.is_empty() { "panic-empty-needle" } else { "panic" };
                st.viol(sig, "find_buf", x, y, &format!("panic: {p}"), &format!("{want:?}"));
            }
            Ok(g) => {
                if g != want {
                    st.viol("wrong-index", "find_buf", x, y, &format!("{g:?}"), &format!("{want:?}"));
                }
                if st.take_sample("find_buf") {
                    st.sample("find_buf", x, y, &format!("{g:?}"), &format!("{want:?}"));
                }
            }
        }
        st.classes.note(["find", len_class(x.len()), rel_class(x, y), pos_class(x, y, want), "", ""]);
    }
    if ops.mtch || ops.mstr {
        let want = refm::common_prefix(x, y);
        if ops.mtch {
            st.op("match_up_to");
            match vh::catch(|| ux.match_up_to(uy)) {
                Err(p) => st.viol("panic", "match_up_to", x, y, &format!("panic: {p}"), &want.to_string()),
                Ok(g) => {
                    if g != want {
                        st.viol("wrong-length", "match_up_to", x, y, &g.to_string(), &want.to_string());
                    }
                    if st.take_sample("match_up_to") {
                        st.sample("match_up_to", x, y, &g.to_string(), &want.to_string());
                    }
                }
            }
        }
        // The &str argument is followed in memory by bytes equal to self's continuation, so a read
        // past the argument shows up as a too long match instead of going unnoticed ('#' keeps the
        // backing string non-empty: an empty String has a dangling pointer).
        let mut backing_b = y.to_vec();
        backing_b.extend_from_slice(&x[want..]);
        backing_b.push(b'#');
        let strs = (std::str::from_utf8(&backing_b), std::str::from_utf8(y));
        if let (true, (Ok(backing), Ok(ys))) = (ops.mstr, strs) {
            let other = &backing[..ys.len()];
            st.op("match_up_to_str");
            match vh::catch(|| ux.match_up_to_str(other)) {
                Err(p) => st.viol("panic", "match_up_to_str", x, y, &format!("panic: {p}"), &want.to_string()),
                Ok(g) => {
                    if g != want {
                        let sig = if y.is_empty() {
                            "reads-past-empty-str"
                        } else {
                            "wrong-length"
                        };
                        let after: String = backing[ys.len()..].chars().take(16).collect();
                        st.viol(sig, "match_up_to_str", x, y, &format!("{g} (bytes in memory after the &str argument: {after:?})"), &want.to_string());
                    }
                    if st.take_sample("match_up_to_str") {
                        st.sample("match_up_to_str", x, y, &g.to_string(), &want.to_string());
                    }
                }
            }
            if ops.tight {
                // &str ending exactly at the end of its heap allocation (Miri / ASan see the over-read)
                let b: Box<str> = format!("#{ys}").into_boxed_str();
                let other = &b[1..];
                st.op("match_up_to_str");
                match vh::catch(|| ux.match_up_to_str(other)) {
                    Err(p) => st.viol("panic", "match_up_to_str", x, y, &format!("panic: {p}"), &want.to_string()),
                    Ok(g) => {
                        if g != want {
                            st.viol("wrong-length", "match_up_to_str", x, y, &g.to_string(), &want.to_string());
                        }
                    }
                }
            }
        }
        let rel = if x.is_empty() || y.is_empty() {
            "one-empty"
        } else if want == 0 {
            "zero"
        } else if want == x.len() && want == y.len() {
            "equal"
        } else if want == x.len() {
            "self-is-prefix"
        } else if want == y.len() {
            "other-is-prefix"
        } else {
            "partial"
        };
        st.classes.note(["match", len_class(x.len().max(y.len())), rel, "", "", ""]);
    }
    if ops.ends {
        let want = refm::ends_with(x, y);
        st.op("ends_with");
        match vh::catch(|| ux.ends_with(uy)) {
            Err(p) => st.viol("panic", "ends_with", x, y, &format!("panic: {p}"), &want.to_string()),
            Ok(g) => {
                if g != want {
                    st.viol("wrong", "ends_with", x, y, &g.to_string(), &want.to_string());
                }
                if st.take_sample("ends_with") {
                    st.sample("ends_with", x, y, &g.to_string(), &want.to_string());
                }
            }
        }
        st.classes.note(["ends", len_class(x.len()), rel_class(x, y), if want { "true" } else { "false" }, "", ""]);
    }
    if ops.path {
        let want = refm::join(x, y);
        st.op("path_join");
        match vh::catch(|| ux.path_join(uy)) {
            Err(p) => st.viol("panic", "path_join", x, y, &format!("panic: {p}"), &String::from_utf8_lossy(&want)),
            Ok(j) => {
                if let Some(c) = content(st, j.as_slice()) {
                    if c != want {
                        st.viol("wrong", "path_join", x, y, &format!("{:?}", String::from_utf8_lossy(&c)), &format!("{:?}", String::from_utf8_lossy(&want)));
                    }
                    if st.take_sample("path_join") {
                        st.sample("path_join", x, y, &String::from_utf8_lossy(&c), &String::from_utf8_lossy(&want));
                    }
                }
            }
        }
        if let Ok(ys) = std::str::from_utf8(y) {
            st.op("path_join_fmt");
            match vh::catch(|| ux.path_join_fmt(format_args!("{ys}"))) {
                Err(p) => st.viol("panic", "path_join_fmt", x, y, &format!("panic: {p}"), &String::from_utf8_lossy(&want)),
                Ok(j) => {
                    if let Some(c) = content(st, j.as_slice()) {
                        if c != want {
                            st.viol("wrong", "path_join_fmt", x, y, &format!("{:?}", String::from_utf8_lossy(&c)), &format!("{:?}", String::from_utf8_lossy(&want)));
                        }
                    }
                }
            }
        }
        let xc = if x.is_empty() { "empty" } else if x.last() == Some(&b'/') { "trail" } else { "notrail" };
        let yc = if y.is_empty() { "empty" } else if y[0] == b'/' { "lead" } else { "nolead" };
        st.classes.note(["join", xc, yc, len_class(x.len() + y.len()), "", ""]);
    }
}

// ------------------------------------------------------------------------------------------
// caller-supplied bytes: find_buf (&[u8]) and match_up_to_str (&str), plus find as a sibling
const HAY_BYTES: [u8; 3] = [b'a', b'/', 0xFF];
const NEEDLE_BYTES: [u8; 4] = [0x00, b'a', b'/', 0xFF];

/// The bytes a search that runs over the end of `raw` would like to see next: the rest of the
/// needle after the longest suffix of `raw` that is a proper prefix of the needle.
fn wanted_continuation(raw: &[u8], needle: &[u8]) -> Vec<u8> {
    let mut c: Vec<u8> = Vec::new();
    for i in 0..raw.len() {
        let suf = &raw[i..];
        if suf.len() < needle.len() && needle.starts_with(suf) {
            c = needle[suf.len()..].to_vec();
            break;
        }
    }
    let mut k = 0;
    while c.len() < needle.len() + 2 {
        c.push(if needle.is_empty() { b'a' } else { needle[k % needle.len()] });
        k += 1;
    }
    c
}

fn nul_shape(n: &[u8]) -> &'static str {
    let z = n.iter().filter(|&&b| b == 0).count();
    if z == 0 {
        "needle-nonul"
    } else if z == n.len() {
        "needle-only-nul"
    } else if n[0] == 0 {
        "needle-starts-with-nul"
    } else if n[n.len() - 1] == 0 && z == 1 {
        "needle-ends-in-nul"
    } else {
        "needle-contains-nul"
    }
}

/// `x`: NUL-free haystack content; `needle`: arbitrary bytes.
/// HEAD's definition of find_buf (established by experiment, 91549aa): first occurrence in the
/// haystack slice INCLUDING its terminator, None when the needle is longer than that slice. For a
/// needle containing NUL a search over the content only (= None) is accepted as well; what is never
/// accepted is an answer that depends on the bytes behind the haystack.
fn bytes_pair(st: &mut St, x: &[u8], needle: &[u8]) {
    let mut raw = x.to_vec();
    raw.push(0);
    let want_raw = if needle.len() > raw.len() { None } else { refm::find(&raw, needle) };
    let want_content = refm::find(x, needle);
    let has_nul = needle.contains(&0);
    let accepts = |g: Option<usize>| g == want_raw || (has_nul && g == want_content);
    let wants = if has_nul && want_raw != want_content { format!("{want_raw:?} (or {want_content:?})") } else { format!("{want_raw:?}") };

    let cont1 = wanted_continuation(&raw, needle);
    let cont2: Vec<u8> = cont1.iter().map(|&b| if b == 0x7e { 0x7d } else { 0x7e }).collect();
    let mut buf1 = raw.clone();
    buf1.extend_from_slice(&cont1);
    let mut buf2 = raw.clone();
    buf2.extend_from_slice(&cont2);
    let h1 = mk(&buf1[..raw.len()]);
    let h2 = mk(&buf2[..raw.len()]);
    let nb: Box<[u8]> = needle.to_vec().into_boxed_slice();

    // --- find_buf, twice with different memory behind the haystack, then in an exact allocation
    st.op("find_buf");
    st.op("find_buf");
    let g1 = vh::catch(|| h1.find_buf(&nb));
    let g2 = vh::catch(|| h2.find_buf(&nb));
    if g1 != g2 {
        st.viol(
            "result-depends-on-memory-after-haystack",
            "find_buf",
            x,
            needle,
            &format!("{g1:?} with {:?} behind the haystack, {g2:?} with {:?}", String::from_utf8_lossy(&cont1), String::from_utf8_lossy(&cont2)),
            &wants,
        );
    }
    for g in [&g1, &g2] {
        match g {
            Err(p) => st.viol("panic", "find_buf", x, needle, &format!("panic: {p}"), &wants),
            Ok(v) => {
                if !accepts(*v) {
                    st.viol("wrong-index", "find_buf", x, needle, &format!("{v:?}"), &wants);
                }
            }
        }
    }
    let hx = exact(x);
    let ux = mk(&hx);
    st.op("find_buf");
    match vh::catch(|| ux.find_buf(&nb)) {
        Err(p) => st.viol("panic", "find_buf", x, needle, &format!("panic: {p}"), &wants),
        Ok(v) => {
            if !accepts(v) {
                st.viol("wrong-index", "find_buf", x, needle, &format!("{v:?}"), &wants);
            }
            if st.take_sample("find_buf-bytes") {
                st.sample("find_buf", x, needle, &format!("{v:?}"), &wants);
            }
        }
    }
    // --- find with the same needle as a UnixStr (NUL-free needles only), same two continuations
    if !has_nul {
        let ne = exact(needle);
        let un = mk(&ne);
        let want = refm::find(x, needle);
        st.op("find");
        st.op("find");
        let f1 = vh::catch(|| h1.find(un));
        let f2 = vh::catch(|| h2.find(un));
        if f1 != f2 {
            st.viol("result-depends-on-memory-after-haystack", "find", x, needle, &format!("{f1:?} / {f2:?}"), &format!("{want:?}"));
        }
        for f in [&f1, &f2] {
            match f {
                Err(p) => st.viol("panic", "find", x, needle, &format!("panic: {p}"), &format!("{want:?}")),
                Ok(v) => {
                    if *v != want {
                        st.viol("wrong-index", "find", x, needle, &format!("{v:?}"), &format!("{want:?}"));
                    }
                }
            }
        }
    }
    // --- match_up_to_str with text that may contain NUL and multi-byte characters (FF -> U+E9)
    let to_text = |b: &[u8]| -> Vec<u8> {
        let mut v = Vec::new();
        for &c in b {
            if c == 0xFF {
                v.extend_from_slice("\u{e9}".as_bytes());
            } else {
                v.push(c);
            }
        }
        v
    };
    let (tx, ty) = (to_text(x), to_text(needle));
    if let Ok(ys) = std::str::from_utf8(&ty) {
        let want = refm::common_prefix(&tx, &ty);
        let mut traw = tx.clone();
        traw.push(0);
        // the str is followed in memory by self's continuation; self by two different continuations
        let mut sb = ty.clone();
        sb.extend_from_slice(&traw[want..]);
        sb.push(b'#');
        if let Ok(backing) = std::str::from_utf8(&sb) {
            let other = &backing[..ys.len()];
            let mut b1 = traw.clone();
            b1.extend_from_slice(&ty[want.min(ty.len())..]);
            b1.extend_from_slice(b"##");
            let mut b2 = traw.clone();
            b2.extend_from_slice(b"~~~~~~~~");
            let m1 = vh::catch(|| mk(&b1[..traw.len()]).match_up_to_str(other));
            let m2 = vh::catch(|| mk(&b2[..traw.len()]).match_up_to_str(other));
            st.op("match_up_to_str");
            st.op("match_up_to_str");
            if m1 != m2 {
                st.viol("result-depends-on-memory-after-haystack", "match_up_to_str", &tx, &ty, &format!("{m1:?} / {m2:?}"), &want.to_string());
            }
            for m in [&m1, &m2] {
                match m {
                    Err(p) => st.viol("panic", "match_up_to_str", &tx, &ty, &format!("panic: {p}"), &want.to_string()),
                    Ok(v) => {
                        if *v != want {
                            st.viol("wrong-length", "match_up_to_str", &tx, &ty, &v.to_string(), &want.to_string());
                        }
                    }
                }
            }
        }
    }
    let rel = if needle.len() == x.len() + 1 {
        "needle-len=content+1"
    } else if needle.len() > x.len() + 1 {
        "needle-longer"
    } else if needle.is_empty() {
        "needle-empty"
    } else {
        "needle-fits"
    };
    st.classes.note(["bytes", len_class(x.len()), nul_shape(needle), rel, pos_class(&raw, needle, want_raw), ""]);
}

fn show(o: Option<&[u8]>) -> String {
    match o {
        None => "None".into(),
        Some(c) => format!("Some({:?})", String::from_utf8_lossy(c)),
    }
}
fn show_want(w: &Want) -> String {
    match w {
        Want::None => "None".into(),
        Want::Some(c) => format!("Some({:?})", String::from_utf8_lossy(c)),
        Want::NoneOrSome(c) => format!("None or Some({:?})", String::from_utf8_lossy(c)),
    }
}

/// parent / file name / re-join, applied repeatedly. A library result is fed on as it is when it
/// is well-formed and agrees with the reference; otherwise the chain continues on the reference value.
fn unary(st: &mut St, x: &[u8]) {
    if !st.ops.path {
        return;
    }
    let mut cc: Vec<u8> = x.to_vec();
    let mut cur: UnixString = UnixString::from(mk(&exact(x)));
    for depth in 0..8 {
        let r: &UnixStr = &cur;
        let wantf = refm::file_name(&cc);
        st.op("path_file_name");
        let mut fgot: Option<Vec<u8>> = None;
        match vh::catch(|| r.path_file_name().map(|f| f.as_slice().to_vec())) {
            Err(p) => st.viol("panic", "path_file_name", &cc, &[], &format!("panic: {p}"), &show_want(&wantf)),
            Ok(g) => {
                let gc = match &g {
                    None => None,
                    Some(raw) => content(st, raw),
                };
                if !wantf.accepts(gc.as_deref()) {
                    st.viol("wrong", "path_file_name", &cc, &[], &show(gc.as_deref()), &show_want(&wantf));
                } else {
                    fgot = gc;
                }
                if st.take_sample("path_file_name") {
                    st.sample("path_file_name", &cc, &[], &show(fgot.as_deref()), &show_want(&wantf));
                }
            }
        }
        let wantp = refm::parent(&cc);
        st.op("parent_path");
        let mut next: Option<(UnixString, Vec<u8>)> = None;
        match vh::catch(|| r.parent_path()) {
            Err(p) => st.viol("panic", "parent_path", &cc, &[], &format!("panic: {p}"), &show_want(&wantp)),
            Ok(g) => {
                let gc = match &g {
                    None => None,
                    Some(s) => content(st, s.as_slice()),
                };
                if !wantp.accepts(gc.as_deref()) {
                    st.viol("wrong", "parent_path", &cc, &[], &show(gc.as_deref()), &show_want(&wantp));
                } else if let (Some(s), Some(c)) = (g, gc.clone()) {
                    if s.as_slice().last() == Some(&0) {
                        next = Some((s, c)); // the library's own value is fed on
                    }
                }
                if st.take_sample("parent_path") {
                    st.sample("parent_path", &cc, &[], &show(gc.as_deref()), &show_want(&wantp));
                }
            }
        }
        st.classes.note([
            "split",
            slash_class(&cc),
            len_class(cc.len()),
            ["depth0", "depth1", "depth2+"][depth.min(2)],
            match wantp { Want::None => "parent-none", Want::Some(_) => "parent-some", Want::NoneOrSome(_) => "parent-open" },
            match wantf { Want::None => "file-none", Want::Some(_) => "file-some", Want::NoneOrSome(_) => "file-open" },
        ]);
        if next.is_none() {
            // continue on the reference value (harness-built, well-formed)
            if let Some(pc) = wantp.some() {
                next = Some((UnixString::from(mk(&exact(pc))), pc.to_vec()));
                st.note("chain_steps_continued_on_reference_value");
            }
        }
        let Some((p, pc)) = next else { break };
        // parent joined with file name gives back the path (modulo the documented boundary rule)
        if let Some(fc) = fgot.as_deref().or(wantf.some()) {
            if matches!(wantf, Want::Some(_)) {
                let fe = exact(fc);
                let fu = mk(&fe);
                let want = refm::join(&pc, fc);
                st.op("path_join");
                match vh::catch(|| p.path_join(fu)) {
                    Err(e) => st.viol("panic", "path_join", &pc, fc, &format!("panic: {e}"), &String::from_utf8_lossy(&want)),
                    Ok(j) => {
                        if let Some(c) = content(st, j.as_slice()) {
                            if c != want {
                                st.viol("wrong", "path_join", &pc, fc, &format!("{:?}", String::from_utf8_lossy(&c)), &format!("{:?}", String::from_utf8_lossy(&want)));
                            }
                        }
                    }
                }
            }
        }
        cur = p;
        cc = pc;
    }
}

/// modulus <= 64: scan and partition the domain over `res`; larger: draw domain_size / modulus cases.
fn exh(seed: u64, maxlen: usize, modulus: u64, res: u64, ops: Ops, ulen: usize) {
    let mut st = St::new(ops);
    let mut pairs = 0u64;
    let mut unaries = 0u64;
    if modulus > 64 {
        let mut r = Rng::new(seed.wrapping_mul(0x9E37_79B9).wrapping_add(res));
        let np = (count_upto(4, maxlen).pow(2) / modulus).max(1);
        let nu = if ops.path { (count_upto(4, ulen) / modulus).max(1) } else { 0 };
        for k in 0..nu {
            let x = sample_string(&mut r, &ALPHA, ulen, k % 2 == 1);
            unary(&mut st, &x);
        }
        for k in 0..np {
            let x = sample_string(&mut r, &ALPHA, maxlen, k % 2 == 1);
            let y = match k % 4 {
                // related operands: a piece of x (start / middle / end), so that matches are not rare
                0 | 1 if !x.is_empty() => {
                    let a = r.below(x.len() as u64) as usize;
                    let b = r.range(a as u64, x.len() as u64) as usize;
                    x[a..b].to_vec()
                }
                _ => sample_string(&mut r, &ALPHA, maxlen, k % 2 == 1),
            };
            pair(&mut st, &x, &y);
        }
        if ops.bytes {
            let (hl, nl) = ((maxlen.max(1) - 1).min(5), maxlen.min(6));
            let nb = (count_upto(3, hl) * count_upto(4, nl) / modulus).max(1);
            for k in 0..nb {
                let x = sample_string(&mut r, &HAY_BYTES, hl, k % 2 == 1);
                let y = match k % 4 {
                    // a tail of the haystack followed by the terminator and possibly more
                    0 if !x.is_empty() => {
                        let mut v = x[r.below(x.len() as u64) as usize..].to_vec();
                        v.push(0);
                        if r.chance(1, 2) {
                            v.push(*r.pick(&NEEDLE_BYTES));
                        }
                        v
                    }
                    _ => sample_string(&mut r, &NEEDLE_BYTES, nl, k % 2 == 1),
                };
                bytes_pair(&mut st, &x, &y);
            }
            vh::count("sampled_byte_needle_pairs", nb);
        }
        vh::count("sampled_pairs", np);
        vh::count("sampled_unary_paths", nu);
        st.finish();
        return;
    }
    let ss = all_strings(&ALPHA, maxlen);
    let n = ss.len() as u64;
    if ops.path {
        for (i, x) in all_strings(&ALPHA, ulen).iter().enumerate() {
            if selected((1 << 50) + i as u64, seed, modulus, res) {
                unary(&mut st, x);
                unaries += 1;
            }
        }
    }
    // pairs with an empty second operand go last: under Miri / ASan the first report ends the
    // process, and the boundary pairs are where reports are expected
    let any_pair_op = ops.find || ops.mtch || ops.mstr || ops.ends || ops.path;
    for pass in 0..(if any_pair_op { 2 } else { 0 }) {
        for (i, x) in ss.iter().enumerate() {
            for (j, y) in ss.iter().enumerate() {
                if y.is_empty() != (pass == 1) {
                    continue;
                }
                if selected(i as u64 * n + j as u64, seed, modulus, res) {
                    pair(&mut st, x, y);
                    pairs += 1;
                }
            }
        }
    }
    if ops.bytes {
        // haystack content over {a,'/',FF}, needles over {00,a,'/',FF} one byte longer
        let (hl, nl) = ((maxlen.max(1) - 1).min(5), maxlen.min(6));
        let hs = all_strings(&HAY_BYTES, hl);
        let ns = all_strings(&NEEDLE_BYTES, nl);
        let m = ns.len() as u64;
        let mut bp = 0u64;
        for (i, x) in hs.iter().enumerate() {
            for (j, y) in ns.iter().enumerate() {
                if selected((1 << 55) + i as u64 * m + j as u64, seed, modulus, res) {
                    bytes_pair(&mut st, x, y);
                    bp += 1;
                }
            }
        }
        vh::count("exhaustive_byte_needle_pairs", bp);
    }
    vh::count("exhaustive_pairs", pairs);
    vh::count("exhaustive_unary_paths", unaries);
    st.finish();
}

fn gen_hay(r: &mut Rng, maxlen: usize) -> Vec<u8> {
    let len = match r.below(8) {
        0 => r.below(12) as usize,
        1 => r.range(60, 300) as usize,
        2 => *r.pick(&[255usize, 256, 1023, 1024, 4096, 8191, 8192]),
        3 => r.below(maxlen as u64 + 1) as usize,
        _ => r.below(600) as usize,
    }
    .min(maxlen);
    let kind = r.below(4);
    let slash_den = *r.pick(&[4u64, 12, 60]);
    (0..len)
        .map(|_| {
            if r.chance(1, slash_den) {
                b'/'
            } else {
                match kind {
                    0 => *r.pick(&ALPHA),
                    1 => 1 + r.below(255) as u8, // any non-NUL byte
                    2 => b'a' + r.below(26) as u8,
                    _ => *r.pick(&[b'a', b'b', b'c']),
                }
            }
        })
        .collect()
}

fn rand(seed: u64, n: u64, maxlen: usize, ops: Ops) {
    let mut st = St::new(ops);
    let mut r = Rng::new(seed);
    for i in 0..n {
        let h = gen_hay(&mut r, maxlen);
        let nlen_max = h.len().min(*r.pick(&[1usize, 2, 3, 8, 40, 500, 8192]));
        let nlen = if nlen_max == 0 { 0 } else { r.range(1, nlen_max as u64) as usize };
        let kind = r.below(11);
        let mut needle: Vec<u8> = match kind {
            0 => h[..nlen].to_vec(),                                  // planted at the start
            1 | 2 => {
                let at = if h.len() > nlen { r.below((h.len() - nlen) as u64 + 1) as usize } else { 0 };
                h[at..at + nlen].to_vec()                             // planted in the middle
            }
            3 | 4 | 5 => h[h.len() - nlen..].to_vec(),                // planted at the very end
            6 => gen_hay(&mut r, 6),                                  // unrelated short
            7 => vec![],                                              // empty
            8 => {
                let mut v = h.clone();
                v.extend_from_slice(b"x/");                           // longer than the haystack
                v
            }
            9 => h.clone(),                                           // the whole haystack
            _ => vec![*r.pick(&[b'/', b'a', b'q', 0xF0])],            // single byte
        };
        // mutate the last / first byte of a planted needle: "almost" matches
        if kind <= 5 && !needle.is_empty() && r.chance(2, 5) {
            let k = if r.chance(3, 4) { needle.len() - 1 } else { 0 };
            needle[k] = if needle[k] == b'z' { b'y' } else { b'z' };
            st.note("random_near_miss_needles");
        }
        pair(&mut st, &h, &needle);
        if i % 3 == 0 {
            pair(&mut st, &needle, &h);
        }
        if ops.bytes {
            // caller bytes: NUL / FF inside, at the start, at the end; the terminator position
            let mut bn = needle.clone();
            match r.below(8) {
                0 => bn.push(0),                                       // ends in NUL
                1 => {
                    bn = h[h.len() - nlen.min(h.len())..].to_vec();    // tail + terminator (+ more)
                    bn.push(0);
                    if r.chance(1, 2) {
                        bn.push(*r.pick(&[b'a', 0u8, 0xFF, b'/']));
                    }
                }
                2 => bn.insert(0, 0),                                  // starts with NUL
                3 => {
                    let k = r.below(bn.len() as u64 + 1) as usize;    // NUL somewhere
                    bn.insert(k, 0);
                }
                4 => {
                    bn = h.clone();                                    // whole content + one byte
                    bn.push(*r.pick(&[0u8, b'a', 0xFF]));
                }
                5 => bn = vec![0u8; 1 + r.below(3) as usize],
                6 => {
                    if !bn.is_empty() {
                        let k = r.below(bn.len() as u64) as usize;
                        bn[k] = 0xFF;
                    }
                }
                _ => {}
            }
            bytes_pair(&mut st, &h, &bn);
        }
        if i % 4 == 0 {
            unary(&mut st, &h);
            // a path made of the two, so that parent / file name have something to split
            let mut p = h.clone();
            p.push(b'/');
            p.extend_from_slice(&needle);
            unary(&mut st, &p);
        }
    }
    vh::count("random_cases", n);
    st.finish();
}

fn main() {
    let a = vh::args();
    match a.mode.as_str() {
        "exh" => {
            let num = |i: usize, d: u64| -> u64 { a.rest.get(i).and_then(|s| s.parse().ok()).unwrap_or(d) };
            exh(a.seed, num(0, 4) as usize, num(1, 1), num(2, 0), Ops::parse(a.rest.get(3)), num(4, 6) as usize);
        }
        "rand" => {
            let maxlen = a.rest.first().and_then(|s| s.parse().ok()).unwrap_or(8192);
            rand(a.seed, a.budget, maxlen, Ops::parse(a.rest.get(1)));
        }
        "case" => {
            let x = unhex(a.rest.first().map_or("-", |s| s.as_str()));
            let y = unhex(a.rest.get(1).map_or("-", |s| s.as_str()));
            let mut st = St::new(Ops::parse(a.rest.get(2)));
            pair(&mut st, &x, &y);
            pair(&mut st, &y, &x);
            unary(&mut st, &x);
            unary(&mut st, &y);
            st.finish();
        }
        "noop" => {}
        m => vh::inconclusive(&format!("unknown mode {m}")),
    }
}
