//! C10: every UnixStr/UnixString produced by safe code ends in exactly one NUL; unrepresentable
//! inputs are rejected with an error, never a panic. The oracle looks at the RAW slice
//! (`as_slice()`/`len()`/`as_ptr()`), never at `as_str()`.
//!
//! modes: exh <seed> <budget> <ulen> <plen> <mod> <res>   exhaustive strings over {00,'/','a',FF}
//!        rand <seed> <n> <maxlen>                        random long strings
//!        lits                                             unix_lit! / EMPTY literals and what is derived from them
//!        fmt <seed> <rounds>                              from_format / path_join_fmt with non-&str argument kinds vs std format!
//!        dirent <seed> <rounds>                          DirEntry::file_unix_name over real directories
//!        case <seed> <_> <hex x> <hex y>                 one literal case (replay)
//!        consequence                                      what the next operation does with parent_path's result
use h_unixstr::*;
use rusl::string::unix_str::{UnixStr, UnixString};
use rusl::unix_lit;
use std::collections::{BTreeMap, BTreeSet};
use std::str::FromStr;
use vh::Rng;

const ALPHA: [u8; 4] = [0x00, b'/', b'a', 0xFF];
/// the same domain with a multi-byte character in place of the non-UTF-8 byte, so that the &str
/// constructors (try_from_str, FromStr, from_format, from_str_checked) see a 4-letter alphabet too
const TEXT_ALPHA: [&str; 4] = ["\0", "/", "a", "\u{e9}"];
fn text_of(idx: &[u8]) -> Vec<u8> {
    let mut v = Vec::with_capacity(idx.len() * 2);
    for &i in idx {
        v.extend_from_slice(TEXT_ALPHA[i as usize].as_bytes());
    }
    v
}

struct St {
    rep: Rep,
    evals: u64,
    per_op: BTreeMap<&'static str, u64>,
    notes: BTreeMap<&'static str, u64>,
    origin: Vec<u8>,
    origin2: Vec<u8>,
    classes: Classes,
    sampled: BTreeMap<&'static str, u64>,
}

impl St {
    fn new() -> Self {
        St {
            rep: Rep::new("C10", 3),
            evals: 0,
            per_op: BTreeMap::new(),
            notes: BTreeMap::new(),
            origin: vec![],
            origin2: vec![],
            classes: Classes::default(),
            sampled: BTreeMap::new(),
        }
    }
    fn class(&mut self, op: &'static str, b: &[u8], outcome: &'static str) {
        let c = content_of(b);
        self.classes.note([op, len_class(c.len()), nul_class(b), slash_class(c), outcome, ""]);
    }
    fn note(&mut self, k: &'static str) {
        *self.notes.entry(k).or_insert(0) += 1;
    }
    /// two literal samples per operation and process (fixed ordinal positions of that operation)
    fn take_sample(&mut self, op: &'static str) -> bool {
        let c = self.sampled.entry(op).or_insert(0);
        *c += 1;
        *c == 5 || *c == 500
    }
    fn op(&mut self, op: &'static str) {
        self.evals += 1;
        *self.per_op.entry(op).or_insert(0) += 1;
    }
    fn viol(&mut self, op: &'static str, what: &'static str, recv: &[u8], arg: &[u8], got: &[u8], msg: &str) {
        let (o1, o2) = (&self.origin, &self.origin2);
        self.rep.viol(op, what, || {
            format!(
                "{{\"op\":{},\"receiver_or_input\":{},\"arg\":{},\"got_raw\":{},\"got_raw_hex\":{},\"what\":{},\"generated_x_hex\":{},\"generated_y_hex\":{}}}",
                vh::js(op),
                vh::jb(recv),
                vh::jb(arg),
                vh::jb(got),
                vh::js(&hex(&got[..got.len().min(80)])),
                vh::js(msg),
                vh::js(&hex(o1)),
                vh::js(&hex(o2))
            )
        });
    }
    fn finish(&self) {
        vh::eval(self.evals);
        for (k, v) in &self.per_op {
            vh::count(&format!("op_{k}"), *v);
        }
        for (k, v) in &self.notes {
            vh::count(k, *v);
        }
        self.rep.finish();
    }
}

fn nul_class(b: &[u8]) -> &'static str {
    let n = b.iter().filter(|&&c| c == 0).count();
    if n == 0 {
        "nonul"
    } else if n == 1 && b.last() == Some(&0) {
        "endnul"
    } else {
        "badnul"
    }
}
fn content_of(b: &[u8]) -> &[u8] {
    if b.last() == Some(&0) {
        &b[..b.len() - 1]
    } else {
        b
    }
}
/// The invariant on a produced raw slice. `single`: the inputs carry no NUL other than one final
/// one, so exactly one NUL (the last byte) is expected; otherwise only the terminator is required.
fn check_raw(st: &mut St, op: &'static str, raw: &[u8], single: bool, recv: &[u8], arg: &[u8]) -> bool {
    st.op(op);
    let ok;
    if raw.is_empty() {
        st.viol(op, "empty-slice", recv, arg, raw, "produced value has an empty slice");
        ok = false;
    } else if raw[raw.len() - 1] != 0 {
        st.viol(op, "no-terminator", recv, arg, raw, "last byte of the produced value is not NUL");
        ok = false;
    } else if single && raw.iter().filter(|&&c| c == 0).count() != 1 {
        st.viol(op, "extra-nul", recv, arg, raw, "NUL-free input but produced value contains another NUL");
        ok = false;
    } else {
        ok = true;
    }
    st.class(op, recv, if ok { "ok" } else { "broken" });
    if st.take_sample(op) {
        vh::sample(
            &format!(
                "{{\"op\":{},\"receiver_or_input\":{},\"arg\":{},\"raw_hex\":{},\"invariant\":{}}}",
                vh::js(op),
                vh::jb(recv),
                vh::jb(arg),
                vh::js(&hex(&raw[..raw.len().min(40)])),
                ok
            ),
            12,
        );
    }
    ok
}

/// borrowed value: raw slice invariant + len()/as_ptr() describe the same bytes
fn check_ref(st: &mut St, op: &'static str, u: &UnixStr, single: bool, recv: &[u8], arg: &[u8]) -> bool {
    let raw = u.as_slice();
    if u.len() != raw.len() || u.as_ptr() != raw.as_ptr() {
        st.viol(op, "ptr-len-mismatch", recv, arg, raw, "len()/as_ptr() disagree with as_slice()");
        return false;
    }
    check_raw(st, op, raw, single, recv, arg)
}
fn check_string(st: &mut St, op: &'static str, s: &UnixString, single: bool, recv: &[u8], arg: &[u8]) -> bool {
    let r: &UnixStr = s;
    if s.as_ptr() != r.as_ptr() {
        st.viol(op, "ptr-len-mismatch", recv, arg, r.as_slice(), "UnixString::as_ptr differs from its deref");
        return false;
    }
    check_ref(st, op, r, single, recv, arg)
}

fn panic_viol(st: &mut St, op: &'static str, recv: &[u8], arg: &[u8], msg: &str) {
    st.op(op);
    st.viol(op, "panic", recv, arg, &[], &format!("panic: {msg}"));
    st.class(op, recv, "panic");
}

/// result of a fallible borrowed constructor against the three-line reference
fn ctor_ref<'a>(
    st: &mut St,
    op: &'static str,
    input: &[u8],
    expect_ok: bool,
    got: Result<Result<&'a UnixStr, rusl::Error>, String>,
) -> Option<&'a UnixStr> {
    match got {
        Err(p) => {
            panic_viol(st, op, input, &[], &p);
            None
        }
        Ok(Err(_)) => {
            st.op(op);
            st.class(op, input, "rejected");
            if expect_ok {
                st.viol(op, "rejects-valid", input, &[], &[], "representable input rejected");
            }
            None
        }
        Ok(Ok(u)) => {
            if !expect_ok {
                st.op(op);
                st.viol(op, "accepts-unrepresentable", input, &[], u.as_slice(), "unrepresentable input accepted");
                return None;
            }
            if !check_ref(st, op, u, true, input, &[]) {
                return None;
            }
            if u.as_slice() != input {
                st.viol(op, "content-changed", input, &[], u.as_slice(), "borrowed value does not designate the input bytes");
                return None;
            }
            Some(u)
        }
    }
}

fn ctor_owned(
    st: &mut St,
    op: &'static str,
    input: &[u8],
    expect_ok: bool,
    want_raw: &[u8],
    got: Result<Result<UnixString, rusl::Error>, String>,
) -> Option<UnixString> {
    match got {
        Err(p) => {
            panic_viol(st, op, input, &[], &p);
            None
        }
        Ok(Err(_)) => {
            st.op(op);
            st.class(op, input, "rejected");
            if expect_ok {
                st.viol(op, "rejects-valid", input, &[], &[], "representable input rejected");
            }
            None
        }
        Ok(Ok(s)) => {
            if !expect_ok {
                st.op(op);
                st.viol(op, "accepts-unrepresentable", input, &[], s.as_slice(), "unrepresentable input accepted");
                return None;
            }
            if !check_string(st, op, &s, true, input, &[]) {
                return None;
            }
            if s.as_slice() != want_raw {
                st.viol(op, "content-changed", input, &[], s.as_slice(), "owned value is not input (+ one NUL)");
                return None;
            }
            Some(s)
        }
    }
}

/// infallible producers (from_format, path_join, path_join_fmt, From)
fn produced(
    st: &mut St,
    op: &'static str,
    recv: &[u8],
    arg: &[u8],
    single: bool,
    got: Result<UnixString, String>,
) -> Option<UnixString> {
    match got {
        Err(p) => {
            panic_viol(st, op, recv, arg, &p);
            None
        }
        Ok(s) => check_string(st, op, &s, single, recv, arg).then_some(s),
    }
}

/// `single` for text that goes through a formatter: no NUL, or exactly one as the last byte
fn text_single(t: &[u8]) -> bool {
    let n = t.iter().filter(|&&c| c == 0).count();
    n == 0 || (n == 1 && t.last() == Some(&0))
}

/// parent / file name / re-join, repeatedly: a broken terminator only hurts the NEXT operation,
/// so every produced value is checked and only well-formed ones are fed on.
fn chain(st: &mut St, start: &UnixString, single: bool, maxdepth: usize) {
    let mut cur = start.clone();
    for _ in 0..maxdepth {
        let r: &UnixStr = &cur;
        let recv = r.as_slice().to_vec();
        let mut fname: Option<&UnixStr> = None;
        match vh::catch(|| r.path_file_name()) {
            Err(p) => panic_viol(st, "path_file_name", &recv, &[], &p),
            Ok(None) => st.note("path_file_name_none"),
            Ok(Some(f)) => {
                if check_ref(st, "path_file_name", f, single, &recv, &[]) {
                    fname = Some(f);
                }
            }
        }
        let parent = match vh::catch(|| r.parent_path()) {
            Err(p) => {
                panic_viol(st, "parent_path", &recv, &[], &p);
                None
            }
            Ok(None) => {
                st.note("parent_path_none");
                None
            }
            Ok(Some(p)) => check_string(st, "parent_path", &p, single, &recv, &[]).then_some(p),
        };
        // memory-walking operations on the (well-formed) receiver, for Miri / ASan
        let _ = vh::catch(|| (r.match_up_to(r), r.ends_with(r)));
        if let (Some(p), Some(f)) = (&parent, fname) {
            let pr = p.as_slice().to_vec();
            let fr = f.as_slice().to_vec();
            let j = vh::catch(|| p.path_join(f));
            produced(st, "path_join", &pr, &fr, single, j);
            if let Ok(fs) = f.as_str() {
                let j = vh::catch(|| p.path_join_fmt(format_args!("{fs}")));
                produced(st, "path_join_fmt", &pr, fs.as_bytes(), single, j);
            }
            let _ = vh::catch(|| (p.match_up_to(r), r.match_up_to(p), r.ends_with(f)));
        }
        match parent {
            Some(p) => cur = p,
            None => break,
        }
    }
}

/// conversions and path operations on a well-formed owned value
fn derived(st: &mut St, v: &UnixString, single: bool, deep: bool) {
    let raw = v.as_slice().to_vec();
    let r: &UnixStr = v;
    check_ref(st, "deref", r, single, &raw, &[]);
    let r2: &UnixStr = v.as_ref();
    check_ref(st, "as_ref", r2, single, &raw, &[]);
    let c = vh::catch(|| UnixString::from(r));
    if let Some(c) = produced(st, "from_unixstr", &raw, &[], single, c) {
        if c.as_slice() != raw.as_slice() {
            st.viol("from_unixstr", "content-changed", &raw, &[], c.as_slice(), "copy differs");
        }
    }
    // from_ptr on a terminated buffer (unsafe API, valid input): must stop at the first NUL
    match vh::catch(|| unsafe { UnixStr::from_ptr(r.as_ptr()) }) {
        Err(p) => panic_viol(st, "from_ptr", &raw, &[], &p),
        Ok(u) => {
            if check_ref(st, "from_ptr", u, true, &raw, &[]) {
                let first = raw.iter().position(|&c| c == 0).unwrap_or(raw.len() - 1);
                if u.as_slice() != &raw[..=first] {
                    st.viol("from_ptr", "content-changed", &raw, &[], u.as_slice(), "not the bytes up to the first NUL");
                }
            }
        }
    }
    chain(st, v, single, if deep { 8 } else { 3 });
    if deep {
        for t in ["", "a", "/a", "a/", "/", "a\0", "/a/b\0"] {
            let j = vh::catch(|| r.path_join_fmt(format_args!("{t}")));
            if let Some(j) = produced(st, "path_join_fmt", &raw, t.as_bytes(), single && text_single(t.as_bytes()), j) {
                chain(st, &j, single && text_single(t.as_bytes()), 2);
            }
        }
        for t in [&b"\0"[..], b"a\0", b"/a\0", b"a/\0", b"/\0", b"\xff/\xff\0"] {
            let tu = UnixStr::try_from_bytes(t).unwrap();
            let j = vh::catch(|| r.path_join(tu));
            if let Some(j) = produced(st, "path_join", &raw, t, single, j) {
                chain(st, &j, single, 2);
            }
            let j = vh::catch(|| tu.path_join(r));
            if let Some(j) = produced(st, "path_join", t, &raw, single, j) {
                chain(st, &j, single, 2);
            }
        }
    }
}

fn unary(st: &mut St, b: &[u8], deep: bool) {
    st.origin = b.to_vec();
    st.origin2.clear();
    let nuls = b.iter().filter(|&&c| c == 0).count();
    let valid_borrowed = nuls == 1 && b.last() == Some(&0);
    let valid_owned = nuls == 0 || valid_borrowed;
    let mut want = b.to_vec();
    if nuls == 0 {
        want.push(0);
    }
    // borrowed, from bytes
    let g = vh::catch(|| UnixStr::try_from_bytes(b));
    ctor_ref(st, "str_try_from_bytes", b, valid_borrowed, g);
    // owned, from bytes / vec
    let g = vh::catch(|| UnixString::try_from_bytes(b));
    let first = ctor_owned(st, "string_try_from_bytes", b, valid_owned, &want, g);
    let g = vh::catch(|| UnixString::try_from_vec(b.to_vec()));
    ctor_owned(st, "string_try_from_vec", b, valid_owned, &want, g);
    // a vec with spare capacity and one with none
    let g = vh::catch(|| {
        let mut v = Vec::with_capacity(b.len() + 17);
        v.extend_from_slice(b);
        UnixString::try_from_vec(v)
    });
    ctor_owned(st, "string_try_from_vec", b, valid_owned, &want, g);
    if let Ok(s) = std::str::from_utf8(b) {
        let g = vh::catch(|| UnixStr::try_from_str(s));
        ctor_ref(st, "str_try_from_str", b, valid_borrowed, g);
        let g = vh::catch(|| UnixString::try_from_str(s));
        ctor_owned(st, "string_try_from_str", b, valid_owned, &want, g);
        let g = vh::catch(|| UnixString::try_from_string(s.to_string()));
        ctor_owned(st, "string_try_from_string", b, valid_owned, &want, g);
        let g = vh::catch(|| UnixString::from_str(s));
        ctor_owned(st, "string_from_str", b, valid_owned, &want, g);
        // const validator behind unix_lit!, called at run time on EVERY text: its documented
        // rejection is a panic (expected for unrepresentable text, not a violation here); accepting
        // text that is not "no NUL except exactly one as the last byte" is the refuting event
        match vh::catch(|| UnixStr::from_str_checked(s)) {
            Err(p) => {
                if valid_borrowed {
                    panic_viol(st, "from_str_checked", b, &[], &p);
                } else {
                    st.op("from_str_checked");
                    st.class("from_str_checked", b, "rejected-by-panic");
                }
            }
            Ok(u) => {
                if !valid_borrowed {
                    st.op("from_str_checked");
                    st.viol("from_str_checked", "accepts-unrepresentable", b, &[], u.as_slice(), "unrepresentable text accepted by the validator");
                    // what the next operation makes of it (reported under its own operation name)
                    let o = UnixString::from(u);
                    if let Some(t) = mk(b"secret.txt") {
                        let j = vh::catch(|| o.path_join(&t));
                        produced(st, "path_join", o.as_slice(), t.as_slice(), true, j);
                    }
                } else if check_ref(st, "from_str_checked", u, true, b, &[]) {
                    if u.as_slice() != b {
                        st.viol("from_str_checked", "content-changed", b, &[], u.as_slice(), "content changed");
                    } else {
                        let o = UnixString::from(u);
                        if let Some(t) = mk(b"secret.txt") {
                            let j = vh::catch(|| o.path_join(&t));
                            if let Some(j) = produced(st, "path_join", o.as_slice(), t.as_slice(), true, j) {
                                chain(st, &j, true, 2);
                            }
                        }
                        chain(st, &o, true, if deep { 4 } else { 2 });
                    }
                }
            }
        }
        // from_format: infallible. NUL-free or single trailing NUL => exactly one NUL; text with other
        // NULs cannot be rejected by this signature: only the terminator is demanded (counted as a note)
        let single = text_single(b);
        if !single {
            st.note("note_from_format_text_with_interior_nul_accepted");
        }
        let g = vh::catch(|| UnixString::from_format(format_args!("{s}")));
        if let Some(f) = produced(st, "from_format", b, &[], single, g) {
            if single && f.as_slice() != want.as_slice() {
                st.viol("from_format", "content-changed", b, &[], f.as_slice(), "formatted text changed");
            } else if deep || !single {
                chain(st, &f, single, 2);
            }
        }
    }
    if let Some(v) = first {
        derived(st, &v, true, deep);
    }
}

fn mk(b: &[u8]) -> Option<UnixString> {
    let nuls = b.iter().filter(|&&c| c == 0).count();
    if !(nuls == 0 || (nuls == 1 && b.last() == Some(&0))) {
        return None;
    }
    let s = vh::catch(|| UnixString::try_from_bytes(b)).ok()?.ok()?;
    (s.as_slice().last() == Some(&0)).then_some(s)
}

fn pair(st: &mut St, x: &[u8], y: &[u8]) {
    st.origin = x.to_vec();
    st.origin2 = y.to_vec();
    let a = mk(x);
    let b = mk(y);
    if let (Some(a), Some(b)) = (&a, &b) {
        let (ar, br) = (a.as_slice().to_vec(), b.as_slice().to_vec());
        let j = vh::catch(|| a.path_join(b));
        if let Some(j) = produced(st, "path_join", &ar, &br, true, j) {
            chain(st, &j, true, 2);
        }
    }
    let ys = std::str::from_utf8(y).ok();
    if let (Some(a), Some(ys)) = (&a, ys) {
        let ar = a.as_slice().to_vec();
        let single = text_single(y);
        if !single {
            st.note("note_path_join_fmt_text_with_interior_nul_accepted");
        }
        let j = vh::catch(|| a.path_join_fmt(format_args!("{ys}")));
        if let Some(j) = produced(st, "path_join_fmt", &ar, y, single, j) {
            chain(st, &j, single, 2);
        }
    }
    if let (Ok(xs), Some(ys)) = (std::str::from_utf8(x), ys) {
        let mut cat = x.to_vec();
        cat.extend_from_slice(y);
        let single = text_single(&cat);
        let g = vh::catch(|| UnixString::from_format(format_args!("{xs}{ys}")));
        if let Some(f) = produced(st, "from_format", x, y, single, g) {
            let mut want = cat.clone();
            if want.last() != Some(&0) {
                want.push(0);
            }
            if single && f.as_slice() != want.as_slice() {
                st.viol("from_format", "content-changed", x, y, f.as_slice(), "formatted text changed");
            }
        }
        let mut cat = x.to_vec();
        cat.push(b'/');
        cat.extend_from_slice(y);
        let single = text_single(&cat);
        let g = vh::catch(|| UnixString::from_format(format_args!("{xs}/{ys}")));
        produced(st, "from_format", x, y, single, g);
    }
}

fn lits(st: &mut St) {
    st.origin.clear();
    st.origin2.clear();
    macro_rules! lit {
        ($($l:literal),* $(,)?) => {$({
            let u: &'static UnixStr = unix_lit!($l);
            let mut want = $l.as_bytes().to_vec();
            want.push(0);
            if check_ref(st, "unix_lit", u, true, &want, &[]) {
                if u.as_slice() != want.as_slice() {
                    st.viol("unix_lit", "content-changed", &want, &[], u.as_slice(), "literal changed");
                } else {
                    let o = UnixString::from(u);
                    derived(st, &o, true, true);
                }
            }
        })*};
    }
    lit!(
        "", "/", "a", "/a", "a/", "//", ".", "..", "hello", "hello/there/friend",
        "/home/gramar/code/", "/home/gramar/code//", "/home/gramar/code/rust/tiny-std",
        "åäö/ü", "a b\tc\n",
        "0123456789012345678901234567890123456789012345678901234567890123456789012345678901234567890123456789012345678901234567890123456789/0123456789012345678901234567890123456789012345678901234567890123456789012345678901234567890123456789012345678901234567890123456789"
    );
    let e = UnixStr::EMPTY;
    check_ref(st, "unix_lit", e, true, b"\0", &[]);
}

/// modulus <= 64: the domain is scanned and partitioned over `res` (all residues together are the
/// whole domain). Larger modulus: domain_size / modulus cases are drawn from the domain instead
/// (scanning 10^5 candidates to keep 10^2 is what costs under Miri).
fn exh(seed: u64, ulen: usize, plen: usize, modulus: u64, res: u64) {
    let mut st = St::new();
    let mut n_un = 0u64;
    let mut n_pairs = 0u64;
    if modulus <= 64 {
        let us = all_strings(&ALPHA, ulen);
        for (i, s) in us.iter().enumerate() {
            if selected(i as u64, seed, modulus, res) {
                unary(&mut st, s, true);
                n_un += 1;
            }
        }
        let mut n_text = 0u64;
        for (i, ix) in all_strings(&[0, 1, 2, 3], ulen).iter().enumerate() {
            // texts without the multi-byte letter were already covered above
            if ix.contains(&3) && selected((1 << 45) + i as u64, seed, modulus, res) {
                unary(&mut st, &text_of(ix), true);
                n_text += 1;
            }
        }
        vh::count("exhaustive_text_inputs_with_multibyte_char", n_text);
        let ps = all_strings(&ALPHA, plen);
        let n = ps.len() as u64;
        for (i, x) in ps.iter().enumerate() {
            for (j, y) in ps.iter().enumerate() {
                if selected((1 << 40) + i as u64 * n + j as u64, seed, modulus, res) {
                    pair(&mut st, x, y);
                    n_pairs += 1;
                }
            }
        }
        vh::count("exhaustive_unary_inputs", n_un);
        vh::count("exhaustive_pairs", n_pairs);
    } else {
        let mut r = Rng::new(seed.wrapping_mul(0x9E37_79B9).wrapping_add(res));
        let nu = (count_upto(4, ulen) / modulus).max(1);
        let np = (count_upto(4, plen).pow(2) / modulus).max(1);
        for k in 0..nu {
            let s = sample_string(&mut r, &ALPHA, ulen, k % 2 == 1);
            unary(&mut st, &s, true);
            let ix = sample_string(&mut r, &[0, 1, 2, 3], ulen, k % 2 == 0);
            unary(&mut st, &text_of(&ix), true);
        }
        for k in 0..np {
            let x = sample_string(&mut r, &ALPHA, plen, k % 2 == 1);
            let y = sample_string(&mut r, &ALPHA, plen, k % 2 == 1);
            pair(&mut st, &x, &y);
        }
        vh::count("sampled_unary_inputs", nu);
        vh::count("sampled_pairs", np);
    }
    st.finish();
}

fn gen_long(r: &mut Rng, maxlen: usize) -> Vec<u8> {
    let len = match r.below(6) {
        0 => r.below(16) as usize,
        1 => r.range(200, 300) as usize,
        2 => *r.pick(&[255usize, 256, 257, 4095, 4096, 4097, 8191, 8192]),
        _ => r.below(maxlen as u64 + 1) as usize,
    }
    .min(maxlen);
    let kind = r.below(4);
    let slash_den = *r.pick(&[3u64, 8, 40, 1000]);
    let mut v: Vec<u8> = (0..len)
        .map(|_| {
            if r.chance(1, slash_den) {
                b'/'
            } else {
                match kind {
                    0 => b'a' + r.below(26) as u8,           // ascii
                    1 => 1 + r.below(255) as u8,             // any non-NUL byte (non-UTF-8 likely)
                    2 => *r.pick(&[b'a', b'/', 0xFF, b'.']), // small alphabet
                    _ => 0x20 + r.below(0x5f) as u8,         // printable ascii
                }
            }
        })
        .collect();
    // NUL placement: none / end / interior / several / double end
    match r.below(8) {
        0 | 1 | 2 => {}
        3 | 4 => v.push(0),
        5 => {
            if !v.is_empty() {
                let p = r.below(v.len() as u64) as usize;
                v[p] = 0;
            }
        }
        6 => {
            v.push(0);
            v.push(0);
        }
        _ => {
            if !v.is_empty() {
                let p = r.below(v.len() as u64) as usize;
                v[p] = 0;
            }
            v.push(0);
        }
    }
    v
}

fn rand(seed: u64, n: u64, maxlen: usize) {
    let mut st = St::new();
    let mut r = Rng::new(seed);
    let mut prev: Vec<u8> = b"/tmp".to_vec();
    for i in 0..n {
        let s = gen_long(&mut r, maxlen);
        unary(&mut st, &s, i % 8 == 0);
        if i % 2 == 0 {
            pair(&mut st, &prev, &s);
            pair(&mut st, &s, &prev);
            let short = gen_long(&mut r, 6);
            pair(&mut st, &s, &short);
            pair(&mut st, &short, &s);
        }
        prev = s;
    }
    vh::count("random_long_inputs", n);
    st.finish();
}

// ------------------------------------------------------------------------------------------
fn dirent(seed: u64, rounds: u64) {
    use std::ffi::OsStr;
    use std::os::unix::ffi::OsStrExt;
    let mut st = St::new();
    let mut r = Rng::new(seed);
    let base = format!("/tmp/c10-dirent-{}-{}", std::process::id(), seed);
    let _ = std::fs::remove_dir_all(&base);
    if let Err(e) = std::fs::create_dir_all(&base) {
        vh::inconclusive(&format!("dirent: cannot create {base}: {e}"));
        return;
    }
    let mut seen_total = 0u64;
    let mut missing = 0u64;
    for round in 0..rounds {
        let dir = format!("{base}/r{round}");
        std::fs::create_dir(&dir).unwrap();
        // names: every length 1..=255 once per round
        let mut names: BTreeSet<Vec<u8>> = BTreeSet::new();
        for len in 1..=255usize {
            let kind = (round + len as u64) % 4;
            let name: Vec<u8> = match (round, kind) {
                (0, _) => vec![b'a'; len],
                (1, _) => vec![0xFF; len],
                (_, 0) => (0..len).map(|_| b'a' + r.below(26) as u8).collect(),
                (_, 1) => (0..len)
                    .map(|_| {
                        let c = 1 + r.below(255) as u8;
                        if c == b'/' {
                            b'_'
                        } else {
                            c
                        }
                    })
                    .collect(),
                (_, 2) => {
                    let mut v = vec![b'.'; 1 + (r.below(2) as usize).min(len - 1)];
                    while v.len() < len {
                        v.push(*r.pick(&[b'.', b'a', 0xFF, b' ']));
                    }
                    v
                }
                _ => "åäö€".bytes().cycle().take(len).collect(),
            };
            if name == b"." || name == b".." {
                continue;
            }
            names.insert(name);
        }
        let mut created: BTreeSet<Vec<u8>> = BTreeSet::new();
        for (k, name) in names.iter().enumerate() {
            let p = std::path::Path::new(&dir).join(OsStr::from_bytes(name));
            let ok = match k % 5 {
                0 => std::fs::create_dir(&p).is_ok(),
                1 => std::os::unix::fs::symlink("target", &p).is_ok(),
                _ => std::fs::File::create(&p).is_ok(),
            };
            if ok {
                created.insert(name.clone());
            } else {
                st.note("dirent_names_not_creatable");
            }
        }
        let dpath = UnixString::try_from_str(&dir).unwrap();
        let d = match tiny_std::fs::Directory::open(&dpath) {
            Ok(d) => d,
            Err(e) => {
                vh::inconclusive(&format!("dirent: Directory::open failed: {e:?}"));
                continue;
            }
        };
        let mut got: BTreeSet<Vec<u8>> = BTreeSet::new();
        for ent in d.read() {
            let ent = match ent {
                Ok(e) => e,
                Err(e) => {
                    vh::inconclusive(&format!("dirent: read error {e:?}"));
                    break;
                }
            };
            st.origin.clear();
            match vh::catch(|| ent.file_unix_name().map(|u| (u.as_slice().to_vec(), u.len(), u.as_ptr() as usize, u.as_slice().as_ptr() as usize))) {
                Err(p) => panic_viol(&mut st, "file_unix_name", dir.as_bytes(), &[], &p),
                Ok(Err(_)) => {
                    st.op("file_unix_name");
                    st.viol("file_unix_name", "rejects-valid", dir.as_bytes(), &[], &[], "error for a kernel-provided name");
                }
                Ok(Ok((raw, len, p1, p2))) => {
                    seen_total += 1;
                    if len != raw.len() || p1 != p2 {
                        st.viol("file_unix_name", "ptr-len-mismatch", dir.as_bytes(), &[], &raw, "len/ptr mismatch");
                    }
                    if !check_raw(&mut st, "file_unix_name", &raw, true, &raw, &[]) {
                        continue;
                    }
                    let name = raw[..raw.len() - 1].to_vec();
                    let relative = name == b"." || name == b"..";
                    if !relative && !created.contains(&name) {
                        st.viol("file_unix_name", "content-changed", dir.as_bytes(), &[], &raw, "name is none of the names created in this directory");
                        continue;
                    }
                    st.classes.note([
                        "file_unix_name",
                        match name.len() {
                            1 => "len1",
                            2..=15 => "len2-15",
                            16..=254 => "len16-254",
                            _ => "len255",
                        },
                        if std::str::from_utf8(&name).is_ok() { "utf8" } else { "nonutf8" },
                        "",
                        "",
                        "",
                    ]);
                    if relative {
                        continue;
                    }
                    got.insert(name.clone());
                    // next operation: join with the directory and hand the pointer to the kernel
                    let u = ent.file_unix_name().unwrap();
                    let j = vh::catch(|| dpath.path_join(u));
                    if let Some(j) = produced(&mut st, "path_join", dpath.as_slice(), &raw, true, j) {
                        st.op("kernel_lookup");
                        match rusl::unistd::stat(&*j) {
                            Ok(_) => {}
                            Err(_) => match std::fs::symlink_metadata(std::path::Path::new(&dir).join(OsStr::from_bytes(&name))) {
                                // a symlink to a missing target: stat fails legitimately
                                Ok(m) if m.file_type().is_symlink() => st.note("dirent_dangling_symlink_stat"),
                                _ => {
                                    st.viol("file_unix_name", "kernel-sees-different-name", dpath.as_slice(), &raw, j.as_slice(), "kernel does not find the joined path");
                                }
                            },
                        }
                        // and back: file name of the joined path is the entry name again
                        match vh::catch(|| j.path_file_name().map(|f| f.as_slice().to_vec())) {
                            Ok(Some(f)) => {
                                check_raw(&mut st, "path_file_name", &f, true, j.as_slice(), &[]);
                            }
                            Ok(None) => st.note("path_file_name_none"),
                            Err(p) => panic_viol(&mut st, "path_file_name", j.as_slice(), &[], &p),
                        }
                    }
                }
            }
        }
        missing += created.difference(&got).count() as u64;
        drop(d);
    }
    let _ = std::fs::remove_dir_all(&base);
    vh::count("dirent_entries_seen", seen_total);
    // completeness of the listing is C14's claim; reported as a number only
    vh::count("dirent_created_names_not_listed", missing);
    st.finish();
}

/// Shows what the *next* operation does with an unterminated value (run under ASan / Miri).
fn consequence() {
    let p = UnixStr::try_from_bytes(&exact(b"/aaaaaaaaaaaaaaaa/bbbbbbbbbbbbbbbb")).unwrap().parent_path();
    let Some(p) = p else {
        println!("no parent");
        return;
    };
    let q = UnixString::from(&*p);
    println!("parent raw = {:?}", p.as_slice());
    // identical contents, neither terminated: match_up_to walks until a difference or a NUL
    let n = p.match_up_to(&q);
    println!("match_up_to walked {n} bytes over a {}-byte value", p.len());
}

// ------------------------------------------------------------------------------------------
// fmt::Arguments consumers (from_format, path_join_fmt) driven with argument KINDS beyond &str:
// chars of every UTF-8 width (incl. code points that are multiples of 0x100), integers / floats
// with width, padding, radix, fill characters, nested format_args!, Display impls writing through
// write_char / write_str / write_fmt in pieces, {:?} / {:#?}. Reference: the bytes std's format!
// produces for the very same arguments.
enum Piece {
    C(char),
    S(String),
    N(i64, usize),
}
struct Pieces(Vec<Piece>);
impl std::fmt::Display for Pieces {
    fn fmt(&self, f: &mut std::fmt::Formatter<'_>) -> std::fmt::Result {
        use std::fmt::Write;
        for p in &self.0 {
            match p {
                Piece::C(c) => f.write_char(*c)?,
                Piece::S(s) => f.write_str(s)?,
                Piece::N(n, w) => write!(f, "{n:0w$}", w = *w)?,
            }
        }
        Ok(())
    }
}
/// honours width / fill / precision of the caller's spec
struct Padded(String);
impl std::fmt::Display for Padded {
    fn fmt(&self, f: &mut std::fmt::Formatter<'_>) -> std::fmt::Result {
        f.pad(&self.0)
    }
}
#[derive(Debug)]
#[allow(dead_code)]
struct Rec {
    name: String,
    sep: char,
    n: i32,
    opt: Option<char>,
    list: Vec<u8>,
}

const CHAR_POOL: [char; 24] = [
    'a', '/', '.', ' ', '~', '\u{7f}', '\u{80}', '\u{e9}', '\u{ff}', '\u{100}', '\u{101}', '\u{200}', '\u{7ff}',
    '\u{800}', '\u{3000}', '\u{4e00}', '\u{20ac}', '\u{ff00}', '\u{ffff}', '\u{10000}', '\u{1f600}', '\u{10ff00}',
    '\u{10ffff}', '\0',
];
const FMT_RECV: [&[u8]; 4] = [b"", b"d", b"d/", b"/"];

fn pick_char(r: &mut Rng, k: u64) -> char {
    let n = CHAR_POOL.len() as u64;
    if k < n * n {
        return CHAR_POOL[(k % n) as usize];
    }
    match r.below(5) {
        0 => *r.pick(&CHAR_POOL),
        // a code point whose low byte is zero
        1 => char::from_u32((r.below(0x10ff) as u32 + 1) << 8).unwrap_or('\u{100}'),
        2 => char::from_u32(r.below(0x80) as u32).unwrap_or('a'),
        _ => char::from_u32(r.below(0x11_0000) as u32).unwrap_or('\u{fffd}'),
    }
}
fn pick_text(r: &mut Rng) -> String {
    let n = r.below(9) as usize;
    (0..n)
        .map(|_| match r.below(8) {
            0 => '/',
            1 => *r.pick(&CHAR_POOL[..23]),
            2 => '.',
            _ => (b'a' + r.below(26) as u8) as char,
        })
        .collect()
}

/// one produced value against std's text for the same arguments
fn judge_fmt(st: &mut St, op: &'static str, shape: &'static str, recv: &[u8], text: &[u8], got: Result<UnixString, String>) {
    let single = text_single(text);
    let nul_free = !text.contains(&0);
    let tclass = if nul_free {
        "text-nonul"
    } else if single {
        "text-endnul"
    } else {
        st.note("note_fmt_text_with_interior_nul_accepted");
        "text-badnul"
    };
    let wide = if text.iter().any(|&b| b >= 0x80) { "multibyte" } else { "ascii" };
    st.classes.note([op, "fmt-kinds", shape, tclass, wide, ""]);
    // std formatted these arguments without panicking, so a panic here is the library's
    let Some(v) = produced(st, op, recv, text, single, got) else { return };
    let want: Option<Vec<u8>> = if op == "from_format" {
        single.then(|| {
            let mut w = text.to_vec();
            if nul_free {
                w.push(0);
            }
            w
        })
    } else {
        // path_join_fmt: the documented boundary rule on NUL-free text
        nul_free.then(|| {
            let mut w = refm::join(&recv[..recv.len() - 1], text);
            w.push(0);
            w
        })
    };
    if let Some(w) = want {
        if v.as_slice() != w.as_slice() {
            st.viol(op, "content-differs-from-formatted-text", recv, text, v.as_slice(), shape);
        }
    }
}

fn fmt_round(st: &mut St, r: &mut Rng, k: u64) {
    let n = CHAR_POOL.len() as u64;
    let c1 = pick_char(r, k);
    let c2 = pick_char(r, if k < n * n { k / n } else { k });
    let s1 = pick_text(r);
    let s2 = pick_text(r);
    let i1: i64 = match r.below(4) {
        0 => *r.pick(&[0i64, 1, -1, 255, 256, i64::MAX, i64::MIN]),
        1 => r.below(1000) as i64 - 500,
        _ => r.next() as i64 >> r.below(60),
    };
    let u1: u8 = r.next() as u8;
    let big: u128 = (r.next() as u128) << r.below(64);
    let f1: f64 = match r.below(4) {
        0 => *r.pick(&[0.0, -0.0, 1.5, f64::MAX, f64::MIN_POSITIVE, f64::INFINITY, f64::NAN]),
        _ => (r.next() as i64 >> 20) as f64 / 1024.0,
    };
    let w = r.below(13) as usize;
    let pr = r.below(6) as usize;
    let bl = r.chance(1, 2);
    st.origin = format!("k={k} c1={c1:?} c2={c2:?} s1={s1:?} s2={s2:?} i1={i1} u1={u1} big={big} f1={f1:?} w={w} pr={pr}").into_bytes();
    st.origin2.clear();
    let recvs: Vec<UnixString> = FMT_RECV.iter().filter_map(|b| mk(b)).collect();
    macro_rules! fc {
        ($shape:literal, $($fmt:tt)+) => {{
            let text = format!($($fmt)+).into_bytes();
            let g = vh::catch(|| UnixString::from_format(format_args!($($fmt)+)));
            judge_fmt(st, "from_format", $shape, &[], &text, g);
            for rv in &recvs {
                let g = vh::catch(|| rv.path_join_fmt(format_args!($($fmt)+)));
                judge_fmt(st, "path_join_fmt", $shape, rv.as_slice(), &text, g);
            }
        }};
    }
    // --- char
    fc!("char", "{}", c1);
    fc!("char-inline", "{c1}");
    fc!("char-in-path", "/tmp/{}/x{}y", c1, c2);
    fc!("char-debug", "{:?}", c1);
    fc!("char-width", "{:>4}|{:<3}|{:^5}", c1, c2, c1);
    fc!("char-width-runtime", "{:>w$}{:<1$}", c1, w);
    fc!("u8-as-char", "{}", u1 as char);
    // --- fill characters (written one char at a time by the padding code)
    fc!("fill-ascii", "{:*>6}", s1);
    fc!("fill-2byte", "{:\u{e9}<7}", s1);
    fc!("fill-u0100", "{:\u{100}>5}", i1);
    fc!("fill-u3000", "{:\u{3000}^9}", c1);
    fc!("fill-u4e00", "{:\u{4e00}<w$}", s2);
    fc!("fill-u10000", "{:\u{10000}>8.2}", s1);
    // --- integers / floats / bool
    fc!("int", "{}", i1);
    fc!("int-width", "{:5}|{:<5}|{:^7}|{:05}", i1, u1, i1, u1);
    fc!("int-hex", "{:x}/{:X}/{:#x}/{:#06x}", i1, u1, big, u1);
    fc!("int-bin-oct", "{:#010b}.{:o}.{:+}", u1, i1, i1);
    fc!("int-exp", "{:e}-{:E}", u1, i1);
    fc!("int-width-runtime", "{:>w$}{:0w$}", i1, u1);
    fc!("u128", "{}", big);
    fc!("float", "{}|{:.3}|{:8.2}|{:e}|{:+.pr$}", f1, f1, f1, f1, f1);
    fc!("bool", "{}{:>7}{:?}", bl, bl, bl);
    // --- strings with specs, Debug
    fc!("str-precision", "{:.2}|{:>8}|{:10.3}|{:w$.pr$}", s1, s2, s1, s2);
    fc!("str-debug", "{:?}/{:?}", s1, s2);
    fc!("string-owned", "{}{}", s1.clone(), String::from(c1));
    fc!("str-trailing-nul-literal", "{}/{}\0", s1, i1);
    fc!("option-vec-debug", "{:?}{:?}", Some(c1), vec![s1.as_str(), s2.as_str()]);
    // --- nested format_args!, literal-only
    fc!("nested", "{}/{}", format_args!("{}{}", s1, c1), format_args!("{:>4}", i1));
    fc!("nested-deep", "{}", format_args!("{}", format_args!("<{}|{:\u{200}>3}>", c2, u1)));
    fc!("literal-only", "plain/literal");
    fc!("literal-multibyte", "dir-\u{100}\u{3000}/f");
    fc!("empty", "");
    // --- Display impls writing in pieces
    let pieces = Pieces(vec![Piece::S(s1.clone()), Piece::C(c1), Piece::N(i1 % 1000, w.min(6)), Piece::C('/'), Piece::C(c2), Piece::S(s2.clone())]);
    fc!("display-pieces", "{}", pieces);
    fc!("display-pieces-twice", "{pieces}:{pieces:>30}");
    let padded = Padded(format!("{s1}{c1}"));
    fc!("display-pad", "{:>12}|{:\u{100}^10}|{:.1}", padded, padded, padded);
    let rec = Rec { name: s2.clone(), sep: c1, n: i1 as i32, opt: Some(c2), list: vec![u1, 0, 255] };
    fc!("derive-debug", "{:?}", rec);
    fc!("derive-debug-pretty", "{:#?}", rec);
    fc!("path-display", "{}", std::path::Path::new(&s1).join(&s2).display());
    fc!("cow-box", "{}{}", std::borrow::Cow::Borrowed(s1.as_str()), s2.clone().into_boxed_str());
}

fn fmt_mode(seed: u64, rounds: u64) {
    let mut st = St::new();
    let mut r = Rng::new(seed);
    let n = (CHAR_POOL.len() * CHAR_POOL.len()) as u64;
    // the boundary table is walked from a seed-dependent position; later rounds are random
    let start = if rounds >= n { 0 } else { seed % n };
    for i in 0..rounds {
        let k = if rounds >= n { i } else if i < rounds / 2 { (start + i * 25) % n } else { n + i };
        fmt_round(&mut st, &mut r, k);
    }
    vh::count("fmt_kind_rounds", rounds);
    st.finish();
}

fn main() {
    let a = vh::args();
    let num = |i: usize, d: u64| -> u64 { a.rest.get(i).and_then(|s| s.parse().ok()).unwrap_or(d) };
    match a.mode.as_str() {
        "exh" => exh(a.seed, num(0, 6) as usize, num(1, 4) as usize, num(2, 1), num(3, 0)),
        "rand" => rand(a.seed, a.budget, num(0, 8192) as usize),
        "dirent" => dirent(a.seed, a.budget),
        "fmt" => fmt_mode(a.seed, a.budget),
        "case" => {
            let x = unhex(a.rest.first().map_or("-", |s| s.as_str()));
            let y = unhex(a.rest.get(1).map_or("-", |s| s.as_str()));
            let mut st = St::new();
            unary(&mut st, &x, true);
            unary(&mut st, &y, true);
            pair(&mut st, &x, &y);
            st.finish();
        }
        "lits" => {
            let mut st = St::new();
            lits(&mut st);
            st.finish();
        }
        "noop" => {}
        "consequence" => consequence(),
        m => vh::inconclusive(&format!("unknown mode {m}")),
    }
}
