//! The model: path resolution over a snapshot and the predicted snapshot after each operation.
use crate::snap::{join_key, Node, Snap, B};
use std::collections::{BTreeMap, VecDeque};
use std::ffi::OsStr;
use std::os::unix::ffi::OsStrExt;

/// predicted snapshot; mode None = "whatever the operation chose" (new nodes)
pub type Exp = BTreeMap<B, (Node, Option<u32>)>;

#[derive(Debug, Clone)]
pub struct Ent {
    pub name: B,
    pub ty: &'static str,
    pub utf8_name: Option<B>,
    pub relref: bool,
}

#[derive(Debug)]
pub enum Value {
    Unit,
    Bytes(B),
    Entries(Vec<Ent>),
}

#[derive(Debug, Clone)]
pub enum Op {
    Write { p: B, data: B },
    /// OpenOptions (create + append | create + write without truncate) followed by Write::write_all
    WriteVia { p: B, data: B, append: bool },
    Read { p: B, as_string: bool },
    Copy { src: B, dst: B, via_handle: bool },
    Cda { p: B },
    Rmall { p: B },
    Readdir { p: B },
}

impl Op {
    pub fn name(&self) -> &'static str {
        match self {
            Op::Write { .. } => "write",
            Op::WriteVia { append: true, .. } => "append_write_all",
            Op::WriteVia { append: false, .. } => "overwrite_write_all",
            Op::Read { .. } => "read",
            Op::Copy { .. } => "copy",
            Op::Cda { .. } => "create_dir_all",
            Op::Rmall { .. } => "remove_dir_all",
            Op::Readdir { .. } => "readdir",
        }
    }
    pub fn main_path(&self) -> &B {
        match self {
            Op::Write { p, .. } | Op::WriteVia { p, .. } | Op::Read { p, .. } | Op::Cda { p } | Op::Rmall { p } | Op::Readdir { p } => p,
            Op::Copy { dst, .. } => dst,
        }
    }
    pub fn json(&self) -> String {
        match self {
            Op::Write { p, data } => format!(
                "{{\"op\":\"write\",\"path\":{},\"path_len\":{},\"data_len\":{}}}",
                vh::jb(p),
                p.len(),
                data.len()
            ),
            Op::WriteVia { p, data, append } => format!(
                "{{\"op\":{},\"path\":{},\"path_len\":{},\"data_len\":{}}}",
                if *append { "\"append_write_all\"" } else { "\"overwrite_write_all\"" },
                vh::jb(p),
                p.len(),
                data.len()
            ),
            Op::Read { p, as_string } => format!(
                "{{\"op\":{},\"path\":{},\"path_len\":{}}}",
                if *as_string { "\"read_to_string\"" } else { "\"read\"" },
                vh::jb(p),
                p.len()
            ),
            Op::Copy { src, dst, via_handle } => format!(
                "{{\"op\":{},\"src\":{},\"dst\":{},\"dst_len\":{}}}",
                if *via_handle { "\"File::copy\"" } else { "\"copy_file\"" },
                vh::jb(src),
                vh::jb(dst),
                dst.len()
            ),
            Op::Cda { p } => format!(
                "{{\"op\":\"create_dir_all\",\"path\":{},\"path_len\":{}}}",
                vh::jb(p),
                p.len()
            ),
            Op::Rmall { p } => format!(
                "{{\"op\":\"remove_dir_all\",\"path\":{},\"path_len\":{}}}",
                vh::jb(p),
                p.len()
            ),
            Op::Readdir { p } => format!(
                "{{\"op\":\"Directory::open+read\",\"path\":{},\"path_len\":{}}}",
                vh::jb(p),
                p.len()
            ),
        }
    }
}

pub struct Expect {
    pub snap: Exp,
    pub value: Value,
    /// key of the node the operation is about
    pub target: B,
    /// content the target file must hold (write/copy) or that read must return
    pub bytes: Option<B>,
    /// coarse class of the prior state
    pub prior: String,
    /// create_dir_all: number of directories that were missing
    pub created: usize,
}

#[derive(Debug, Clone, PartialEq)]
pub enum RErr {
    NoEnt,
    NotDir,
    Loop,
    Outside,
    TooLong,
}

impl RErr {
    fn why(&self) -> &'static str {
        match self {
            RErr::NoEnt => "ancestor-missing",
            RErr::NotDir => "ancestor-not-a-directory",
            RErr::Loop => "symlink-loop",
            RErr::Outside => "model-outside-sandbox",
            RErr::TooLong => "too-long",
        }
    }
}

#[derive(Debug)]
pub struct Res {
    pub parent: Vec<B>,
    pub name: Option<B>,
    pub exists: bool,
    pub trailing: bool,
}

impl Res {
    pub fn key(&self) -> B {
        let mut k: B = Vec::new();
        for (i, c) in self.parent.iter().enumerate() {
            if i > 0 {
                k.push(b'/');
            }
            k.extend_from_slice(c);
        }
        match &self.name {
            Some(n) => join_key(&k, n),
            None => k,
        }
    }
}

fn comps(p: &[u8]) -> VecDeque<B> {
    p.split(|c| *c == b'/').filter(|c| !c.is_empty()).map(<[u8]>::to_vec).collect()
}

fn strip_root(rem: &mut VecDeque<B>, rabs: &[u8]) -> Result<(), RErr> {
    for rc in comps(rabs) {
        match rem.pop_front() {
            Some(c) if c == rc => {}
            _ => return Err(RErr::Outside),
        }
    }
    Ok(())
}

/// Resolve `path` (as a process with cwd = sandbox root would) over the snapshot.
pub fn resolve(snap: &Snap, rabs: &[u8], path: &[u8], follow_last: bool) -> Result<Res, RErr> {
    if path.is_empty() {
        return Err(RErr::NoEnt);
    }
    if path.len() >= 4096 {
        return Err(RErr::TooLong);
    }
    let trailing = path.last() == Some(&b'/');
    let mut rem = comps(path);
    if rem.iter().any(|c| c.len() > 255) {
        return Err(RErr::TooLong);
    }
    let mut cur: Vec<B> = Vec::new();
    if path[0] == b'/' {
        strip_root(&mut rem, rabs)?;
    }
    let mut follows = 0;
    loop {
        let Some(c) = rem.pop_front() else {
            return Ok(Res {
                parent: cur,
                name: None,
                exists: true,
                trailing,
            });
        };
        if c == b"." {
            continue;
        }
        if c == b".." {
            if cur.pop().is_none() {
                return Err(RErr::Outside);
            }
            continue;
        }
        let mut key: B = Vec::new();
        for (i, x) in cur.iter().enumerate() {
            if i > 0 {
                key.push(b'/');
            }
            key.extend_from_slice(x);
        }
        let key = join_key(&key, &c);
        match snap.get(&key) {
            None => {
                if !rem.is_empty() {
                    return Err(RErr::NoEnt);
                }
                return Ok(Res {
                    parent: cur,
                    name: Some(c),
                    exists: false,
                    trailing,
                });
            }
            Some((Node::Dir, _)) => {
                if rem.is_empty() {
                    return Ok(Res {
                        parent: cur,
                        name: Some(c),
                        exists: true,
                        trailing,
                    });
                }
                cur.push(c);
            }
            Some((Node::Link(t), _)) => {
                if rem.is_empty() && !follow_last && !trailing {
                    return Ok(Res {
                        parent: cur,
                        name: Some(c),
                        exists: true,
                        trailing,
                    });
                }
                follows += 1;
                if follows > 40 {
                    return Err(RErr::Loop);
                }
                let mut tc = comps(t);
                if t.first() == Some(&b'/') {
                    strip_root(&mut tc, rabs)?;
                    cur.clear();
                }
                for x in tc.into_iter().rev() {
                    rem.push_front(x);
                }
            }
            Some(_) => {
                if !rem.is_empty() || trailing {
                    return Err(RErr::NotDir);
                }
                return Ok(Res {
                    parent: cur,
                    name: Some(c),
                    exists: true,
                    trailing,
                });
            }
        }
    }
}

fn base_exp(pre: &Snap) -> Exp {
    pre.iter().map(|(k, (n, m))| (k.clone(), (n.clone(), Some(*m)))).collect()
}

/// cross-check the resolver against std::fs::canonicalize for an existing final target
fn self_check(rabs: &[u8], path: &[u8], key: &[u8]) -> Result<(), String> {
    if path.len() >= 4096 {
        return Ok(());
    }
    let mut want = rabs.to_vec();
    if !key.is_empty() || want.is_empty() {
        want.push(b'/');
    }
    want.extend_from_slice(key);
    let p = std::path::PathBuf::from(OsStr::from_bytes(path));
    match std::fs::canonicalize(&p) {
        Ok(c) if c.as_os_str().as_bytes() == want.as_slice() => Ok(()),
        Ok(c) => Err(format!(
            "model-resolver-mismatch: model {:?} std {:?}",
            String::from_utf8_lossy(&want),
            c
        )),
        Err(e) => {
            if want.len() >= 4096 {
                Ok(())
            } else {
                Err(format!("model-resolver-mismatch: std cannot resolve: {e}"))
            }
        }
    }
}

fn lexical_last_is_link(pre: &Snap, rabs: &[u8], path: &[u8]) -> bool {
    let mut p = path;
    while p.len() > 1 && p.last() == Some(&b'/') {
        p = &p[..p.len() - 1];
    }
    match resolve(pre, rabs, p, false) {
        Ok(r) if r.exists && r.name.is_some() => matches!(pre.get(&r.key()), Some((Node::Link(_), _))),
        _ => false,
    }
}

/// where a write-like operation on `path` lands: (key, Some(old content) | None)
fn file_target(pre: &Snap, rabs: &[u8], path: &[u8]) -> Result<(B, Option<B>), String> {
    let r = resolve(pre, rabs, path, true).map_err(|e| e.why().to_string())?;
    if r.name.is_none() {
        return Err("is-a-directory".into());
    }
    let key = r.key();
    if r.exists {
        self_check(rabs, path, &key)?;
        match pre.get(&key) {
            Some((Node::File(c), _)) => Ok((key, Some(c.clone()))),
            Some((Node::Dir, _)) => Err("is-a-directory".into()),
            _ => Err("special-file".into()),
        }
    } else {
        if r.trailing {
            return Err("trailing-slash-on-missing-file".into());
        }
        Ok((key, None))
    }
}

fn prior_class(pre: &Snap, rabs: &[u8], path: &[u8], old: &Option<B>, newlen: usize) -> String {
    let base = match old {
        None => "absent",
        Some(o) if o.len() < newlen => {
            if o.is_empty() {
                "empty"
            } else {
                "shorter"
            }
        }
        Some(o) if o.len() == newlen => "equal-length",
        Some(_) => "longer",
    };
    if lexical_last_is_link(pre, rabs, path) {
        format!("via-link/{base}")
    } else {
        base.to_string()
    }
}

pub fn children(pre: &Snap, key: &[u8]) -> Vec<Ent> {
    let mut v = Vec::new();
    let range: Box<dyn Iterator<Item = (&B, &(Node, u32))>> = if key.is_empty() {
        Box::new(pre.iter())
    } else {
        let mut lo = key.to_vec();
        lo.push(b'/');
        let mut hi = key.to_vec();
        hi.push(b'/' + 1);
        Box::new(pre.range(lo..hi))
    };
    let skip = if key.is_empty() { 0 } else { key.len() + 1 };
    for (k, (n, _)) in range {
        let rest = &k[skip..];
        if rest.contains(&b'/') {
            continue;
        }
        v.push(Ent {
            name: rest.to_vec(),
            ty: n.ty(),
            utf8_name: None,
            relref: false,
        });
    }
    v
}

fn under(key: &[u8], root: &[u8]) -> bool {
    key == root || (key.len() > root.len() && key.starts_with(root) && key[root.len()] == b'/')
}

pub fn model_apply(pre: &Snap, rabs: &[u8], op: &Op) -> Result<Expect, String> {
    match op {
        Op::Write { p, data } => {
            let (key, old) = file_target(pre, rabs, p)?;
            let mut snap = base_exp(pre);
            let mode = pre.get(&key).map(|(_, m)| *m);
            snap.insert(key.clone(), (Node::File(data.clone()), mode));
            Ok(Expect {
                snap,
                value: Value::Unit,
                prior: prior_class(pre, rabs, p, &old, data.len()),
                target: key,
                bytes: Some(data.clone()),
                created: 0,
            })
        }
        Op::WriteVia { p, data, append } => {
            let (key, old) = file_target(pre, rabs, p)?;
            let mut content = old.clone().unwrap_or_default();
            if *append {
                content.extend_from_slice(data);
            } else if data.len() >= content.len() {
                content = data.clone();
            } else {
                content[..data.len()].copy_from_slice(data);
            }
            let mut snap = base_exp(pre);
            let mode = pre.get(&key).map(|(_, m)| *m);
            snap.insert(key.clone(), (Node::File(content.clone()), mode));
            Ok(Expect {
                snap,
                value: Value::Unit,
                prior: prior_class(pre, rabs, p, &old, data.len()),
                target: key,
                bytes: Some(content),
                created: 0,
            })
        }
        Op::Read { p, as_string } => {
            let (key, old) = file_target(pre, rabs, p)?;
            let Some(c) = old else {
                return Err("missing".into());
            };
            if *as_string && std::str::from_utf8(&c).is_err() {
                return Err("content-not-utf8".into());
            }
            let cls = match c.len() {
                0 => "empty",
                1..=4096 => "le4096",
                _ => "gt4096",
            };
            Ok(Expect {
                snap: base_exp(pre),
                value: Value::Unit,
                prior: format!("{}{cls}", if lexical_last_is_link(pre, rabs, p) { "via-link/" } else { "" }),
                target: key,
                bytes: Some(c),
                created: 0,
            })
        }
        Op::Copy { src, dst, .. } => {
            let (skey, sold) = file_target(pre, rabs, src)?;
            let Some(sdata) = sold else {
                return Err("source-missing".into());
            };
            let (dkey, dold) = file_target(pre, rabs, dst)?;
            if dkey == skey {
                return Err("special-file-alias-of-source".into());
            }
            let mut snap = base_exp(pre);
            let mode = pre.get(&dkey).map(|(_, m)| *m);
            snap.insert(dkey.clone(), (Node::File(sdata.clone()), mode));
            Ok(Expect {
                snap,
                value: Value::Unit,
                prior: prior_class(pre, rabs, dst, &dold, sdata.len()),
                target: dkey,
                bytes: Some(sdata),
                created: 0,
            })
        }
        Op::Cda { p } => {
            if p.is_empty() {
                return Err("empty-path".into());
            }
            if p.len() >= 4096 {
                return Err("too-long".into());
            }
            let mut work: Snap = pre.clone();
            let mut created = 0;
            // every lexical prefix ending at a component boundary
            let mut ends: Vec<usize> = Vec::new();
            let mut i = 0;
            while i < p.len() {
                if p[i] != b'/' && (i + 1 == p.len() || p[i + 1] == b'/') {
                    ends.push(i + 1);
                }
                i += 1;
            }
            let mut last_key: B = Vec::new();
            // prefixes inside the sandbox root's own absolute path are not the model's business
            let skip = if p[0] == b'/' { comps(rabs).len() } else { 0 };
            if ends.len() <= skip {
                return Err("model-outside-sandbox".into());
            }
            for (n, &e) in ends.iter().enumerate().skip(skip) {
                let is_leaf = n + 1 == ends.len();
                let pfx = &p[..e];
                let r = resolve(&work, rabs, pfx, false).map_err(|x| x.why().to_string())?;
                let which = if is_leaf { "leaf" } else { "ancestor" };
                if r.exists {
                    let mut key = r.key();
                    if matches!(work.get(&key), Some((Node::Link(_), _))) && r.name.is_some() {
                        let rr = match resolve(&work, rabs, pfx, true) {
                            Err(RErr::NoEnt) => return Err(format!("{which}-dangling-symlink")),
                            other => other.map_err(|x| x.why().to_string())?,
                        };
                        if !rr.exists {
                            return Err(format!("{which}-dangling-symlink"));
                        }
                        key = rr.key();
                    }
                    if !key.is_empty() && !matches!(work.get(&key), Some((Node::Dir, _))) {
                        return Err(format!("{which}-not-a-directory"));
                    }
                    last_key = key;
                } else {
                    let key = r.key();
                    work.insert(key.clone(), (Node::Dir, 0));
                    created += 1;
                    last_key = key;
                }
            }
            let mut snap = base_exp(pre);
            for (k, (n, _)) in &work {
                if !pre.contains_key(k) {
                    snap.insert(k.clone(), (n.clone(), None));
                }
            }
            if created == 0 {
                self_check(rabs, p, &last_key)?;
            }
            Ok(Expect {
                snap,
                value: Value::Unit,
                prior: format!("missing{created}"),
                target: last_key,
                bytes: None,
                created,
            })
        }
        Op::Rmall { p } => {
            if p.len() >= 4096 {
                return Err("too-long".into());
            }
            let mut q: &[u8] = p;
            while q.len() > 1 && q.last() == Some(&b'/') {
                q = &q[..q.len() - 1];
            }
            let lastc = q.rsplit(|c| *c == b'/').next().unwrap_or(b"");
            if lastc == b"." || lastc == b".." {
                return Err("dot-final".into());
            }
            let r = resolve(pre, rabs, q, false).map_err(|e| e.why().to_string())?;
            if !r.exists {
                return Err("missing".into());
            }
            let key = r.key();
            if key.is_empty() {
                return Err("model-sandbox-root".into());
            }
            match pre.get(&key) {
                Some((Node::Dir, _)) => {}
                Some((Node::Link(_), _)) => return Err("path-is-a-symlink".into()),
                Some((Node::Fifo | Node::Sock | Node::Chr | Node::Blk | Node::Other, _)) => return Err("special-file".into()),
                _ => return Err("not-a-directory".into()),
            }
            // a symlink final component followed because of the trailing slash is covered above
            let mut snap = base_exp(pre);
            let mut n_links = 0;
            let mut n_out = 0;
            let mut n_nodes = 0;
            let mut maxdepth = 0;
            let keys: Vec<B> = pre.keys().filter(|k| under(k, &key)).cloned().collect();
            for k in &keys {
                if let Some((Node::Link(_), _)) = pre.get(k) {
                    n_links += 1;
                    if let Ok(rr) = resolve(pre, rabs, k, true) {
                        if !under(&rr.key(), &key) {
                            n_out += 1;
                        }
                    }
                }
                n_nodes += 1;
                maxdepth = maxdepth.max(k[key.len()..].iter().filter(|c| **c == b'/').count());
                snap.remove(k);
            }
            let size = match n_nodes - 1 {
                0 => "empty",
                1..=20 => "n1-20",
                21..=200 => "n21-200",
                201..=1999 => "n201-1999",
                _ => "n2000+",
            };
            let links = if n_out > 0 {
                "links-out"
            } else if n_links > 0 {
                "links-in"
            } else {
                "nolinks"
            };
            Ok(Expect {
                snap,
                value: Value::Unit,
                prior: format!(
                    "{size}/depth{}/{links}",
                    match maxdepth {
                        0 => "0",
                        1 | 2 => "1-2",
                        _ => "3-6",
                    }
                ),
                target: key,
                bytes: None,
                created: 0,
            })
        }
        Op::Readdir { p } => {
            let r = resolve(pre, rabs, p, true).map_err(|e| e.why().to_string())?;
            if !r.exists {
                return Err("missing".into());
            }
            let key = r.key();
            match pre.get(&key) {
                Some((Node::Dir, _)) => {}
                None if key.is_empty() => {}
                Some((Node::Fifo | Node::Sock | Node::Chr | Node::Blk | Node::Other, _)) => return Err("special-file".into()),
                _ => return Err("not-a-directory".into()),
            }
            self_check(rabs, p, &key)?;
            let ents = children(pre, &key);
            let maxlen = ents.iter().map(|e| e.name.len()).max().unwrap_or(0);
            let ncls = match ents.len() {
                0 => "n0",
                1..=20 => "n1-20",
                21..=100 => "n21-100",
                101..=1000 => "n101-1000",
                _ => "n1001+",
            };
            let lcls = match maxlen {
                0..=8 => "name-le8",
                9..=100 => "name-le100",
                101..=247 => "name-le247",
                _ => "name-le255",
            };
            Ok(Expect {
                snap: base_exp(pre),
                value: Value::Entries(ents),
                prior: format!("{ncls}/{lcls}"),
                target: key,
                bytes: None,
                created: 0,
            })
        }
    }
}
