//! The "interrupted" dimension: the tiny-std call under test runs while
//!  (a) `sig`:   a helper thread sends SIGUSR1 (counting handler installed WITHOUT SA_RESTART) to the calling thread at
//!               seeded moments, on slow objects (fifos fed / drained in bursts) and on large files, directories and trees;
//!  (b) `eintr`: under engines/sysmon the k-th read / write / getdents64 / copy_file_range / openat / unlinkat / mkdirat
//!               of the operation's own system-call sequence is not executed and returns -EINTR (the driver derives the
//!               positions from a dry run of the same scenarios and hands them over as a plan file).
//! The oracle is unchanged: Ok => full post-condition (snapshot / content equality); Err (EINTR surfaced) is counted.
use crate::model::{Op, Value};
use crate::snap::{join_key, B};
use crate::{abs_of, content_of, errno_name, exec, make_fifo, make_special, osp, run_op, Ctx, Env, Out};
use std::os::unix::fs::OpenOptionsExt;
use std::sync::atomic::{AtomicBool, AtomicU64, AtomicUsize, Ordering};
use std::sync::Arc;
use std::time::{Duration, Instant};
use vh::Rng;

extern "C" {
    fn sigaction(sig: i32, act: *const SigAction, old: *mut SigAction) -> i32;
    fn pthread_self() -> usize;
    fn pthread_kill(t: usize, sig: i32) -> i32;
}

/// glibc x86_64 `struct sigaction`
#[repr(C)]
struct SigAction {
    handler: usize,
    mask: [u64; 16],
    flags: i32,
    restorer: usize,
}

const SIGUSR1: i32 = 10;
const O_NONBLOCK: i32 = 0o4000;
static SIGS: AtomicU64 = AtomicU64::new(0);
static MAIN_T: AtomicUsize = AtomicUsize::new(0);

extern "C" fn on_usr1(_s: i32) {
    SIGS.fetch_add(1, Ordering::Relaxed);
}

pub fn signals_seen() -> u64 {
    SIGS.load(Ordering::Relaxed)
}

/// counting handler, sa_flags = 0: no SA_RESTART, interrupted calls fail with EINTR
fn install_handler() -> bool {
    let act = SigAction {
        handler: on_usr1 as usize,
        mask: [0; 16],
        flags: 0,
        restorer: 0,
    };
    MAIN_T.store(unsafe { pthread_self() }, Ordering::Relaxed);
    unsafe { sigaction(SIGUSR1, &act, std::ptr::null_mut()) == 0 }
}

#[derive(Clone, Debug)]
pub struct Storm {
    pub delay_us: u64,
    pub lo_us: u64,
    pub hi_us: u64,
    pub seed: u64,
    pub max: u64,
}

pub struct Killer {
    stop: Arc<AtomicBool>,
    h: std::thread::JoinHandle<u64>,
}

fn pause_us(us: u64) {
    if us == 0 {
        return;
    }
    if us < 60 {
        let t = Instant::now();
        while t.elapsed() < Duration::from_micros(us) {
            std::hint::spin_loop();
        }
    } else {
        std::thread::sleep(Duration::from_micros(us));
    }
}

pub fn start_storm(s: &Storm) -> Killer {
    let stop = Arc::new(AtomicBool::new(false));
    let st = stop.clone();
    let s = s.clone();
    let target = MAIN_T.load(Ordering::Relaxed);
    let h = std::thread::spawn(move || {
        let mut r = Rng::new(s.seed);
        let mut sent = 0;
        pause_us(s.delay_us);
        while !st.load(Ordering::Relaxed) && sent < s.max {
            unsafe {
                pthread_kill(target, SIGUSR1);
            }
            sent += 1;
            pause_us(r.range(s.lo_us, s.hi_us));
        }
        sent
    });
    Killer { stop, h }
}

pub fn stop_storm(k: Killer) {
    k.stop.store(true, Ordering::Relaxed);
    let _ = k.h.join();
}

/// Wait for a fifo peer thread; if it is stuck in open() or in a full pipe because the tiny-std side gave up
/// (Err) or returned early, open the other end non-blocking for a moment to release it.
fn release_peer<T>(h: std::thread::JoinHandle<T>, fifo: &[u8], peer_writes: bool) -> Option<T> {
    let t0 = Instant::now();
    while !h.is_finished() {
        if t0.elapsed() > Duration::from_millis(3) {
            let mut o = std::fs::OpenOptions::new();
            if peer_writes {
                o.read(true);
            } else {
                o.write(true);
            }
            let _kick = o.custom_flags(O_NONBLOCK).open(osp(fifo));
        }
        std::thread::sleep(Duration::from_micros(300));
        if t0.elapsed() > Duration::from_secs(20) {
            vh::inconclusive("fifo peer thread did not finish");
            return None;
        }
    }
    h.join().ok()
}

fn burst_class(bursts: &[(usize, u64)]) -> &'static str {
    match bursts.len() {
        0 | 1 => "one-burst",
        2..=3 => "few-bursts",
        _ => "many-bursts",
    }
}

/// fs::read / read_to_string from a fifo that a std thread feeds in bursts (len, pause_us after it).
fn fifo_read_case(cx: &mut Ctx, tag: &str, data: &[u8], bursts: &[(usize, u64)], as_string: bool, abs: bool, scen: &str) {
    let name = format!("ff-{tag}").into_bytes();
    let _ = std::fs::remove_file(osp(&name));
    if !make_fifo(&name) {
        vh::inconclusive("mkfifo failed in the sandbox");
        return;
    }
    let wdata = data.to_vec();
    let wb = bursts.to_vec();
    let wname = name.clone();
    let feeder = std::thread::spawn(move || {
        use std::io::Write as _;
        let Ok(mut f) = std::fs::OpenOptions::new().write(true).open(osp(&wname)) else {
            return;
        };
        let mut off = 0;
        for (len, pause) in wb {
            let n = len.min(wdata.len() - off);
            if n > 0 && f.write_all(&wdata[off..off + n]).is_err() {
                return;
            }
            off += n;
            pause_us(pause);
        }
        let _ = f.write_all(&wdata[off..]);
    });
    let op = Op::Read {
        p: if abs { abs_of(&cx.rabs, &name) } else { name.clone() },
        as_string,
    };
    println!("##B {}", op.json());
    let (out, nsig) = exec(&op, 0, &cx.env());
    println!("##E");
    cx.last_signals = nsig;
    cx.check_efault(&out, &op, scen);
    let _ = release_peer(feeder, &name, true);
    let _ = std::fs::remove_file(osp(&name));
    let opn = op.name();
    cx.last = "skipped".into();
    match out {
        Out::Panic(m) => {
            cx.evals += 1;
            cx.viol(&format!("C14/{opn}/panic/fifo"), &op, &format!("\"panic\":{},\"scenario\":{}", vh::js(&m), vh::js(scen)));
        }
        Out::Err { errno, .. } => {
            let en = errno_name(errno);
            cx.count(&format!("err/{opn}-fifo/{en}"), 1);
            cx.last = format!("err:{en}");
        }
        Out::Ok(Value::Bytes(got)) => {
            cx.evals += 1;
            cx.count("op_read_fifo", 1);
            if got != data {
                let sig = if got.len() < data.len() && data.starts_with(&got) {
                    "C14/read/read-truncated-result"
                } else {
                    "C14/read/read-wrong-content"
                };
                cx.viol(
                    sig,
                    &op,
                    &format!(
                        "\"source\":\"fifo\",\"want_len\":{},\"got_len\":{},\"signals_during\":{},\"scenario\":{}",
                        data.len(),
                        got.len(),
                        nsig,
                        vh::js(scen)
                    ),
                );
            } else {
                cx.count("held_read_fifo", 1);
                cx.last = "held".into();
            }
            vh::distinct(&format!(
                "intr-read-fifo/{}/{}/{}/{}",
                if as_string { "string" } else { "bytes" },
                burst_class(bursts),
                if data.len() > 65_536 { "gt-pipe-buffer" } else { "le-pipe-buffer" },
                if nsig > 0 || cx.inject.is_some() { "disturbed" } else { "plain" }
            ));
        }
        Out::Ok(_) => {}
    }
}

/// fs::write / append+write_all into a fifo that a std thread drains in bursts.
fn fifo_write_case(cx: &mut Ctx, tag: &str, data: &[u8], bursts: &[(usize, u64)], append: bool, abs: bool, scen: &str) {
    let name = format!("fw-{tag}").into_bytes();
    let _ = std::fs::remove_file(osp(&name));
    if !make_fifo(&name) {
        vh::inconclusive("mkfifo failed in the sandbox");
        return;
    }
    let rb = bursts.to_vec();
    let rname = name.clone();
    let reader = std::thread::spawn(move || -> B {
        use std::io::Read as _;
        let mut got = Vec::new();
        let Ok(mut f) = std::fs::File::open(osp(&rname)) else {
            return got;
        };
        let mut i = 0;
        loop {
            // the scripted bursts twice over, then drain without pauses
            let (len, pause) = if i < 2 * rb.len() { rb[i % rb.len()] } else { (65_536, 0) };
            i += 1;
            let mut buf = vec![0u8; len.max(1)];
            match f.read(&mut buf) {
                Ok(0) => break,
                Ok(n) => got.extend_from_slice(&buf[..n]),
                Err(ref e) if e.kind() == std::io::ErrorKind::Interrupted => {}
                Err(_) => break,
            }
            pause_us(pause);
        }
        got
    });
    let p = if abs { abs_of(&cx.rabs, &name) } else { name.clone() };
    let op = if append {
        Op::WriteVia {
            p,
            data: data.to_vec(),
            append: true,
        }
    } else {
        Op::Write { p, data: data.to_vec() }
    };
    println!("##B {}", op.json());
    let (out, nsig) = exec(&op, 0, &cx.env());
    println!("##E");
    cx.last_signals = nsig;
    cx.check_efault(&out, &op, scen);
    let got = release_peer(reader, &name, false);
    let _ = std::fs::remove_file(osp(&name));
    let Some(got) = got else {
        // the observer side failed: no verdict
        cx.last = "skipped".into();
        return;
    };
    let opn = op.name();
    cx.last = "skipped".into();
    match out {
        Out::Panic(m) => {
            cx.evals += 1;
            cx.viol(&format!("C14/{opn}/panic/fifo"), &op, &format!("\"panic\":{},\"scenario\":{}", vh::js(&m), vh::js(scen)));
        }
        Out::Err { errno, .. } => {
            let en = errno_name(errno);
            cx.count(&format!("err/{opn}-fifo/{en}"), 1);
            cx.last = format!("err:{en}");
        }
        Out::Ok(_) => {
            cx.evals += 1;
            cx.count("op_write_fifo", 1);
            if got != data {
                let sig = if got.len() < data.len() && data.starts_with(&got) {
                    format!("C14/{opn}/short-write-reported-ok")
                } else {
                    format!("C14/{opn}/content-mismatch")
                };
                cx.viol(
                    &sig,
                    &op,
                    &format!(
                        "\"sink\":\"fifo\",\"want_len\":{},\"got_len\":{},\"signals_during\":{},\"scenario\":{}",
                        data.len(),
                        got.len(),
                        nsig,
                        vh::js(scen)
                    ),
                );
            } else {
                cx.count("held_write_fifo", 1);
                cx.last = "held".into();
            }
            vh::distinct(&format!(
                "intr-write-fifo/{opn}/{}/{}",
                burst_class(bursts),
                if nsig > 0 || cx.inject.is_some() { "disturbed" } else { "plain" }
            ));
        }
    }
}

fn gen_bursts(r: &mut Rng, total: usize, slow: bool) -> Vec<(usize, u64)> {
    let n = r.range(1, 6) as usize;
    let mut v = Vec::new();
    for _ in 0..n {
        let len = match r.below(4) {
            0 => r.range(1, 100) as usize,
            1 => r.range(100, 5000) as usize,
            2 => r.range(5000, 70_000) as usize,
            _ => (total / n).max(1),
        };
        let pause = if slow { r.range(300, 2500) } else { r.range(0, 400) };
        v.push((len, pause));
    }
    v
}

fn storm(r: &mut Rng, dense: bool) -> Storm {
    Storm {
        delay_us: *r.pick(&[0, 0, 50, 200, 700]),
        lo_us: if dense { 5 } else { 40 },
        hi_us: if dense { 120 } else { 900 },
        seed: r.next(),
        max: 50_000,
    }
}

/// run_op under a signal storm; counts whether a signal actually arrived while the call ran
fn stormy(cx: &mut Ctx, op: &Op, dense: bool, scen: &str) {
    cx.storm = Some(storm(&mut cx.r, dense));
    run_op(cx, op, None, scen);
    cx.storm = None;
    let l = cx.last.clone();
    cx.count(
        &format!(
            "sig/{}/{}/{}",
            op.name(),
            if cx.last_signals > 0 { "signalled" } else { "no-signal-arrived" },
            l
        ),
        1,
    );
    cx.count("signals_delivered_during_calls", cx.last_signals);
    vh::distinct(&format!(
        "sig/{}/{}",
        op.name(),
        if cx.last_signals > 0 { "signalled" } else { "plain" }
    ));
}

pub fn mode_sig(cx: &mut Ctx, budget: u64) {
    if !install_handler() {
        vh::inconclusive("sigaction(SIGUSR1) failed");
        return;
    }
    cx.intr = true;
    let thorough = budget >= 100;
    let rabs = cx.rabs.clone();
    std::fs::create_dir("s").unwrap();
    std::fs::write("s/keep", b"sentinel").unwrap();
    std::fs::create_dir("s/keepdir").unwrap();
    std::fs::write("s/keepdir/inner", b"must survive").unwrap();

    // ---- slow objects: fifo reads
    let nread = if thorough { 200 } else { 28 };
    for i in 0..nread {
        let total = *cx.r.pick(&[1usize, 5000, 12_000, 70_001, 200_003]);
        let as_string = i % 2 == 1;
        let data: B = if as_string {
            "aé€😀\n".bytes().cycle().take(total).collect()
        } else {
            cx.r.bytes(total)
        };
        if as_string && std::str::from_utf8(&data).is_err() {
            continue;
        }
        let bursts = gen_bursts(&mut cx.r, total, true);
        cx.storm = Some(storm(&mut cx.r, i % 3 != 0));
        fifo_read_case(cx, &format!("r{i}"), &data, &bursts, as_string, i % 4 < 2, &format!("sig fifo-read #{i} total={total}"));
        cx.storm = None;
        let l = cx.last.clone();
        cx.count(&format!("sig/read-fifo/{}/{l}", if cx.last_signals > 0 { "signalled" } else { "no-signal-arrived" }), 1);
        cx.count("signals_delivered_during_calls", cx.last_signals);
    }
    // ---- slow objects: fifo writes (pipe fills up, the writer sleeps, signals interrupt it)
    let nwrite = if thorough { 100 } else { 14 };
    for i in 0..nwrite {
        let total = *cx.r.pick(&[70_001usize, 150_000, 400_003]);
        let data = cx.r.bytes(total);
        let bursts = gen_bursts(&mut cx.r, total, true);
        cx.storm = Some(storm(&mut cx.r, i % 3 != 0));
        fifo_write_case(cx, &format!("w{i}"), &data, &bursts, i % 3 == 2, i % 2 == 0, &format!("sig fifo-write #{i} total={total}"));
        cx.storm = None;
        let l = cx.last.clone();
        cx.count(&format!("sig/write-fifo/{}/{l}", if cx.last_signals > 0 { "signalled" } else { "no-signal-arrived" }), 1);
        cx.count("signals_delivered_during_calls", cx.last_signals);
    }
    // ---- large regular files, big copies
    let reps = if thorough { 6 } else { 2 };
    std::fs::create_dir("big").unwrap();
    for rep in 0..reps {
        let mb = if cx.fs == "tmpfs" { 16 } else { 6 } << 20;
        let f = |k: &[u8]| if rep % 2 == 0 { abs_of(&rabs, k) } else { k.to_vec() };
        std::fs::write("big/src", content_of(&mut cx.r, mb + 13, false)).unwrap();
        stormy(cx, &Op::Read { p: f(b"big/src"), as_string: false }, true, "sig big-read");
        std::fs::write("big/dst", content_of(&mut cx.r, mb + 5000, false)).unwrap();
        stormy(
            cx,
            &Op::Copy {
                src: f(b"big/src"),
                dst: f(b"big/dst"),
                via_handle: rep % 2 == 1,
            },
            true,
            "sig big-copy over longer",
        );
        let _ = std::fs::remove_file("big/dst");
        let _ = std::fs::remove_file("big/src");
        let data = content_of(&mut cx.r, mb / 2 + 7, false);
        stormy(cx, &Op::Write { p: f(b"big/out"), data }, true, "sig big-write");
        let data = content_of(&mut cx.r, 4097, false);
        stormy(cx, &Op::Write { p: f(b"big/out"), data }, true, "sig write over longer");
        let data = content_of(&mut cx.r, 1 << 20, false);
        stormy(
            cx,
            &Op::WriteVia {
                p: f(b"big/out"),
                data,
                append: true,
            },
            true,
            "sig append 1 MiB",
        );
        let _ = std::fs::remove_file("big/out");
        std::fs::write("big/text", content_of(&mut cx.r, 2 << 20, true)).unwrap();
        stormy(cx, &Op::Read { p: f(b"big/text"), as_string: true }, true, "sig big read_to_string");
        let _ = std::fs::remove_file("big/text");
    }
    // ---- directories with thousands of entries, deep trees, long create_dir_all
    std::fs::create_dir("t").unwrap();
    for rep in 0..reps {
        let dir = format!("t/wide{rep}").into_bytes();
        std::fs::create_dir(osp(&dir)).unwrap();
        let n = if thorough { 6000 } else { 2500 };
        for i in 0..n {
            let key = join_key(&dir, format!("entry-{i:05}-{}", "x".repeat((i % 40) as usize)).as_bytes());
            match i % 9 {
                0 => std::fs::create_dir(osp(&key)).unwrap(),
                1 => std::os::unix::fs::symlink("../../s/keepdir", osp(&key)).unwrap(),
                2 => {
                    let _ = make_special(&key, "fifo");
                }
                _ => std::fs::write(osp(&key), b"x").unwrap(),
            }
        }
        let p = if rep % 2 == 0 { abs_of(&rabs, &dir) } else { dir.clone() };
        stormy(cx, &Op::Readdir { p: p.clone() }, true, "sig readdir wide");
        stormy(cx, &Op::Rmall { p }, true, "sig remove_dir_all wide");
        let _ = std::fs::remove_dir_all(osp(&dir));
        // deep tree
        let root = format!("t/deep{rep}").into_bytes();
        std::fs::create_dir(osp(&root)).unwrap();
        let out: Vec<(B, bool)> = vec![(b"s/keepdir".to_vec(), true), (b"s/keep".to_vec(), false)];
        crate::grow(&mut cx.r, &rabs, &root, if thorough { 900 } else { 400 }, 6, &out);
        let p = if rep % 2 == 1 { abs_of(&rabs, &root) } else { root.clone() };
        stormy(cx, &Op::Rmall { p }, true, "sig remove_dir_all deep");
        let _ = std::fs::remove_dir_all(osp(&root));
        // create_dir_all, 12 missing components, three shapes
        for (j, tail) in ["", "/", "//"].iter().enumerate() {
            let mut key = format!("t/cda{rep}-{j}").into_bytes();
            for c in 0..12 {
                key = join_key(&key, format!("c{c}").as_bytes());
            }
            let mut p = if j % 2 == 0 { abs_of(&rabs, &key) } else { key.clone() };
            p.extend_from_slice(tail.as_bytes());
            stormy(cx, &Op::Cda { p }, true, "sig create_dir_all 12 missing");
        }
    }
}

/// Big copies under a dense signal storm with BEGIN/END markers, meant to run under sysmon: the driver
/// counts the copy_file_range calls that returned a partial count from the log.
pub fn mode_sigcopy(cx: &mut Ctx, budget: u64) {
    if !install_handler() {
        vh::inconclusive("sigaction(SIGUSR1) failed");
        return;
    }
    cx.intr = true;
    let rabs = cx.rabs.clone();
    std::fs::create_dir("s").unwrap();
    std::fs::write("s/keep", b"sentinel").unwrap();
    std::fs::create_dir("big").unwrap();
    let mb = if cx.fs == "tmpfs" { 16 } else { 6 } << 20;
    for rep in 0..budget.clamp(2, 40) as i64 {
        let f = |k: &[u8]| if rep % 2 == 0 { abs_of(&rabs, k) } else { k.to_vec() };
        std::fs::write("big/src", content_of(&mut cx.r, mb + 13 + rep as usize, false)).unwrap();
        if rep % 3 != 0 {
            std::fs::write("big/dst", content_of(&mut cx.r, mb + 5000, false)).unwrap();
        }
        cx.inject = Some((100, rep, -1, 0));
        stormy(
            cx,
            &Op::Copy {
                src: f(b"big/src"),
                dst: f(b"big/dst"),
                via_handle: rep % 2 == 1,
            },
            true,
            "sigcopy big-copy under storm",
        );
        cx.inject = None;
        let _ = std::fs::remove_file("big/dst");
    }
}

// ------------------------------------------------------------------------------------------------------------
// (b) deterministic EINTR under sysmon

pub const SCENARIOS: &[(i64, &str)] = &[
    (1, "read 300000-byte file"),
    (2, "read_to_string 20000 bytes, absolute path"),
    (3, "write 70000 bytes, destination absent"),
    (4, "write 5 bytes over 70000"),
    (5, "append 10000 to 5000 (write_all)"),
    (6, "overwrite 100 into 5000 (write_all)"),
    (7, "copy_file 70000 over longer destination"),
    (8, "File::copy 4097, destination absent"),
    (9, "Directory read, 60 entries with long names"),
    (10, "create_dir_all, 5 missing components"),
    (11, "create_dir_all, leaf missing, trailing slash"),
    (12, "remove_dir_all, 3-level tree with links into the sentinel"),
    (13, "read 4096 bytes through a symlink"),
    (14, "read 12000 bytes from a fifo fed 5000 + 7000"),
    (15, "write 150000 bytes into a fifo drained in bursts"),
    (16, "remove_dir_all, one directory with 40 entries"),
];

enum Prepared {
    Op(Op),
    FifoRead(B, Vec<(usize, u64)>, bool),
    FifoWrite(B, Vec<(usize, u64)>),
}

/// Build scenario `s` below the fresh directory `e` (deterministic: same sizes in the dry run and in every injected run).
fn prepare(cx: &Ctx, s: i64) -> Option<Prepared> {
    let mut r = Rng::new(0xE1A7 ^ (s as u64));
    let rabs = cx.rabs.clone();
    let w = |k: &str, n: usize, r: &mut Rng, text: bool| std::fs::write(k, content_of(r, n, text)).unwrap();
    Some(match s {
        1 => {
            w("e/f", 300_000, &mut r, false);
            Prepared::Op(Op::Read { p: b"e/f".to_vec(), as_string: false })
        }
        2 => {
            w("e/f", 20_000, &mut r, true);
            Prepared::Op(Op::Read { p: abs_of(&rabs, b"e/f"), as_string: true })
        }
        3 => Prepared::Op(Op::Write { p: b"e/new".to_vec(), data: content_of(&mut r, 70_000, false) }),
        4 => {
            w("e/f", 70_000, &mut r, false);
            Prepared::Op(Op::Write { p: abs_of(&rabs, b"e/f"), data: b"short".to_vec() })
        }
        5 => {
            w("e/f", 5000, &mut r, false);
            Prepared::Op(Op::WriteVia { p: b"e/f".to_vec(), data: content_of(&mut r, 10_000, false), append: true })
        }
        6 => {
            w("e/f", 5000, &mut r, false);
            Prepared::Op(Op::WriteVia { p: b"e/f".to_vec(), data: content_of(&mut r, 100, false), append: false })
        }
        7 => {
            w("e/src", 70_000, &mut r, false);
            w("e/dst", 90_000, &mut r, false);
            Prepared::Op(Op::Copy { src: b"e/src".to_vec(), dst: abs_of(&rabs, b"e/dst"), via_handle: false })
        }
        8 => {
            w("e/src", 4097, &mut r, false);
            Prepared::Op(Op::Copy { src: abs_of(&rabs, b"e/src"), dst: b"e/dst".to_vec(), via_handle: true })
        }
        9 | 16 => {
            std::fs::create_dir("e/d").unwrap();
            let n = if s == 9 { 60 } else { 40 };
            for i in 0..n {
                let name = format!("n{i:03}{}", "y".repeat(if s == 9 { (i * 37) % 240 } else { i % 20 }));
                let key = format!("e/d/{name}");
                match i % 7 {
                    0 => std::fs::create_dir(&key).unwrap(),
                    1 => std::os::unix::fs::symlink(std::ffi::OsStr::new("../../s/sd"), &key).unwrap(),
                    2 => {
                        let _ = make_fifo(key.as_bytes());
                    }
                    _ => std::fs::write(&key, b"x").unwrap(),
                }
            }
            if s == 9 {
                Prepared::Op(Op::Readdir { p: b"e/d".to_vec() })
            } else {
                Prepared::Op(Op::Rmall { p: abs_of(&rabs, b"e/d") })
            }
        }
        10 => Prepared::Op(Op::Cda { p: b"e/a/b/c/d/e".to_vec() }),
        11 => {
            std::fs::create_dir_all("e/a/b").unwrap();
            Prepared::Op(Op::Cda { p: abs_of(&rabs, b"e/a/b/leaf/") })
        }
        12 => {
            std::fs::create_dir_all("e/t/a/b").unwrap();
            std::fs::create_dir_all("e/t/c").unwrap();
            for (i, d) in ["e/t", "e/t/a", "e/t/a/b", "e/t/c"].iter().enumerate() {
                for j in 0..3 {
                    std::fs::write(format!("{d}/f{i}{j}"), b"data").unwrap();
                }
                std::os::unix::fs::symlink(std::ffi::OsString::from(String::from_utf8_lossy(&abs_of(&rabs, b"s/sd")).into_owned()), format!("{d}/to-sentinel")).unwrap();
            }
            let _ = make_fifo(b"e/t/a/fifo");
            Prepared::Op(Op::Rmall { p: b"e/t".to_vec() })
        }
        13 => {
            w("e/real", 4096, &mut r, false);
            std::os::unix::fs::symlink("real", "e/link").unwrap();
            Prepared::Op(Op::Read { p: b"e/link".to_vec(), as_string: false })
        }
        14 => Prepared::FifoRead(content_of(&mut r, 12_000, false), vec![(5000, 4000), (7000, 0)], false),
        15 => Prepared::FifoWrite(content_of(&mut r, 150_000, false), vec![(30_000, 1500), (65_536, 500)]),
        _ => return None,
    })
}

fn nr_name(nr: i64) -> &'static str {
    match nr {
        0 => "read",
        1 => "write",
        2 => "open",
        83 => "mkdir",
        84 => "rmdir",
        87 => "unlink",
        217 => "getdents64",
        257 => "openat",
        258 => "mkdirat",
        263 => "unlinkat",
        326 => "copy_file_range",
        -1 => "none",
        _ => "other",
    }
}

/// plan lines: `<scenario> <nr> <k> <position-class>`; without a plan: dry run (markers only) of every scenario
pub fn mode_eintr(cx: &mut Ctx, plan: Option<String>) {
    if !marker::traced() {
        vh::inconclusive("mode eintr must run under engines/sysmon");
        return;
    }
    std::fs::create_dir("s").unwrap();
    std::fs::write("s/keep", b"sentinel").unwrap();
    std::fs::create_dir("s/sd").unwrap();
    std::fs::write("s/sd/inner", b"must survive").unwrap();
    let cases: Vec<(i64, i64, i64, String)> = match &plan {
        None => SCENARIOS.iter().map(|(s, _)| (*s, -1, 0, "dry".to_string())).collect(),
        Some(f) => std::fs::read_to_string(f)
            .unwrap_or_default()
            .lines()
            .filter_map(|l| {
                let w: Vec<&str> = l.split_whitespace().collect();
                Some((w.first()?.parse().ok()?, w.get(1)?.parse().ok()?, w.get(2)?.parse().ok()?, w.get(3).unwrap_or(&"pos").to_string()))
            })
            .collect(),
    };
    for (ci, (s, nr, k, pos)) in cases.iter().enumerate() {
        let _ = std::fs::remove_dir_all("e");
        std::fs::create_dir("e").unwrap();
        let Some(prep) = prepare(cx, *s) else {
            continue;
        };
        let text = SCENARIOS.iter().find(|(i, _)| i == s).map_or("?", |(_, t)| t);
        let scen = format!("eintr scenario {s} ({text}); EINTR at {}#{k} [{pos}]", nr_name(*nr));
        cx.intr = *nr >= 0;
        cx.inject = Some((*s, ci as i64, *nr, *k));
        let opname = match prep {
            Prepared::Op(op) => {
                run_op(cx, &op, None, &scen);
                op.name()
            }
            Prepared::FifoRead(data, bursts, as_string) => {
                fifo_read_case(cx, &format!("e{ci}"), &data, &bursts, as_string, false, &scen);
                "read-fifo"
            }
            Prepared::FifoWrite(data, bursts) => {
                fifo_write_case(cx, &format!("e{ci}"), &data, &bursts, false, false, &scen);
                "write-fifo"
            }
        };
        cx.inject = None;
        let l = cx.last.clone();
        if *nr >= 0 {
            cx.count(&format!("eintr/{opname}/{}/{l}", nr_name(*nr)), 1);
            vh::distinct(&format!("eintr/{opname}/{}/{pos}/{}", nr_name(*nr), l.split(':').next().unwrap_or("")));
        } else {
            cx.count(&format!("eintr_dry/{opname}/{l}"), 1);
        }
    }
    let _ = std::fs::remove_dir_all("e");
}

use crate::marker;
