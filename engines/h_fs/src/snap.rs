//! The observer: a full snapshot of the sandbox (cwd) taken with std::fs only.
use std::collections::BTreeMap;
use std::ffi::{OsStr, OsString};
use std::os::unix::ffi::{OsStrExt, OsStringExt};
use std::os::unix::fs::{FileTypeExt, PermissionsExt};
use std::path::PathBuf;

pub type B = Vec<u8>;

#[derive(Clone, PartialEq, Eq, Debug)]
pub enum Node {
    Dir,
    File(B),
    Link(B),
    Fifo,
    Sock,
    Chr,
    Blk,
    Other,
}

impl Node {
    pub fn ty(&self) -> &'static str {
        match self {
            Node::Dir => "dir",
            Node::File(_) => "file",
            Node::Link(_) => "link",
            Node::Fifo => "fifo",
            Node::Sock => "sock",
            Node::Chr => "chr",
            Node::Blk => "blk",
            Node::Other => "unknown",
        }
    }
}

/// key: path relative to the sandbox root, components joined by '/', no symlink followed
pub type Snap = BTreeMap<B, (Node, u32)>;

pub fn join_key(parent: &[u8], name: &[u8]) -> B {
    let mut k = parent.to_vec();
    if !k.is_empty() {
        k.push(b'/');
    }
    k.extend_from_slice(name);
    k
}

pub fn snapshot() -> std::io::Result<Snap> {
    let mut s = Snap::new();
    walk(b"", &mut s)?;
    Ok(s)
}

fn walk(prefix: &[u8], s: &mut Snap) -> std::io::Result<()> {
    let dirp = if prefix.is_empty() {
        PathBuf::from(".")
    } else {
        PathBuf::from(OsStr::from_bytes(prefix))
    };
    let mut subdirs = Vec::new();
    for e in std::fs::read_dir(&dirp)? {
        let e = e?;
        let name = e.file_name().into_vec();
        let key = join_key(prefix, &name);
        let p = PathBuf::from(OsString::from_vec(key.clone()));
        let md = std::fs::symlink_metadata(&p)?;
        let ft = md.file_type();
        let node = if ft.is_dir() {
            Node::Dir
        } else if ft.is_file() {
            Node::File(std::fs::read(&p)?)
        } else if ft.is_symlink() {
            Node::Link(std::fs::read_link(&p)?.into_os_string().into_vec())
        } else if ft.is_fifo() {
            Node::Fifo
        } else if ft.is_socket() {
            Node::Sock
        } else if ft.is_char_device() {
            Node::Chr
        } else if ft.is_block_device() {
            Node::Blk
        } else {
            Node::Other
        };
        if node == Node::Dir {
            subdirs.push(key.clone());
        }
        s.insert(key, (node, md.permissions().mode() & 0o7777));
    }
    for d in subdirs {
        walk(&d, s)?;
    }
    Ok(())
}
