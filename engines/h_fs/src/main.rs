//! C14: tiny-std file-system operations judged by a model tree + std::fs as independent observer.
//!
//! usage: h_fs <mode> <seed> <budget> <basedir> <fslabel> [chroot]
//! modes: seq | cda | len | copy | rw | readdir | rmall | short | sig | eintr [plan=FILE] (eintr runs under sysmon)
//!
//! Every evaluated operation is bracketed by two full std::fs snapshots (paths, kinds, contents,
//! link targets, permission bits) of the sandbox root R = <basedir>/<unique>, which holds the
//! operated tree `t`, the sentinel tree `s` and scenario directories. The model (`model_*`)
//! resolves the path over the pre-snapshot (symlinks, `.`/`..`, repeated separators) and predicts
//! the post-snapshot; `Ok` from tiny-std must imply post == prediction. `Err` is never judged.
mod disturb;
#[path = "/verif/engines/sysmon/marker.rs"]
mod marker;
mod model;
mod snap;

use model::{model_apply, Expect, Op, Value};
use rusl::string::unix_str::UnixString;
use snap::{join_key, snapshot, Node, Snap, B};
use std::collections::BTreeMap;
use std::ffi::{OsStr, OsString};
use std::os::unix::ffi::{OsStrExt, OsStringExt};
use std::os::unix::fs::PermissionsExt;
use std::path::PathBuf;
use tiny_std::fs as tfs;
use vh::Rng;

/// Every fresh heap block of the harness process (and therefore of the tiny-std code running in it) is
/// filled with a non-zero pattern: a byte that code reads without having written it (a missing NUL
/// behind a copied path, a length that is one too long) is then never "accidentally zero" — the
/// operation acts on a visibly different path and the model/observer comparison reports it.
struct Poison;
unsafe impl std::alloc::GlobalAlloc for Poison {
    unsafe fn alloc(&self, l: std::alloc::Layout) -> *mut u8 {
        let p = std::alloc::System.alloc(l);
        if !p.is_null() {
            std::ptr::write_bytes(p, 0xA5, l.size());
        }
        p
    }
    unsafe fn dealloc(&self, p: *mut u8, l: std::alloc::Layout) {
        std::ptr::write_bytes(p, 0x5A, l.size());
        std::alloc::System.dealloc(p, l)
    }
    unsafe fn alloc_zeroed(&self, l: std::alloc::Layout) -> *mut u8 {
        std::alloc::System.alloc_zeroed(l)
    }
    // realloc: the default goes through alloc + copy + dealloc above, so grown tails are poisoned too
}
#[global_allocator]
static POISON: Poison = Poison;

extern "C" {
    fn chroot(path: *const std::ffi::c_char) -> i32;
    fn umask(mask: u32) -> u32;
    fn mkfifo(path: *const std::ffi::c_char, mode: u32) -> i32;
    fn mknod(path: *const std::ffi::c_char, mode: u32, dev: u64) -> i32;
    fn getrlimit(resource: i32, rlim: *mut [u64; 2]) -> i32;
    fn setrlimit(resource: i32, rlim: *const [u64; 2]) -> i32;
    fn signal(sig: i32, handler: usize) -> usize;
    fn getpid() -> i32;
}

fn osp(b: &[u8]) -> PathBuf {
    if b.is_empty() {
        PathBuf::from(".")
    } else {
        PathBuf::from(OsStr::from_bytes(b))
    }
}

#[derive(Debug)]
enum Out {
    Ok(Value),
    Err { msg: String, errno: Option<i32> },
    Panic(String),
}

fn terr(e: tiny_std::Error) -> Out {
    let errno = match e {
        tiny_std::Error::Os { code, .. } => Some(code.raw()),
        _ => None,
    };
    Out::Err {
        msg: format!("{e}"),
        errno,
    }
}

fn ustr(p: &[u8]) -> UnixString {
    UnixString::try_from_bytes(p).expect("generated paths contain no NUL")
}

fn tft(ft: tfs::FileType) -> &'static str {
    match ft {
        tfs::FileType::Fifo => "fifo",
        tfs::FileType::CharDevice => "chr",
        tfs::FileType::Directory => "dir",
        tfs::FileType::BlockDevice => "blk",
        tfs::FileType::RegularFile => "file",
        tfs::FileType::Symlink => "link",
        tfs::FileType::Socket => "sock",
        tfs::FileType::Unknown => "unknown",
    }
}

/// Run one operation of tiny-std. Nothing but tiny-std code runs inside the catch.
const RLIMIT_FSIZE: i32 = 1;

/// Run `f` with the soft RLIMIT_FSIZE lowered to `limit` bytes (SIGXFSZ is ignored by the `short`
/// mode), so that write(2)/copy_file_range(2) on regular files really come back short.
fn with_fsize<T>(limit: Option<u64>, f: impl FnOnce() -> T) -> T {
    let Some(l) = limit else {
        return f();
    };
    let mut old = [0u64; 2];
    unsafe {
        getrlimit(RLIMIT_FSIZE, &mut old);
        let new = [l.min(old[1]), old[1]];
        setrlimit(RLIMIT_FSIZE, &new);
    }
    let r = f();
    unsafe {
        setrlimit(RLIMIT_FSIZE, &old);
    }
    r
}

/// Conditions under which the tiny-std call runs (everything else in the process runs undisturbed).
#[derive(Clone, Default)]
pub(crate) struct Env {
    /// soft RLIMIT_FSIZE (mode `short`)
    pub fsize: Option<u64>,
    /// a helper thread sends SIGUSR1 (handler without SA_RESTART) to this thread while the call runs
    pub storm: Option<disturb::Storm>,
    /// under sysmon: (scenario, case, nr, k): BEGIN/END markers around the call and, if nr >= 0, the
    /// k-th system call `nr` issued by the call is not executed and returns -EINTR
    pub inject: Option<(i64, i64, i64, i64)>,
}

/// Returns the outcome and the number of signals the handler saw while the call ran.
fn exec(op: &Op, iter_cap: usize, env: &Env) -> (Out, u64) {
    let before = disturb::signals_seen();
    let killer = env.storm.as_ref().map(disturb::start_storm);
    if let Some((s, c, nr, k)) = env.inject {
        marker::begin(s, c, nr);
        if nr >= 0 {
            marker::inject(marker::SCOPE_THREAD, nr, k, -4, 1);
        }
    }
    let out = with_fsize(env.fsize, || exec_inner(op, iter_cap));
    if let Some((s, c, _, _)) = env.inject {
        marker::disarm();
        marker::end(s, c, 0, 0, 0);
    }
    if let Some(k) = killer {
        disturb::stop_storm(k);
    }
    (out, disturb::signals_seen() - before)
}

/// (bytes to read from the source handle before `File::copy`) << 1 | (copy a second time); 0 = plain copy
static COPY_HISTORY: std::sync::atomic::AtomicUsize = std::sync::atomic::AtomicUsize::new(0);

fn exec_inner(op: &Op, iter_cap: usize) -> Out {
    let r = vh::catch(|| -> Result<Value, tiny_std::Error> {
        match op {
            Op::Write { p, data } => {
                tfs::write(&ustr(p), data)?;
                Ok(Value::Unit)
            }
            Op::WriteVia { p, data, append } => {
                use tiny_std::io::Write as _;
                let mut o = tfs::OpenOptions::new();
                if *append {
                    o.append(true).create(true);
                } else {
                    o.write(true).create(true);
                }
                let mut f = o.open(&ustr(p))?;
                f.write_all(data)?;
                Ok(Value::Unit)
            }
            Op::Read { p, as_string } => {
                if *as_string {
                    Ok(Value::Bytes(tfs::read_to_string(&ustr(p))?.into_bytes()))
                } else {
                    Ok(Value::Bytes(tfs::read(&ustr(p))?))
                }
            }
            Op::Copy { src, dst, via_handle } => {
                if *via_handle {
                    let mut f = tfs::File::open(&ustr(src))?;
                    // history on the same handle (copy matrix): bytes read first, copy made twice. The
                    // source handle's file position is no part of "the source's content".
                    let hist = COPY_HISTORY.load(std::sync::atomic::Ordering::Relaxed);
                    let (pre_read, twice) = (hist >> 1, hist & 1 == 1);
                    if pre_read > 0 {
                        use tiny_std::io::Read as _;
                        let mut sink = vec![0u8; pre_read];
                        let mut got = 0;
                        while got < pre_read {
                            let n = f.read(&mut sink[got..])?;
                            if n == 0 {
                                break;
                            }
                            got += n;
                        }
                    }
                    let _d = f.copy(&ustr(dst))?;
                    if twice {
                        drop(_d);
                        let _d2 = f.copy(&ustr(dst))?;
                    }
                } else {
                    let _d = tfs::copy_file(&ustr(src), &ustr(dst))?;
                }
                Ok(Value::Unit)
            }
            Op::Cda { p } => {
                tfs::create_dir_all(&ustr(p))?;
                Ok(Value::Unit)
            }
            Op::Rmall { p } => {
                tfs::remove_dir_all(&ustr(p))?;
                Ok(Value::Unit)
            }
            Op::Readdir { p } => {
                let d = tfs::Directory::open(&ustr(p))?;
                let mut v = Vec::new();
                for e in d.read() {
                    let e = e?;
                    let un = e.file_unix_name()?;
                    let bytes = un.as_slice();
                    let name = bytes[..bytes.len().saturating_sub(1)].to_vec();
                    let utf8 = e.file_name().ok().map(|s| s.as_bytes().to_vec());
                    v.push(model::Ent {
                        name,
                        ty: tft(e.file_type()),
                        utf8_name: utf8,
                        relref: e.is_relative_reference(),
                    });
                    if v.len() > iter_cap {
                        break;
                    }
                }
                Ok(Value::Entries(v))
            }
        }
    });
    match r {
        Err(p) => Out::Panic(p),
        Ok(Err(e)) => terr(e),
        Ok(Ok(v)) => Out::Ok(v),
    }
}

struct Ctx {
    r: Rng,
    rabs: B,
    fs: String,
    chrooted: bool,
    evals: u64,
    counters: BTreeMap<String, u64>,
    viol_seen: BTreeMap<String, u32>,
    samples_ok: u32,
    /// soft RLIMIT_FSIZE in force while the tiny-std call runs (mode `short`)
    fsize: Option<u64>,
    /// signal storm / EINTR injection around the tiny-std call (modes `sig`, `eintr`)
    storm: Option<disturb::Storm>,
    inject: Option<(i64, i64, i64, i64)>,
    /// signatures get an `interrupted-` prefix: the call ran under a signal storm or EINTR injection
    intr: bool,
    /// signals seen by the handler during the most recent tiny-std call
    last_signals: u64,
    /// outcome of the most recent run_op: held | viol:<what> | err:<errno> | panic | skipped
    last: String,
    entries_iterated: u64,
    largest_dir: u64,
}

impl Ctx {
    fn count(&mut self, k: &str, n: u64) {
        *self.counters.entry(k.to_string()).or_insert(0) += n;
    }
    fn env(&self) -> Env {
        Env {
            fsize: self.fsize,
            storm: self.storm.clone(),
            inject: self.inject,
        }
    }
    /// EFAULT from a call whose arguments are all live objects of this harness can only mean that the
    /// library handed the kernel a bad pointer: a violation, whatever the operation was doing.
    fn check_efault(&mut self, out: &Out, op: &Op, scen: &str) {
        if let Out::Err { errno: Some(14), msg } = out {
            let was = self.intr;
            self.intr = false;
            self.evals += 1;
            self.viol(
                &format!("C14/{}/efault-from-valid-arguments", op.name()),
                op,
                &format!(
                    "\"err\":{},\"rlimit_fsize\":{},\"signals_during\":{},\"scenario\":{}",
                    vh::js(msg),
                    self.fsize.map_or("null".to_string(), |l| l.to_string()),
                    self.last_signals,
                    vh::js(scen)
                ),
            );
            self.intr = was;
        }
    }
    fn viol(&mut self, sig: &str, op: &Op, extra: &str) {
        let renamed;
        let sig = if self.intr {
            let (head, what) = sig.rsplit_once('/').unwrap_or(("C14", sig));
            renamed = format!("{head}/interrupted-{what}");
            renamed.as_str()
        } else {
            sig
        };
        self.last = format!("viol:{}", sig.rsplit('/').next().unwrap_or(sig));
        self.count(&format!("violations/{sig}"), 1);
        let n = self.viol_seen.entry(sig.to_string()).or_insert(0);
        *n += 1;
        if *n > 2 {
            return;
        }
        vh::viol(
            sig,
            &format!(
                "{{\"fs\":{},\"chroot\":{},\"op\":{},{}}}",
                vh::js(&self.fs),
                self.chrooted,
                op.json(),
                extra
            ),
        );
    }
}

fn len_class(n: usize) -> &'static str {
    match n {
        0..=511 => "lt512",
        512 => "eq512",
        513..=4095 => "gt512",
        _ => "ge4096",
    }
}

/// Coarse shape classes of a path string: (full class for create_dir_all, short class for the rest).
/// `root_comps` = number of components of the sandbox root (not counted for absolute paths).
fn shape_class(p: &[u8], root_comps: usize) -> (String, String) {
    let abs = p.first() == Some(&b'/');
    let comps: Vec<&[u8]> = p.split(|c| *c == b'/').filter(|c| !c.is_empty()).collect();
    let mut n = comps.iter().filter(|c| **c != b".").count();
    if abs {
        n = n.saturating_sub(root_comps);
    }
    let ncls = match n {
        0 => "n0",
        1 => "n1",
        2 => "n2",
        3..=5 => "n3-5",
        _ => "n6+",
    };
    let trailing = p.iter().rev().take_while(|c| **c == b'/').count();
    let body = &p[..p.len() - trailing];
    let rep = body.windows(2).skip(usize::from(abs)).any(|w| w == b"//");
    let dot = comps.iter().any(|c| *c == b".");
    let sep = if dot {
        "dotsep"
    } else if rep {
        "repsep"
    } else {
        "sep"
    };
    let ar = if abs { "abs" } else { "rel" };
    let tr = if trailing == 0 { "t0" } else { "t+" };
    (
        format!("{ar}/{ncls}/{sep}/{tr}/{}", len_class(p.len())),
        format!("{ar}/{sep}/{tr}/{}", len_class(p.len())),
    )
}

fn errno_name(e: Option<i32>) -> String {
    match e {
        None => "nocode".into(),
        Some(1) => "EPERM".into(),
        Some(2) => "ENOENT".into(),
        Some(4) => "EINTR".into(),
        Some(13) => "EACCES".into(),
        Some(17) => "EEXIST".into(),
        Some(18) => "EXDEV".into(),
        Some(20) => "ENOTDIR".into(),
        Some(21) => "EISDIR".into(),
        Some(14) => "EFAULT".into(),
        Some(22) => "EINVAL".into(),
        Some(27) => "EFBIG".into(),
        Some(36) => "ENAMETOOLONG".into(),
        Some(39) => "ENOTEMPTY".into(),
        Some(40) => "ELOOP".into(),
        Some(n) => format!("E{n}"),
    }
}

#[derive(Debug)]
struct Diff {
    key: B,
    what: &'static str, // missing | extra | changed | mode
}

fn compare(exp: &model::Exp, post: &Snap) -> Vec<Diff> {
    let mut d = Vec::new();
    for (k, (n, m)) in exp {
        match post.get(k) {
            None => d.push(Diff {
                key: k.clone(),
                what: "missing",
            }),
            Some((pn, pm)) => {
                if pn != n {
                    d.push(Diff {
                        key: k.clone(),
                        what: "changed",
                    });
                } else if let Some(m) = m {
                    if m != pm {
                        d.push(Diff {
                            key: k.clone(),
                            what: "mode",
                        });
                    }
                }
            }
        }
    }
    for k in post.keys() {
        if !exp.contains_key(k) {
            d.push(Diff {
                key: k.clone(),
                what: "extra",
            });
        }
    }
    d
}

fn diffs_json(d: &[Diff]) -> String {
    let mut s = String::from("[");
    for (i, x) in d.iter().take(6).enumerate() {
        if i > 0 {
            s.push(',');
        }
        s.push_str(&format!("{{\"key\":{},\"what\":{}}}", vh::jb(&x.key), vh::js(x.what)));
    }
    s.push(']');
    s
}

fn under(key: &[u8], root: &[u8]) -> bool {
    key == root || (key.len() > root.len() && key.starts_with(root) && key[root.len()] == b'/')
}

/// Evaluate one operation: pre-snapshot, model, tiny-std, post-snapshot, judgement.
/// Returns the post-snapshot (None if the observer itself failed).
fn run_op(cx: &mut Ctx, op: &Op, pre: Option<Snap>, scen: &str) -> Option<Snap> {
    let pre = match pre {
        Some(p) => p,
        None => match snapshot() {
            Ok(s) => s,
            Err(e) => {
                vh::inconclusive(&format!("observer: pre-snapshot failed: {e}"));
                return None;
            }
        },
    };
    let model = model_apply(&pre, &cx.rabs, op);
    cx.last = "skipped".to_string();
    // never run an operation that would block on a fifo / socket
    if let Err(why) = &model {
        if why.starts_with("special-file") {
            cx.count("skipped_would_block_on_special_file", 1);
            return Some(pre);
        }
        if why.starts_with("model-") {
            vh::inconclusive(&format!("model self-check: {why} for {}", op.json()));
            return Some(pre);
        }
    }
    let opn = op.name();
    let expected_entries = match &model {
        Ok(Expect {
            value: Value::Entries(v),
            ..
        }) => v.len(),
        _ => 0,
    };
    // markers let the driver attribute a death by signal to the tiny-std call that was running
    println!("##B {}", op.json());
    let (out, nsig) = exec(op, expected_entries * 3 + 1000, &cx.env());
    cx.last_signals = nsig;
    println!("##E");
    let post = match snapshot() {
        Ok(s) => s,
        Err(e) => {
            vh::inconclusive(&format!("observer: post-snapshot failed: {e} after {}", op.json()));
            return None;
        }
    };
    let (fshape, pshape) = shape_class(op.main_path(), cx.rabs.split(|c| *c == b'/').filter(|c| !c.is_empty()).count());
    match (&out, &model) {
        (Out::Panic(msg), _) => {
            cx.evals += 1;
            cx.count(&format!("op_{opn}"), 1);
            let sig = format!("C14/{opn}/panic/path-{}", if op.main_path().len() > 512 { "gt512" } else { "le512" });
            cx.viol(&sig, op, &format!("\"panic\":{},\"scenario\":{}", vh::js(msg), vh::js(scen)));
            vh::distinct(&format!("{opn}/{pshape}/panic"));
        }
        (Out::Err { msg, errno }, m) => {
            // not judged by the success post-condition; recorded as measurement
            cx.count(&format!("op_{opn}_err"), 1);
            let en = errno_name(*errno);
            cx.count(&format!("err/{opn}/{en}"), 1);
            cx.last = format!("err:{en}");
            cx.check_efault(&out, op, scen);
            if m.is_ok() {
                cx.count(&format!("err_where_model_expected_success/{opn}/{en}"), 1);
                if std::env::var_os("C14_TRACE").is_some() {
                    eprintln!("TRACE unexpected-err {scen} {msg} {:?}", String::from_utf8_lossy(op.main_path()));
                }
                if cx.samples_ok < 40 {
                    vh::sample(
                        &format!(
                            "{{\"kind\":\"err-not-judged\",\"fs\":{},\"op\":{},\"err\":{}}}",
                            vh::js(&cx.fs),
                            op.json(),
                            vh::js(msg)
                        ),
                        10,
                    );
                }
            }
            if post != pre {
                cx.count(&format!("err_with_side_effects/{opn}"), 1);
                let pre_exp: model::Exp = pre.iter().map(|(k, (n, m))| (k.clone(), (n.clone(), Some(*m)))).collect();
                let d = compare(&pre_exp, &post);
                if d.iter().any(|x| under(&x.key, b"s")) {
                    cx.count(&format!("err_with_side_effects_in_sentinel/{opn}"), 1);
                }
            }
        }
        (Out::Ok(val), Ok(exp)) => {
            cx.evals += 1;
            cx.count(&format!("op_{opn}"), 1);
            let d = compare(&exp.snap, &post);
            let target = &exp.target;
            let mut held = true;
            match op {
                Op::Write { .. } | Op::WriteVia { .. } | Op::Copy { .. } => {
                    let want: &[u8] = exp.bytes.as_deref().unwrap_or(&[]);
                    let pfx = if matches!(op, Op::Copy { .. }) { "dest-" } else { "" };
                    for x in &d {
                        held = false;
                        if &x.key == target {
                            let sig = match post.get(target) {
                                Some((Node::File(c), _)) if c.len() > want.len() && c.starts_with(want) => {
                                    format!("C14/{opn}/{pfx}not-truncated")
                                }
                                Some((Node::File(c), _)) if c.len() < want.len() && want.starts_with(c) => {
                                    format!("C14/{opn}/{pfx}short-write-reported-ok")
                                }
                                Some((Node::File(_), _)) => format!("C14/{opn}/{pfx}content-mismatch"),
                                _ => format!("C14/{opn}/{pfx}missing-or-wrong-kind"),
                            };
                            let got_len = match post.get(target) {
                                Some((Node::File(c), _)) => c.len() as i64,
                                _ => -1,
                            };
                            cx.viol(
                                &sig,
                                op,
                                &format!(
                                    "\"rlimit_fsize\":{},\"target\":{},\"prior\":{},\"want_len\":{},\"got_len\":{},\"scenario\":{}",
                                    cx.fsize.map_or("null".to_string(), |l| l.to_string()),
                                    vh::jb(target),
                                    vh::js(&exp.prior),
                                    want.len(),
                                    got_len,
                                    vh::js(scen)
                                ),
                            );
                        } else {
                            cx.viol(
                                &format!("C14/{opn}/unrelated-change"),
                                op,
                                &format!("\"diff\":{},\"scenario\":{}", diffs_json(&d), vh::js(scen)),
                            );
                        }
                    }
                    // direct observation through the same path string
                    if op.main_path().len() < 4096 {
                        let dp = match op {
                            Op::Copy { dst, .. } => dst,
                            _ => op.main_path(),
                        };
                        match std::fs::read(osp(dp)) {
                            Ok(c) if c == want => {}
                            other => {
                                if held {
                                    vh::inconclusive(&format!(
                                        "model/observer disagreement after {}: std::fs::read gave {:?}",
                                        op.json(),
                                        other.map(|c| c.len())
                                    ));
                                }
                            }
                        }
                    }
                }
                Op::Read { .. } => {
                    if let (Value::Bytes(got), Some(want)) = (val, &exp.bytes) {
                        if got != want {
                            held = false;
                            let what = if cx.intr && got.len() < want.len() && want.starts_with(got) {
                                "C14/read/read-truncated-result"
                            } else if cx.intr {
                                "C14/read/read-wrong-content"
                            } else {
                                "C14/read/wrong-content"
                            };
                            cx.viol(
                                what,
                                op,
                                &format!("\"want_len\":{},\"got_len\":{}", want.len(), got.len()),
                            );
                        }
                    }
                    if !d.is_empty() {
                        held = false;
                        cx.viol("C14/read/changed-fs", op, &format!("\"diff\":{}", diffs_json(&d)));
                    }
                }
                Op::Cda { p } => {
                    if !d.is_empty() {
                        held = false;
                        let leaf_missing = d.iter().any(|x| &x.key == target && x.what == "missing");
                        let only_missing = d.iter().all(|x| x.what == "missing");
                        let sig = if leaf_missing && only_missing {
                            let ncomp = p
                                .split(|c| *c == b'/')
                                .filter(|c| !c.is_empty() && *c != b".")
                                .count();
                            if ncomp == 1 {
                                "C14/create_dir_all/single-component-not-created".to_string()
                            } else if exp.created == 1 {
                                "C14/create_dir_all/leaf-missing-parent-exists".to_string()
                            } else {
                                "C14/create_dir_all/dirs-missing-several".to_string()
                            }
                        } else if only_missing {
                            "C14/create_dir_all/ancestor-missing".to_string()
                        } else if d.iter().any(|x| x.what == "extra") {
                            "C14/create_dir_all/unexpected-entries".to_string()
                        } else {
                            "C14/create_dir_all/existing-content-changed".to_string()
                        };
                        cx.viol(
                            &sig,
                            op,
                            &format!(
                                "\"missing_before\":{},\"diff\":{},\"scenario\":{}",
                                exp.created,
                                diffs_json(&d),
                                vh::js(scen)
                            ),
                        );
                    } else if p.len() < 4096 && !std::fs::metadata(osp(p)).map(|m| m.is_dir()).unwrap_or(false) {
                        vh::inconclusive(&format!("model/observer disagreement after {}", op.json()));
                    }
                    vh::distinct(&format!(
                        "cda/{fshape}/missing{}/{}",
                        exp.created.min(3),
                        if held { "held" } else { "viol" }
                    ));
                }
                Op::Rmall { .. } => {
                    if !d.is_empty() {
                        held = false;
                        let in_tree = d.iter().any(|x| under(&x.key, target));
                        let outside: Vec<&Diff> = d.iter().filter(|x| !under(&x.key, target)).collect();
                        if in_tree {
                            cx.viol(
                                "C14/remove_dir_all/tree-not-removed",
                                op,
                                &format!("\"diff\":{},\"scenario\":{}", diffs_json(&d), vh::js(scen)),
                            );
                        }
                        if !outside.is_empty() {
                            let sent = outside.iter().any(|x| under(&x.key, b"s"));
                            cx.viol(
                                if sent {
                                    "C14/remove_dir_all/touched-outside-sentinel"
                                } else {
                                    "C14/remove_dir_all/touched-outside"
                                },
                                op,
                                &format!("\"diff\":{},\"scenario\":{}", diffs_json(&d), vh::js(scen)),
                            );
                        }
                    }
                    vh::distinct(&format!("rmall/{pshape}/{}", exp.prior));
                }
                Op::Readdir { .. } => {
                    if !d.is_empty() {
                        held = false;
                        cx.viol("C14/readdir/changed-fs", op, &format!("\"diff\":{}", diffs_json(&d)));
                    }
                    if let (Value::Entries(got), Value::Entries(want)) = (val, &exp.value) {
                        cx.entries_iterated += got.len() as u64;
                        cx.largest_dir = cx.largest_dir.max(want.len() as u64);
                        if !judge_readdir(cx, op, got, want, scen) {
                            held = false;
                        }
                    }
                    vh::distinct(&format!("readdir/{pshape}/{}", exp.prior));
                }
            }
            if !matches!(op, Op::Cda { .. } | Op::Rmall { .. } | Op::Readdir { .. }) {
                let lim = match (cx.fsize, &exp.bytes) {
                    (Some(l), Some(b)) => format!(
                        "/fsize-{}-result-{}",
                        if l % 4096 == 0 { "pagemult" } else { "odd" },
                        match (b.len() as u64).cmp(&l) {
                            std::cmp::Ordering::Less => "below",
                            std::cmp::Ordering::Equal => "at",
                            std::cmp::Ordering::Greater => "above",
                        }
                    ),
                    _ => String::new(),
                };
                vh::distinct(&format!("{opn}/{pshape}/{}{lim}/{}", exp.prior, if held { "held" } else { "viol" }));
            }
            if held {
                cx.last = "held".to_string();
                cx.count(&format!("held_{opn}"), 1);
                if cx.samples_ok < 40 && cx.r.chance(1, 6) {
                    cx.samples_ok += 1;
                    vh::sample(
                        &format!(
                            "{{\"kind\":\"held\",\"fs\":{},\"op\":{},\"prior\":{},\"scenario\":{}}}",
                            vh::js(&cx.fs),
                            op.json(),
                            vh::js(&exp.prior),
                            vh::js(scen)
                        ),
                        10,
                    );
                }
            }
        }
        (Out::Ok(_), Err(why)) => {
            // tiny-std claims success where the model says the post-condition cannot be established:
            // ask the observer directly through the same path string.
            cx.evals += 1;
            cx.count(&format!("op_{opn}"), 1);
            let p = op.main_path();
            let holds = match op {
                Op::Write { data, .. } => std::fs::read(osp(p)).map(|c| &c == data).unwrap_or(false),
                Op::Cda { .. } => std::fs::metadata(osp(p)).map(|m| m.is_dir()).unwrap_or(false),
                Op::Rmall { .. } => std::fs::symlink_metadata(osp(p)).is_err() && why != "too-long",
                _ => false,
            };
            if holds && post != pre {
                vh::inconclusive(&format!("model says {why} but observer sees the post-condition after {}", op.json()));
            } else {
                cx.viol(
                    &format!("C14/{opn}/ok-but-{why}"),
                    op,
                    &format!("\"fs_changed\":{},\"scenario\":{}", post != pre, vh::js(scen)),
                );
            }
            vh::distinct(&format!("{opn}/{fshape}/ok-but-{why}"));
        }
    }
    Some(post)
}

fn judge_readdir(cx: &mut Ctx, op: &Op, got: &[model::Ent], want: &[model::Ent], scen: &str) -> bool {
    let mut ok = true;
    let mut dots = [0u32; 2];
    let mut gm: BTreeMap<&[u8], Vec<&model::Ent>> = BTreeMap::new();
    for e in got {
        if e.name == b"." {
            dots[0] += 1;
            if !e.relref || e.ty != "dir" {
                ok = false;
                cx.viol("C14/readdir/dot-entry-misreported", op, "\"entry\":\".\"");
            }
            continue;
        }
        if e.name == b".." {
            dots[1] += 1;
            if !e.relref || e.ty != "dir" {
                ok = false;
                cx.viol("C14/readdir/dot-entry-misreported", op, "\"entry\":\"..\"");
            }
            continue;
        }
        if e.relref {
            ok = false;
            cx.viol(
                "C14/readdir/ordinary-entry-flagged-relative",
                op,
                &format!("\"name\":{}", vh::jb(&e.name)),
            );
        }
        gm.entry(&e.name).or_default().push(e);
    }
    if dots[0] > 1 || dots[1] > 1 {
        ok = false;
        cx.viol("C14/readdir/dot-entry-duplicated", op, &format!("\"dot\":{},\"dotdot\":{}", dots[0], dots[1]));
    }
    cx.count(&format!("readdir_dot_yielded_{}", dots[0]), 1);
    let wm: BTreeMap<&[u8], &model::Ent> = want.iter().map(|e| (e.name.as_slice(), e)).collect();
    for (name, w) in &wm {
        match gm.get(name) {
            None => {
                ok = false;
                cx.viol(
                    "C14/readdir/entry-missing",
                    op,
                    &format!(
                        "\"name\":{},\"name_len\":{},\"expected\":{},\"yielded\":{},\"scenario\":{}",
                        vh::jb(name),
                        name.len(),
                        want.len(),
                        got.len(),
                        vh::js(scen)
                    ),
                );
            }
            Some(v) => {
                if v.len() > 1 {
                    ok = false;
                    cx.viol(
                        "C14/readdir/entry-duplicated",
                        op,
                        &format!("\"name\":{},\"times\":{},\"scenario\":{}", vh::jb(name), v.len(), vh::js(scen)),
                    );
                }
                let g = v[0];
                if g.ty != w.ty {
                    ok = false;
                    cx.viol(
                        "C14/readdir/wrong-type",
                        op,
                        &format!("\"name\":{},\"got\":{},\"want\":{}", vh::jb(name), vh::js(g.ty), vh::js(w.ty)),
                    );
                }
                // file_name() (utf-8 view) must agree with the raw name when it answers
                match (&g.utf8_name, std::str::from_utf8(name)) {
                    (Some(u), _) if u.as_slice() != *name => {
                        ok = false;
                        cx.viol("C14/readdir/utf8-name-differs", op, &format!("\"name\":{}", vh::jb(name)));
                    }
                    (None, Ok(_)) => {
                        ok = false;
                        cx.viol("C14/readdir/utf8-name-refused", op, &format!("\"name\":{}", vh::jb(name)));
                    }
                    _ => {}
                }
            }
        }
    }
    for name in gm.keys() {
        if !wm.contains_key(name) {
            ok = false;
            cx.viol(
                "C14/readdir/entry-unexpected",
                op,
                &format!("\"name\":{},\"name_len\":{},\"scenario\":{}", vh::jb(name), name.len(), vh::js(scen)),
            );
        }
    }
    ok
}

// ------------------------------------------------------------------------------------------
// generators (all set-up is done with std::fs, never with tiny-std)

const PLAIN: &[u8] = b"abcdefghijklmnopqrstuvwxyz0123456789._-";

fn gen_name(r: &mut Rng, len: usize) -> B {
    loop {
        let mode = r.below(10);
        let mut v: B = Vec::with_capacity(len);
        while v.len() < len {
            let c = match mode {
                0 => {
                    // any byte except NUL and '/'
                    let c = r.range(1, 255) as u8;
                    if c == b'/' {
                        b'_'
                    } else {
                        c
                    }
                }
                1 if len - v.len() >= 2 && r.chance(1, 3) => {
                    v.extend_from_slice("é".as_bytes());
                    continue;
                }
                2 if r.chance(1, 5) => *r.pick(&[b' ', b'\n', b'\t', b'\\', b'"', b'*']),
                _ => *r.pick(PLAIN),
            };
            v.push(c);
        }
        v.truncate(len);
        if v != b"." && v != b".." && !v.is_empty() {
            return v;
        }
        if len == 1 {
            return vec![*r.pick(b"abcxyz")];
        }
    }
}

fn gen_name_len(r: &mut Rng) -> usize {
    match r.below(100) {
        0..=59 => r.range(1, 12) as usize,
        60..=79 => r.range(13, 60) as usize,
        80..=89 => r.range(61, 200) as usize,
        90..=94 => r.range(201, 249) as usize,
        _ => r.range(250, 255) as usize,
    }
}

fn gen_content(r: &mut Rng) -> B {
    let n = match r.below(100) {
        0..=7 => 0,
        8..=14 => 1,
        15..=29 => 5,
        30..=44 => 100,
        45..=54 => r.range(2, 300) as usize,
        55..=64 => 4095,
        65..=74 => 4096,
        75..=84 => 4097,
        85..=94 => r.range(4098, 20_000) as usize,
        _ => 70_000,
    };
    if r.chance(1, 3) {
        // utf-8 text
        (0..n).map(|_| *r.pick(b"abc xyz\n012")).collect()
    } else {
        r.bytes(n)
    }
}

fn make_fifo(key: &[u8]) -> bool {
    let c = std::ffi::CString::new(key.to_vec()).unwrap();
    unsafe { mkfifo(c.as_ptr(), 0o644) == 0 }
}

/// Create a non-regular node with the observer's tools: fifo | sock | dgram | chr | blk.
/// Device nodes are never opened by anything in this harness (chr = 1:3 like /dev/null, blk = 0:0).
fn make_special(key: &[u8], kind: &str) -> bool {
    let c = std::ffi::CString::new(key.to_vec()).unwrap();
    match kind {
        "fifo" => make_fifo(key),
        "sock" => key.len() < 100 && std::os::unix::net::UnixListener::bind(osp(key)).is_ok(),
        "dgram" => key.len() < 100 && std::os::unix::net::UnixDatagram::bind(osp(key)).is_ok(),
        "chr" => unsafe { mknod(c.as_ptr(), 0o020_000 | 0o644, (1 << 8) | 3) == 0 },
        "blk" => unsafe { mknod(c.as_ptr(), 0o060_000 | 0o644, 0) == 0 },
        _ => false,
    }
}

/// relative link text from the directory holding `link_key` to `target_key`
fn rel_target(link_key: &[u8], target_key: &[u8]) -> B {
    let depth = link_key.iter().filter(|c| **c == b'/').count();
    let mut v = Vec::new();
    for _ in 0..depth {
        v.extend_from_slice(b"../");
    }
    v.extend_from_slice(target_key);
    v
}

fn abs_of(rabs: &[u8], key: &[u8]) -> B {
    let mut v = rabs.to_vec();
    v.push(b'/');
    v.extend_from_slice(key);
    v
}

struct Grown {
    dirs: Vec<B>,
    files: Vec<B>,
}

/// Grow `n` random nodes below the existing directory `root`. `others` are keys (files, dirs) that
/// symlinks may point to outside `root` (the sentinel).
fn grow(r: &mut Rng, rabs: &[u8], root: &[u8], n: usize, max_depth: usize, outside: &[(B, bool)]) -> Grown {
    let mut dirs: Vec<B> = vec![root.to_vec()];
    let mut files: Vec<B> = vec![];
    let base_depth = root.iter().filter(|c| **c == b'/').count();
    let mut made = 0;
    let mut tries = 0;
    while made < n && tries < n * 4 + 10 {
        tries += 1;
        let parent = r.pick(&dirs).clone();
        let depth = parent.iter().filter(|c| **c == b'/').count() - base_depth;
        let name = {
            let l = gen_name_len(r);
            gen_name(r, l)
        };
        let key = join_key(&parent, &name);
        if key.len() > 2500 || std::fs::symlink_metadata(osp(&key)).is_ok() {
            continue;
        }
        let k = r.below(100);
        let ok = if k < 42 {
            let ok = std::fs::write(osp(&key), gen_content(r)).is_ok();
            if ok {
                if r.chance(1, 8) {
                    let _ = std::fs::set_permissions(osp(&key), std::fs::Permissions::from_mode(0o444));
                }
                files.push(key.clone());
            }
            ok
        } else if k < 67 {
            if depth + 1 >= max_depth {
                continue;
            }
            let ok = std::fs::create_dir(osp(&key)).is_ok();
            if ok {
                dirs.push(key.clone());
            }
            ok
        } else if k < 92 {
            // symlink
            let tk = r.below(100);
            let target: B = if tk < 25 && !files.is_empty() {
                let t = r.pick(&files).clone();
                if r.chance(1, 2) {
                    rel_target(&key, &t)
                } else {
                    abs_of(rabs, &t)
                }
            } else if tk < 50 {
                let t = r.pick(&dirs).clone();
                if r.chance(1, 2) {
                    rel_target(&key, &t)
                } else {
                    abs_of(rabs, &t)
                }
            } else if tk < 65 {
                if r.chance(1, 2) {
                    b"no-such-target".to_vec()
                } else {
                    abs_of(rabs, b"t/definitely/missing")
                }
            } else if !outside.is_empty() {
                let (t, _) = r.pick(outside).clone();
                if r.chance(1, 2) {
                    rel_target(&key, &t)
                } else {
                    abs_of(rabs, &t)
                }
            } else {
                b"dangling".to_vec()
            };
            std::os::unix::fs::symlink(OsString::from_vec(target), osp(&key)).is_ok()
        } else {
            let kind = match k {
                92..=94 => "fifo",
                95 => "chr",
                96 => "blk",
                97 => "dgram",
                _ => "sock",
            };
            make_special(&key, kind)
        };
        if ok {
            made += 1;
        }
    }
    Grown { dirs, files }
}

struct View {
    dirs: Vec<B>,
    files: Vec<B>,
    links: Vec<B>,
    /// fifos, sockets, device nodes in `t`
    specials: Vec<B>,
    /// (link key, key of the directory it resolves to)
    linkdirs: Vec<(B, B)>,
    out_files: Vec<B>,
    out_dirs: Vec<B>,
}

fn view(snap: &Snap, rabs: &[u8]) -> View {
    let mut v = View {
        dirs: vec![],
        files: vec![],
        links: vec![],
        specials: vec![],
        linkdirs: vec![],
        out_files: vec![],
        out_dirs: vec![],
    };
    for (k, (n, _)) in snap {
        let in_t = under(k, b"t");
        let in_s = under(k, b"s");
        match n {
            Node::Dir if in_t => v.dirs.push(k.clone()),
            Node::Dir if in_s => v.out_dirs.push(k.clone()),
            Node::File(_) if in_t => v.files.push(k.clone()),
            Node::File(_) if in_s => v.out_files.push(k.clone()),
            Node::Fifo | Node::Sock | Node::Chr | Node::Blk if in_t => v.specials.push(k.clone()),
            Node::Link(_) if in_t => {
                v.links.push(k.clone());
                if let Ok(res) = model::resolve(snap, rabs, k, true) {
                    if res.exists {
                        let tk = res.key();
                        if matches!(snap.get(&tk), Some((Node::Dir, _))) {
                            v.linkdirs.push((k.clone(), tk));
                        }
                    }
                }
            }
            _ => {}
        }
    }
    v
}

#[derive(Clone, Copy, PartialEq)]
enum Trail {
    None,
    Maybe,
}

/// Render a key (R-relative canonical path) as a path string of some shape.
fn render(r: &mut Rng, rabs: &[u8], v: Option<&View>, key: &[u8], trail: Trail, chrooted: bool) -> B {
    let mut key = key.to_vec();
    if let Some(v) = v {
        if !v.linkdirs.is_empty() && r.chance(1, 5) {
            let (lk, tk) = r.pick(&v.linkdirs);
            if under(&key, tk) {
                let mut n = lk.clone();
                n.extend_from_slice(&key[tk.len()..]);
                key = n;
            }
        }
    }
    let abs = r.chance(1, 2);
    let mut out: B = Vec::new();
    if abs {
        out.extend_from_slice(rabs);
        out.push(b'/');
        if chrooted && r.chance(1, 6) {
            out.push(b'/');
        }
    } else if r.chance(1, 10) {
        out.extend_from_slice(b"./");
    }
    let style = r.below(10); // 0: repeated separators, 1: dots, else plain
    for (i, c) in key.split(|c| *c == b'/').enumerate() {
        if i > 0 {
            match style {
                0 if r.chance(1, 2) => out.extend_from_slice(if r.chance(1, 3) { b"///" } else { b"//" }),
                1 if r.chance(1, 3) => out.extend_from_slice(b"/./"),
                _ => out.push(b'/'),
            }
        }
        out.extend_from_slice(c);
    }
    if trail == Trail::Maybe {
        match r.below(10) {
            0..=2 => out.push(b'/'),
            3 => out.extend_from_slice(b"//"),
            _ => {}
        }
    }
    out
}

fn fresh_name(r: &mut Rng, snap: &Snap, parent: &[u8]) -> B {
    loop {
        let l = gen_name_len(r);
        let n = gen_name(r, l);
        if !snap.contains_key(&join_key(parent, &n)) {
            return n;
        }
    }
}

fn gen_op(cx: &mut Ctx, snap: &Snap, v: &View) -> Op {
    let rabs = cx.rabs.clone();
    let ch = cx.chrooted;
    let r = &mut cx.r;
    let any_dir = |r: &mut Rng| -> B { r.pick(&v.dirs).clone() };
    let new_in_dir = |r: &mut Rng| -> B {
        let d = r.pick(&v.dirs).clone();
        let n = fresh_name(r, snap, &d);
        join_key(&d, &n)
    };
    let file_target = |r: &mut Rng| -> B {
        let k = r.below(100);
        if k < 50 && !v.files.is_empty() {
            r.pick(&v.files).clone()
        } else if k < 85 {
            new_in_dir(r)
        } else if k < 93 && !v.links.is_empty() {
            r.pick(&v.links).clone()
        } else if k < 96 {
            any_dir(r)
        } else {
            // parent missing
            let mut k = new_in_dir(r);
            k.extend_from_slice(b"/x");
            k
        }
    };
    match r.below(100) {
        0..=21 => {
            let key = file_target(r);
            let tr = if r.chance(1, 25) { Trail::Maybe } else { Trail::None };
            Op::Write {
                p: render(r, &rabs, Some(v), &key, tr, ch),
                data: gen_content(r),
            }
        }
        22..=36 => {
            let key = if r.chance(5, 6) && !v.files.is_empty() {
                r.pick(&v.files).clone()
            } else {
                file_target(r)
            };
            Op::Read {
                p: render(r, &rabs, Some(v), &key, Trail::None, ch),
                as_string: r.chance(1, 4),
            }
        }
        37..=56 => {
            let src = if r.chance(9, 10) && !v.files.is_empty() {
                r.pick(&v.files).clone()
            } else if r.chance(1, 2) && !v.out_files.is_empty() {
                r.pick(&v.out_files).clone()
            } else {
                file_target(r)
            };
            let dst = file_target(r);
            Op::Copy {
                src: render(r, &rabs, Some(v), &src, Trail::None, ch),
                dst: render(r, &rabs, Some(v), &dst, Trail::None, ch),
                via_handle: r.chance(1, 2),
            }
        }
        57..=76 => {
            let k = r.below(100);
            let key = if k < 70 {
                let mut key = any_dir(r);
                let m = match r.below(10) {
                    0 => 0,
                    1..=4 => 1,
                    5..=6 => 2,
                    7 => 3,
                    8 => 4,
                    _ => r.range(5, 9) as usize,
                };
                for i in 0..m {
                    let n = if i == 0 {
                        fresh_name(r, snap, &key)
                    } else {
                        let l = gen_name_len(r).min(40);
                        gen_name(r, l)
                    };
                    key = join_key(&key, &n);
                }
                key
            } else if k < 80 && !v.links.is_empty() {
                let mut key = r.pick(&v.links).clone();
                if r.chance(1, 2) {
                    key.extend_from_slice(b"/nd");
                }
                key
            } else if k < 86 && !v.files.is_empty() {
                let mut key = r.pick(&v.files).clone();
                if r.chance(1, 2) {
                    key.extend_from_slice(b"/nd");
                }
                key
            } else if k < 93 && !v.specials.is_empty() {
                // fifo / socket / device node as leaf or as ancestor (mkdir+stat never open it)
                let mut key = r.pick(&v.specials).clone();
                if r.chance(1, 2) {
                    key.extend_from_slice(b"/nd");
                }
                key
            } else {
                new_in_dir(r)
            };
            Op::Cda {
                p: render(r, &rabs, Some(v), &key, Trail::Maybe, ch),
            }
        }
        77..=86 => {
            let k = r.below(100);
            let key = if k < 85 {
                let cands: Vec<&B> = v.dirs.iter().filter(|d| d.as_slice() != b"t").collect();
                if cands.is_empty() {
                    new_in_dir(r)
                } else {
                    (*r.pick(&cands)).clone()
                }
            } else if k < 90 && !v.links.is_empty() {
                r.pick(&v.links).clone()
            } else if k < 95 && !v.files.is_empty() {
                r.pick(&v.files).clone()
            } else {
                new_in_dir(r)
            };
            Op::Rmall {
                p: render(r, &rabs, Some(v), &key, Trail::Maybe, ch),
            }
        }
        _ => {
            let k = r.below(100);
            let key = if k < 70 {
                any_dir(r)
            } else if k < 85 && !v.out_dirs.is_empty() {
                r.pick(&v.out_dirs).clone()
            } else if k < 95 && !v.links.is_empty() {
                r.pick(&v.links).clone()
            } else {
                file_target(r)
            };
            Op::Readdir {
                p: render(r, &rabs, Some(v), &key, Trail::Maybe, ch),
            }
        }
    }
}

fn outside_list(snap: &Snap) -> Vec<(B, bool)> {
    snap.iter()
        .filter(|(k, _)| under(k, b"s"))
        .filter_map(|(k, (n, _))| match n {
            Node::Dir => Some((k.clone(), true)),
            Node::File(_) => Some((k.clone(), false)),
            _ => None,
        })
        .collect()
}

fn mode_seq(cx: &mut Ctx, budget: u64) {
    let rabs = cx.rabs.clone();
    std::fs::create_dir("t").unwrap();
    std::fs::create_dir("s").unwrap();
    grow(&mut cx.r, &rabs, b"s", 25, 3, &[]);
    let mut snap = snapshot().expect("snapshot");
    let mut since_grow = 0;
    for i in 0..budget {
        let nt = snap.keys().filter(|k| under(k, b"t")).count();
        if nt < 40 || since_grow > 60 {
            if !snap.contains_key(b"t".as_slice()) {
                let _ = std::fs::create_dir("t");
            }
            if nt > 220 {
                // prune with the observer's own tools
                let _ = std::fs::remove_dir_all("t");
                let _ = std::fs::create_dir("t");
            }
            let out = outside_list(&snap);
            let n = 50 + cx.r.below(60) as usize;
            grow(&mut cx.r, &rabs, b"t", n, 6, &out);
            snap = match snapshot() {
                Ok(s) => s,
                Err(e) => {
                    vh::inconclusive(&format!("observer: snapshot failed: {e}"));
                    return;
                }
            };
            since_grow = 0;
        }
        since_grow += 1;
        let v = view(&snap, &rabs);
        if v.dirs.is_empty() {
            let _ = std::fs::create_dir("t");
            snap = snapshot().expect("snapshot");
            continue;
        }
        let op = gen_op(cx, &snap, &v);
        match run_op(cx, &op, Some(snap), &format!("seq#{i}")) {
            Some(p) => snap = p,
            None => return,
        }
    }
}

/// create_dir_all matrix: n components, k of them existing, shapes, relative/absolute, leaf kinds
fn mode_cda(cx: &mut Ctx, budget: u64) {
    let rabs = cx.rabs.clone();
    std::fs::create_dir("s").unwrap();
    std::fs::write("s/keep", b"sentinel").unwrap();
    let maxn = if budget >= 12 { 12 } else { budget.max(3) as usize };
    let shapes: &[&str] = &["plain", "trail1", "trail2", "dblsep", "dotprefix", "dblsep-trail1"];
    let mut case = 0u64;
    for n in 1..=maxn {
        for k in 0..=n {
            for shape in shapes {
                for abs in [false, true] {
                    if *shape == "dotprefix" && abs {
                        continue;
                    }
                    case += 1;
                    let comps: Vec<B> = (0..n).map(|i| format!("m{case}c{i}").into_bytes()).collect();
                    // existing prefix of k components, with a bystander file in the deepest one
                    let mut key: B = Vec::new();
                    for c in comps.iter().take(k) {
                        key = join_key(&key, c);
                    }
                    if k > 0 {
                        std::fs::create_dir_all(osp(&key)).unwrap();
                        std::fs::write(osp(&join_key(&key, b"bystander")), b"keep me").unwrap();
                    }
                    let mut p: B = Vec::new();
                    if abs {
                        p.extend_from_slice(&rabs);
                        p.push(b'/');
                    } else if *shape == "dotprefix" {
                        p.extend_from_slice(b"./");
                    }
                    for (i, c) in comps.iter().enumerate() {
                        if i > 0 {
                            p.extend_from_slice(if shape.starts_with("dblsep") && i == (n + 1) / 2 { b"//" } else { b"/" });
                        }
                        p.extend_from_slice(c);
                    }
                    match *shape {
                        "trail1" | "dblsep-trail1" => p.push(b'/'),
                        "trail2" => p.extend_from_slice(b"//"),
                        _ => {}
                    }
                    let op = Op::Cda { p };
                    run_op(cx, &op, None, &format!("cda-matrix n={n} existing={k} shape={shape} abs={abs}"));
                    let created_all = std::fs::metadata(osp(&comps.iter().fold(Vec::new(), |a, c| join_key(&a, c)))).map(|m| m.is_dir()).unwrap_or(false);
                    let l = cx.last.clone();
                    cx.count(
                        &format!(
                            "cda_matrix/{shape}/{}/n{}/missing{}/{}{}",
                            if abs { "abs" } else { "rel" },
                            if n == 1 { "1" } else { "2+" },
                            (n - k).min(3),
                            l,
                            if l.starts_with("err") && created_all { "(all-created)" } else { "" }
                        ),
                        1,
                    );
                    let _ = std::fs::remove_dir_all(osp(&comps[0]));
                }
            }
        }
    }
    // leaf / ancestor kinds other than directory
    for abs in [false, true] {
        for trail in ["", "/"] {
            for kind in [
                "leaf-file",
                "leaf-link-to-dir",
                "leaf-dangling-link",
                "leaf-link-to-file",
                "parent-file",
                "parent-link-to-dir",
                "parent-dangling-link",
                "grandparent-link-to-sentinel-dir",
                "leaf-dir",
                "leaf=fifo",
                "leaf=sock",
                "leaf=dgram",
                "leaf=chr",
                "leaf=blk",
                "parent=fifo",
                "parent=sock",
                "parent=dgram",
                "parent=chr",
                "parent=blk",
                "grandparent=fifo",
                "grandparent=sock",
                "grandparent=chr",
                "grandparent=blk",
                "leaf-link-to=sock",
                "leaf-link-to=blk",
            ] {
                case += 1;
                let base = format!("k{case}").into_bytes();
                std::fs::create_dir(osp(&base)).unwrap();
                std::fs::create_dir(osp(&join_key(&base, b"realdir"))).unwrap();
                std::fs::create_dir_all("s/sd").unwrap();
                let x = join_key(&base, b"x");
                let sym = |t: &[u8], at: &[u8]| {
                    std::os::unix::fs::symlink(OsStr::from_bytes(t), osp(at)).unwrap();
                };
                let key: B = match kind {
                    "leaf-file" => {
                        std::fs::write(osp(&x), b"f").unwrap();
                        x.clone()
                    }
                    "leaf-link-to-dir" => {
                        sym(b"realdir", &x);
                        x.clone()
                    }
                    "leaf-dangling-link" => {
                        sym(b"nowhere", &x);
                        x.clone()
                    }
                    "leaf-link-to-file" => {
                        std::fs::write(osp(&join_key(&base, b"f")), b"f").unwrap();
                        sym(b"f", &x);
                        x.clone()
                    }
                    "parent-file" => {
                        std::fs::write(osp(&x), b"f").unwrap();
                        join_key(&x, b"leaf")
                    }
                    "parent-link-to-dir" => {
                        sym(b"realdir", &x);
                        join_key(&x, b"leaf")
                    }
                    "parent-dangling-link" => {
                        sym(b"nowhere", &x);
                        join_key(&x, b"leaf")
                    }
                    k if k.contains('=') => {
                        let (pos, what) = k.split_once('=').unwrap();
                        let node = if pos == "leaf-link-to" { join_key(&base, b"node") } else { x.clone() };
                        if !make_special(&node, what) {
                            cx.count(&format!("skipped_cannot_create_{what}_node"), 1);
                            let _ = std::fs::remove_dir_all(osp(&base));
                            continue;
                        }
                        match pos {
                            "leaf" => x.clone(),
                            "parent" => join_key(&x, b"leaf"),
                            "grandparent" => join_key(&join_key(&x, b"mid"), b"leaf"),
                            _ => {
                                sym(b"node", &x);
                                x.clone()
                            }
                        }
                    }
                    "grandparent-link-to-sentinel-dir" => {
                        sym(&abs_of(&rabs, b"s/sd"), &x);
                        join_key(&join_key(&x, b"mid"), b"leaf")
                    }
                    _ => {
                        std::fs::create_dir(osp(&x)).unwrap();
                        x.clone()
                    }
                };
                let mut p = if abs { abs_of(&rabs, &key) } else { key.clone() };
                p.extend_from_slice(trail.as_bytes());
                run_op(cx, &Op::Cda { p }, None, &format!("cda-kinds {kind} abs={abs} trail={trail:?}"));
                let l = cx.last.clone();
                cx.count(&format!("cda_kinds/{kind}/{l}"), 1);
                vh::distinct(&format!("cda-kind/{kind}/{}", l.split(':').next().unwrap_or("")));
                let _ = std::fs::remove_dir_all(osp(&base));
                let _ = std::fs::remove_dir_all("s/sd");
            }
        }
    }
}

/// path lengths across the 512-byte stack buffer and up to PATH_MAX, for every operation
fn mode_len(cx: &mut Ctx, budget: u64) {
    let rabs = cx.rabs.clone();
    std::fs::create_dir("s").unwrap();
    std::fs::write("s/keep", b"sentinel").unwrap();
    // chain c/<250>/<250>/... as deep as relative paths of <= 4095 bytes allow
    let seg: B = std::iter::once(b'L').chain(std::iter::repeat(b'x').take(249)).collect();
    let mut chain: Vec<B> = vec![b"c".to_vec()];
    std::fs::create_dir("c").unwrap();
    for _ in 0..16 {
        let k = join_key(chain.last().unwrap(), &seg);
        std::fs::create_dir(osp(&k)).unwrap();
        chain.push(k);
    }
    std::fs::write("src5", b"short").unwrap();
    let mut lens: Vec<usize> = vec![100, 255, 256, 300];
    let w = if budget >= 100 { 30 } else { 8 };
    lens.extend(512 - w..=512 + w);
    for c in [1024usize, 2048, 3000] {
        lens.extend(c - 1..=c + 1);
    }
    lens.extend(4090..=4100);
    if budget >= 100 {
        lens.extend((600..4000).step_by(97));
    }
    for &t in &lens {
        for abs in [false, true] {
            let p0 = if abs { rabs.len() + 1 } else { 0 };
            // total = p0 + 1 + 251*j + 1 + l
            if t < p0 + 3 {
                continue;
            }
            let mut j = (t - p0 - 3) / 251;
            if j > 16 {
                j = 16;
            }
            let l = t - p0 - 2 - 251 * j;
            if l == 0 || l > 257 {
                continue;
            }
            let dir = &chain[j];
            let mk = |tag: u8, l: usize| -> B { std::iter::once(tag).chain(std::iter::repeat(b'n').take(l - 1)).collect() };
            let pfx = |key: &[u8]| -> B {
                if abs {
                    abs_of(&rabs, key)
                } else {
                    key.to_vec()
                }
            };
            let scen = format!("len total={t} abs={abs}");
            if l <= 255 {
                // create_dir_all: parent exists, leaf missing
                let leaf = join_key(dir, &mk(b'D', l));
                let p = pfx(&leaf);
                assert_eq!(p.len(), t);
                run_op(cx, &Op::Cda { p: p.clone() }, None, &scen);
                if std::fs::symlink_metadata(osp(&leaf)).is_err() && t < 4096 {
                    let _ = std::fs::create_dir(osp(&leaf));
                }
                if t < 4096 && std::fs::symlink_metadata(osp(&leaf)).is_ok() {
                    // populate, iterate, remove through the long path
                    let _ = std::fs::write(osp(&join_key(&leaf, b"f")), b"x");
                    if leaf.len() + 2 <= 4095 {
                        run_op(cx, &Op::Readdir { p: p.clone() }, None, &scen);
                        run_op(cx, &Op::Rmall { p: p.clone() }, None, &scen);
                    }
                    let _ = std::fs::remove_dir_all(osp(&leaf));
                }
                // write / read / copy at that length
                let f = join_key(dir, &mk(b'F', l));
                let p = pfx(&f);
                let data = cx.r.bytes(37);
                run_op(cx, &Op::Write { p: p.clone(), data }, None, &scen);
                run_op(cx, &Op::Read { p: p.clone(), as_string: false }, None, &scen);
                // make the destination longer than the source first (observer's tools)
                if t < 4096 {
                    let _ = std::fs::write(osp(&f), b"0123456789");
                }
                run_op(
                    cx,
                    &Op::Copy {
                        src: b"src5".to_vec(),
                        dst: p.clone(),
                        via_handle: false,
                    },
                    None,
                    &scen,
                );
                let _ = std::fs::remove_file(osp(&f));
            }
            // create_dir_all with two and three missing components ending at the same total length
            for missing in [2usize, 3] {
                let head = (missing - 1) * 2;
                if l <= head || l - head > 255 {
                    continue;
                }
                let mut key = dir.clone();
                for _ in 0..missing - 1 {
                    key = join_key(&key, b"M");
                }
                key = join_key(&key, &mk(b'M', l - head));
                let p = pfx(&key);
                assert_eq!(p.len(), t);
                run_op(cx, &Op::Cda { p }, None, &format!("{scen} missing={missing}"));
                let _ = std::fs::remove_dir_all(osp(&join_key(dir, b"M")));
            }
        }
    }
}

const SIZES: &[usize] = &[0, 1, 5, 4095, 4096, 4097, 65_536, 65_537, 1_048_579];

fn content_of(r: &mut Rng, n: usize, text: bool) -> B {
    if text {
        (0..n).map(|_| *r.pick(b"abcdefg \n")).collect()
    } else {
        r.bytes(n)
    }
}

/// copy matrix: source size x destination prior state x path form
fn mode_copy(cx: &mut Ctx, budget: u64) {
    let rabs = cx.rabs.clone();
    std::fs::create_dir("s").unwrap();
    std::fs::create_dir("cp").unwrap();
    let priors = [
        "absent",
        "shorter",
        "equal",
        "longer",
        "longer-readonly",
        "empty",
        "link-to-longer",
        "link-to-sentinel-longer",
        "dangling-link",
        "dir",
    ];
    let mut sizes: Vec<usize> = SIZES.to_vec();
    if budget >= 100 {
        sizes.push(9_000_001);
    }
    let mut case = 0;
    for &sz in &sizes {
        for prior in priors {
            for abs in [false, true] {
                for via_handle in [false, true] {
                    if via_handle && abs && sz > 5 {
                        continue;
                    }
                    case += 1;
                    let src = format!("cp/src{case}").into_bytes();
                    let dst = format!("cp/dst{case}").into_bytes();
                    let sdata = content_of(&mut cx.r, sz, false);
                    std::fs::write(osp(&src), &sdata).unwrap();
                    let extra = 1 + cx.r.below(5000) as usize;
                    let longer = content_of(&mut cx.r, sz + extra, false);
                    match prior {
                        "absent" => {}
                        "shorter" => {
                            if sz == 0 {
                                continue;
                            }
                            std::fs::write(osp(&dst), content_of(&mut cx.r, sz / 2, false)).unwrap()
                        }
                        "equal" => std::fs::write(osp(&dst), content_of(&mut cx.r, sz, false)).unwrap(),
                        "longer" => std::fs::write(osp(&dst), &longer).unwrap(),
                        "longer-readonly" => {
                            std::fs::write(osp(&dst), &longer).unwrap();
                            std::fs::set_permissions(osp(&dst), std::fs::Permissions::from_mode(0o444)).unwrap();
                        }
                        "empty" => std::fs::write(osp(&dst), b"").unwrap(),
                        "link-to-longer" => {
                            std::fs::write(osp(b"cp/real"), &longer).unwrap();
                            std::os::unix::fs::symlink("real", osp(&dst)).unwrap();
                        }
                        "link-to-sentinel-longer" => {
                            std::fs::write("s/victim", &longer).unwrap();
                            std::os::unix::fs::symlink(OsString::from_vec(abs_of(&rabs, b"s/victim")), osp(&dst)).unwrap();
                        }
                        "dangling-link" => std::os::unix::fs::symlink("newtarget", osp(&dst)).unwrap(),
                        _ => std::fs::create_dir(osp(&dst)).unwrap(),
                    }
                    let f = |k: &[u8]| if abs { abs_of(&rabs, k) } else { k.to_vec() };
                    let op = Op::Copy {
                        src: f(&src),
                        dst: f(&dst),
                        via_handle,
                    };
                    let mut hist = String::new();
                    if via_handle {
                        let pre = match cx.r.below(5) {
                            0 => 0,
                            1 => 1,
                            2 => 16,
                            3 => sz / 2,
                            _ => sz + 3,
                        };
                        let twice = cx.r.below(2) == 1;
                        COPY_HISTORY.store(pre << 1 | twice as usize, std::sync::atomic::Ordering::Relaxed);
                        hist = format!(" handle-history: read {pre} bytes first, copies={}", 1 + twice as usize);
                        vh::count("copy_via_handle_with_history", (pre > 0 || twice) as u64);
                    }
                    run_op(cx, &op, None, &format!("copy-matrix src_size={sz} dest={prior} abs={abs}{hist}"));
                    COPY_HISTORY.store(0, std::sync::atomic::Ordering::Relaxed);
                    let _ = std::fs::remove_dir_all("cp");
                    let _ = std::fs::remove_file("s/victim");
                    std::fs::create_dir("cp").unwrap();
                }
            }
        }
    }
}

/// write/read matrix
fn mode_rw(cx: &mut Ctx, budget: u64) {
    let rabs = cx.rabs.clone();
    std::fs::create_dir("s").unwrap();
    std::fs::create_dir("rw").unwrap();
    let priors = ["absent", "shorter", "equal", "longer", "longer-readonly", "link-to-longer", "link-to-sentinel-longer", "dangling-link"];
    let mut sizes: Vec<usize> = SIZES.to_vec();
    if budget >= 100 {
        sizes.push(5_000_011);
    }
    let mut case = 0;
    for &sz in &sizes {
        for prior in priors {
            for abs in [false, true] {
                for text in [false, true] {
                    case += 1;
                    let dst = format!("rw/f{case}").into_bytes();
                    let extra = 1 + cx.r.below(5000) as usize;
                    let longer = content_of(&mut cx.r, sz + extra, false);
                    match prior {
                        "absent" => {}
                        "shorter" => {
                            if sz == 0 {
                                continue;
                            }
                            std::fs::write(osp(&dst), content_of(&mut cx.r, sz / 2, false)).unwrap()
                        }
                        "equal" => std::fs::write(osp(&dst), content_of(&mut cx.r, sz, false)).unwrap(),
                        "longer" => std::fs::write(osp(&dst), &longer).unwrap(),
                        "longer-readonly" => {
                            std::fs::write(osp(&dst), &longer).unwrap();
                            std::fs::set_permissions(osp(&dst), std::fs::Permissions::from_mode(0o444)).unwrap();
                        }
                        "link-to-longer" => {
                            std::fs::write(osp(b"rw/real"), &longer).unwrap();
                            std::os::unix::fs::symlink("real", osp(&dst)).unwrap();
                        }
                        "link-to-sentinel-longer" => {
                            std::fs::write("s/victim", &longer).unwrap();
                            std::os::unix::fs::symlink(OsString::from_vec(abs_of(&rabs, b"s/victim")), osp(&dst)).unwrap();
                        }
                        _ => std::os::unix::fs::symlink("newtarget", osp(&dst)).unwrap(),
                    }
                    let p = if abs { abs_of(&rabs, &dst) } else { dst.clone() };
                    let data = content_of(&mut cx.r, sz, text);
                    let scen = format!("rw-matrix size={sz} prior={prior} abs={abs} text={text}");
                    let post = run_op(cx, &Op::Write { p: p.clone(), data }, None, &scen);
                    let post = run_op(cx, &Op::Read { p: p.clone(), as_string: false }, post, &scen);
                    run_op(cx, &Op::Read { p, as_string: true }, post, &scen);
                    let _ = std::fs::remove_dir_all("rw");
                    let _ = std::fs::remove_file("s/victim");
                    std::fs::create_dir("rw").unwrap();
                }
            }
        }
    }
}

fn unique_names(r: &mut Rng, count: usize, len_of: &mut dyn FnMut(&mut Rng) -> usize) -> Vec<B> {
    let mut set = std::collections::BTreeSet::new();
    let mut tries = 0;
    while set.len() < count && tries < count * 20 + 2000 {
        tries += 1;
        let l = len_of(r);
        let mut n = gen_name(r, l);
        if l >= 6 {
            // make collisions unlikely: counter in the middle
            let tag = format!("{:x}", set.len());
            let at = (l - tag.len().min(l)) / 2;
            for (i, c) in tag.bytes().enumerate() {
                if at + i < l {
                    n[at + i] = c;
                }
            }
        }
        if n != b"." && n != b".." {
            set.insert(n);
        }
    }
    set.into_iter().collect()
}

fn fill_dir(r: &mut Rng, rabs: &[u8], dir: &[u8], names: &[B], kinds: &str) {
    for (i, n) in names.iter().enumerate() {
        let key = join_key(dir, n);
        let k = if kinds == "files" { 0 } else { (i as u64 + r.below(2)) % 10 };
        match k {
            0..=2 => std::fs::write(osp(&key), b"x").unwrap(),
            3 | 4 => std::fs::create_dir(osp(&key)).unwrap(),
            5 => std::os::unix::fs::symlink(OsString::from_vec(abs_of(rabs, b"s/keepdir")), osp(&key)).unwrap(),
            6 => std::os::unix::fs::symlink("dangling-target", osp(&key)).unwrap(),
            _ => {
                let kind = match k {
                    7 if i % 3 == 0 => "sock",
                    7 => "fifo",
                    8 => "chr",
                    _ => "blk",
                };
                if !make_special(&key, kind) && !make_fifo(&key) {
                    std::fs::write(osp(&key), b"x").unwrap()
                }
            }
        }
    }
}

/// directory iteration over name-length profiles and entry counts; each directory is then
/// removed with remove_dir_all (evaluated as well)
fn mode_readdir(cx: &mut Ctx, budget: u64) {
    let rabs = cx.rabs.clone();
    std::fs::create_dir("s").unwrap();
    std::fs::create_dir("s/keepdir").unwrap();
    std::fs::write("s/keepdir/inner", b"must survive").unwrap();
    std::fs::create_dir("rd").unwrap();
    let thorough = budget >= 100;
    let mut fixed: Vec<usize> = vec![1, 2, 4, 5, 8, 12, 13, 20, 21, 28, 29, 60, 100, 180, 236, 237, 244, 245, 252, 253, 254, 255];
    if thorough {
        fixed = (1..=255).collect();
    }
    let counts: Vec<usize> = if thorough { vec![0, 1, 2, 3, 7, 19, 20, 21, 22, 41, 64, 150, 700] } else { vec![0, 1, 2, 20, 21, 43, 150] };
    let mut case = 0;
    let mut do_dir = |cx: &mut Ctx, names: Vec<B>, kinds: &str, label: String| {
        case += 1;
        let dir = format!("rd/d{case}").into_bytes();
        std::fs::create_dir(osp(&dir)).unwrap();
        fill_dir(&mut cx.r, &rabs, &dir, &names, kinds);
        let abs = cx.r.chance(1, 2);
        let mut p = if abs { abs_of(&rabs, &dir) } else { dir.clone() };
        if cx.r.chance(1, 4) {
            p.push(b'/');
        }
        let scen = format!("readdir {label} entries={}", names.len());
        let post = run_op(cx, &Op::Readdir { p: p.clone() }, None, &scen);
        run_op(cx, &Op::Rmall { p }, post, &scen);
        let _ = std::fs::remove_dir_all(osp(&dir));
    };
    for &l in &fixed {
        for &c in &counts {
            if thorough || (l + c) % 3 != 1 {
                let names = unique_names(&mut cx.r, c, &mut |_| l);
                do_dir(cx, names, "mixed", format!("namelen={l}"));
            }
        }
    }
    // mixed lengths: the 512-byte window then holds a varying number of records
    for i in 0..(if thorough { 120 } else { 24 }) {
        let c = [3usize, 17, 40, 90, 333, 1200][i % 6];
        let names = unique_names(&mut cx.r, c, &mut |r| match r.below(4) {
            0 => r.range(1, 4) as usize,
            1 => r.range(5, 40) as usize,
            2 => r.range(41, 200) as usize,
            _ => r.range(201, 255) as usize,
        });
        do_dir(cx, names, "mixed", "namelen=mixed".to_string());
    }
    // big fan-out
    let big: &[(usize, usize, usize)] = if thorough { &[(5000, 6, 14), (5000, 250, 255), (12000, 1, 30)] } else { &[(5000, 6, 14), (2000, 200, 255)] };
    for &(c, lo, hi) in big {
        let names = unique_names(&mut cx.r, c, &mut |r| r.range(lo as u64, hi as u64) as usize);
        do_dir(cx, names, if c >= 5000 && lo < 100 { "mixed" } else { "files" }, format!("fanout namelen={lo}..{hi}"));
    }
}

/// remove_dir_all over random trees holding links into the sentinel
fn mode_rmall(cx: &mut Ctx, budget: u64) {
    let rabs = cx.rabs.clone();
    std::fs::create_dir("s").unwrap();
    grow(&mut cx.r, &rabs, b"s", 30, 3, &[]);
    std::fs::create_dir("t").unwrap();
    for i in 0..budget {
        let snap0 = snapshot().expect("snapshot");
        let out = outside_list(&snap0);
        let root = format!("t/tree{i}").into_bytes();
        std::fs::create_dir(osp(&root)).unwrap();
        let n = match cx.r.below(6) {
            0 => cx.r.below(3) as usize,
            1 | 2 => cx.r.range(3, 30) as usize,
            3 | 4 => cx.r.range(30, 150) as usize,
            _ => cx.r.range(150, 400) as usize,
        };
        let depth = cx.r.range(1, 6) as usize;
        let g = grow(&mut cx.r, &rabs, &root, n, depth, &out);
        // a bystander next to the tree and a link to the tree from outside it
        let _ = std::fs::write("t/bystander", b"next to the tree");
        let _ = std::os::unix::fs::symlink(OsString::from_vec(abs_of(&rabs, &root)), "t/link-to-tree");
        let snap = snapshot().expect("snapshot");
        let v = view(&snap, &rabs);
        let target = if cx.r.chance(3, 4) || g.dirs.len() < 2 { root.clone() } else { cx.r.pick(&g.dirs).clone() };
        let via = if cx.r.chance(1, 4) { Some(&v) } else { None };
        let mut p = render(&mut cx.r, &rabs, via, &target, Trail::Maybe, cx.chrooted);
        if cx.r.chance(1, 12) {
            // the path itself is a symlink to the tree: Err expected (not judged)
            p = b"t/link-to-tree".to_vec();
        }
        let _ = g.files.len();
        run_op(cx, &Op::Rmall { p }, Some(snap), &format!("rmall tree nodes={n} depth<={depth}"));
        let _ = std::fs::remove_dir_all(osp(&root));
        let _ = std::fs::remove_file("t/link-to-tree");
    }
}

/// Real short transfers. Writers: the soft RLIMIT_FSIZE is lowered around the tiny-std call (SIGXFSZ
/// ignored), so write(2) / copy_file_range(2) accept only the bytes up to the limit and then fail
/// with EFBIG; a correct writer helper returns Err, one that drops the count returns Ok with a
/// prefix. Readers: a fifo fed in small chunks and /proc files (st_size 0, short reads).
fn mode_short(cx: &mut Ctx, budget: u64) {
    let rabs = cx.rabs.clone();
    unsafe {
        signal(25, 1); // SIGXFSZ -> SIG_IGN
    }
    // does the limit bite here at all? (observer's own tools)
    let bites = with_fsize(Some(10), || std::fs::write("probe", [0u8; 20]).is_err());
    let _ = std::fs::remove_file("probe");
    if !bites {
        vh::inconclusive("RLIMIT_FSIZE does not limit writes in this environment: short-write scenarios skipped");
    } else {
        std::fs::create_dir("s").unwrap();
        std::fs::write("s/keep", b"sentinel").unwrap();
        std::fs::create_dir("sw").unwrap();
        let mut limits: Vec<u64> = vec![1, 100, 4095, 4096, 4097, 5000, 65_536, 100_001];
        if budget >= 100 {
            limits.extend([2, 511, 512, 513, 8192, 12_345, 131_072, 1_000_003]);
        }
        let mut case = 0u64;
        for &l in &limits {
            let mut payloads: Vec<u64> = vec![l.saturating_sub(1), l, l + 1, l + 4096, 2 * l + 3, l + 65_536];
            payloads.retain(|p| *p > 0);
            payloads.dedup();
            for &pl in &payloads {
                for variant in [
                    "write/absent",
                    "write/longer",
                    "write/shorter",
                    "append/absent",
                    "append/half-limit",
                    "append/limit-minus-1",
                    "overwrite/absent",
                    "overwrite/longer",
                    "copy_file/absent",
                    "copy_file/longer",
                    "File::copy/absent",
                    "File::copy/shorter",
                ] {
                    case += 1;
                    let (kind, prior) = variant.split_once('/').unwrap();
                    let dst = format!("sw/f{case}").into_bytes();
                    let src = format!("sw/src{case}").into_bytes();
                    let data = content_of(&mut cx.r, pl as usize, false);
                    match prior {
                        "absent" => {}
                        "longer" => std::fs::write(osp(&dst), content_of(&mut cx.r, pl as usize + 77, false)).unwrap(),
                        "shorter" => std::fs::write(osp(&dst), content_of(&mut cx.r, (pl / 2) as usize, false)).unwrap(),
                        "half-limit" => std::fs::write(osp(&dst), content_of(&mut cx.r, (l / 2) as usize, false)).unwrap(),
                        _ => std::fs::write(osp(&dst), content_of(&mut cx.r, (l - 1) as usize, false)).unwrap(),
                    }
                    let abs = case % 2 == 0;
                    let f = |k: &[u8]| if abs { abs_of(&rabs, k) } else { k.to_vec() };
                    let op = match kind {
                        "write" => Op::Write { p: f(&dst), data },
                        "append" => Op::WriteVia {
                            p: f(&dst),
                            data,
                            append: true,
                        },
                        "overwrite" => Op::WriteVia {
                            p: f(&dst),
                            data,
                            append: false,
                        },
                        _ => {
                            std::fs::write(osp(&src), &data).unwrap();
                            Op::Copy {
                                src: f(&src),
                                dst: f(&dst),
                                via_handle: kind == "File::copy",
                            }
                        }
                    };
                    cx.fsize = Some(l);
                    run_op(cx, &op, None, &format!("short-write rlimit_fsize={l} payload={pl} {variant}"));
                    cx.fsize = None;
                    let out = cx.last.clone();
                    // a copy that ended in Err with exactly `limit` bytes at the destination: the first
                    // copy_file_range returned a partial count and a further call was made
                    if matches!(op, Op::Copy { .. })
                        && pl > l
                        && !out.starts_with("held")
                        && std::fs::metadata(osp(&dst)).map(|m| m.len() == l).unwrap_or(false)
                    {
                        cx.count("copy_calls_that_returned_partial", 1);
                        cx.count(&format!("multi_call_copy_under_rlimit/{out}"), 1);
                    }
                    cx.count(
                        &format!(
                            "short_write/{kind}/payload-{}-limit/{}",
                            match pl.cmp(&l) {
                                std::cmp::Ordering::Less => "below",
                                std::cmp::Ordering::Equal => "at",
                                std::cmp::Ordering::Greater => "above",
                            },
                            out
                        ),
                        1,
                    );
                    let _ = std::fs::remove_file(osp(&dst));
                    let _ = std::fs::remove_file(osp(&src));
                }
            }
        }
    }
    // ---- short reads: a fifo fed in chunks by a std thread
    let chunkings: &[&[usize]] = &[&[1], &[1, 2, 3], &[7], &[31, 32, 33], &[4095, 1], &[4096], &[4097, 5], &[65_536, 1], &[100_000]];
    let totals: &[usize] = if budget >= 100 { &[1, 2, 33, 4096, 4097, 70_001, 300_003] } else { &[1, 33, 4097, 70_001] };
    for (ci, chunks) in chunkings.iter().enumerate() {
        for &total in totals {
            for as_string in [false, true] {
                let data: B = if as_string {
                    // multi-byte characters get split across chunk boundaries
                    "aé€😀\n".bytes().cycle().take(total).collect::<B>()
                } else {
                    cx.r.bytes(total)
                };
                let valid_utf8 = std::str::from_utf8(&data).is_ok();
                let name = format!("fifo{ci}-{total}-{as_string}").into_bytes();
                if !make_fifo(&name) {
                    vh::inconclusive("mkfifo failed in the sandbox");
                    return;
                }
                let wdata = data.clone();
                let wchunks: Vec<usize> = chunks.to_vec();
                let wname = name.clone();
                let writer = std::thread::spawn(move || {
                    use std::io::Write as _;
                    let Ok(mut f) = std::fs::OpenOptions::new().write(true).open(osp(&wname)) else {
                        return;
                    };
                    let mut off = 0;
                    let mut i = 0;
                    while off < wdata.len() {
                        let n = wchunks[i % wchunks.len()].min(wdata.len() - off);
                        if f.write_all(&wdata[off..off + n]).is_err() {
                            return;
                        }
                        off += n;
                        i += 1;
                        if i % 3 == 0 {
                            std::thread::yield_now();
                        } else if i % 17 == 0 {
                            std::thread::sleep(std::time::Duration::from_micros(200));
                        }
                    }
                });
                let op = Op::Read {
                    p: if ci % 2 == 0 { name.clone() } else { abs_of(&rabs, &name) },
                    as_string,
                };
                println!("##B {}", op.json());
                let (out, _) = exec(&op, 0, &Env::default());
                println!("##E");
                cx.check_efault(&out, &op, "short-read fifo");
                let _ = writer.join();
                let _ = std::fs::remove_file(osp(&name));
                let chunk_cls = if chunks.iter().all(|c| *c < 64) {
                    "tiny-chunks"
                } else if chunks.iter().any(|c| *c > 4096) {
                    "big-chunks"
                } else {
                    "page-chunks"
                };
                let opn = op.name();
                match out {
                    Out::Panic(m) => {
                        cx.evals += 1;
                        cx.viol(&format!("C14/{opn}/panic/fifo"), &op, &format!("\"panic\":{},\"total\":{total}", vh::js(&m)));
                    }
                    Out::Err { errno, .. } => {
                        cx.count(&format!("err/{opn}-fifo/{}{}", errno_name(errno), if as_string && !valid_utf8 { "(cut-char)" } else { "" }), 1);
                    }
                    Out::Ok(Value::Bytes(got)) => {
                        cx.evals += 1;
                        cx.count("op_read_fifo", 1);
                        if got != data {
                            let sig = if got.len() < data.len() && data.starts_with(&got) {
                                "C14/read/short-read-truncated-result"
                            } else {
                                "C14/read/short-read-wrong-content"
                            };
                            cx.viol(
                                sig,
                                &op,
                                &format!("\"source\":\"fifo\",\"chunks\":{:?},\"want_len\":{},\"got_len\":{}", chunks, data.len(), got.len()),
                            );
                        } else {
                            cx.count("held_read_fifo", 1);
                        }
                        vh::distinct(&format!(
                            "read-fifo/{}/{chunk_cls}/{}",
                            if as_string { "string" } else { "bytes" },
                            if total > 65_536 { "gt-pipe-buffer" } else if total > 4096 { "gt-page" } else { "small" }
                        ));
                    }
                    Out::Ok(_) => {}
                }
            }
        }
    }
    // ---- /proc files: st_size 0, content delivered by short reads (not inside a chroot)
    if !cx.chrooted {
        for path in ["/proc/version", "/proc/filesystems", "/proc/self/cmdline", "/proc/self/environ", "/proc/sys/kernel/ostype", "/proc/self/limits"] {
            let Ok(want) = std::fs::read(path) else {
                continue;
            };
            for as_string in [false, true] {
                let op = Op::Read {
                    p: path.as_bytes().to_vec(),
                    as_string,
                };
                println!("##B {}", op.json());
                let (out, _) = exec(&op, 0, &Env::default());
                println!("##E");
                cx.check_efault(&out, &op, "short-read /proc");
                // the observer reads again afterwards: only judge when the file was stable
                let stable = std::fs::read(path).map(|w| w == want).unwrap_or(false);
                match out {
                    Out::Panic(m) => {
                        cx.evals += 1;
                        cx.viol("C14/read/panic/proc", &op, &format!("\"panic\":{}", vh::js(&m)));
                    }
                    Out::Ok(Value::Bytes(got)) if stable => {
                        cx.evals += 1;
                        cx.count("op_read_proc", 1);
                        if got != want {
                            cx.viol(
                                "C14/read/short-read-wrong-content",
                                &op,
                                &format!("\"source\":\"proc\",\"want_len\":{},\"got_len\":{}", want.len(), got.len()),
                            );
                        } else {
                            cx.count("held_read_proc", 1);
                        }
                        vh::distinct(&format!("read-proc/{}", if as_string { "string" } else { "bytes" }));
                    }
                    Out::Err { errno, .. } => cx.count(&format!("err/read-proc/{}", errno_name(errno)), 1),
                    _ => {}
                }
            }
        }
    }
}

fn main() {
    let a = vh::args();
    let base = a.rest.first().cloned().unwrap_or_else(|| "/tmp".into());
    let fs = a.rest.get(1).cloned().unwrap_or_else(|| "disk".into());
    let want_chroot = a.rest.get(2).map(|s| s == "chroot").unwrap_or(false);
    unsafe {
        umask(0o022);
    }
    let root = PathBuf::from(&base).join(format!("c14-{}-{}-{}", a.mode, a.seed, unsafe { getpid() }));
    if let Err(e) = std::fs::create_dir_all(&root) {
        vh::inconclusive(&format!("cannot create sandbox {}: {e}", root.display()));
        return;
    }
    let root = std::fs::canonicalize(&root).unwrap();
    std::env::set_current_dir(&root).unwrap();
    let mut rabs: B = root.as_os_str().as_bytes().to_vec();
    let mut chrooted = false;
    if want_chroot {
        let c = std::ffi::CString::new(rabs.clone()).unwrap();
        if unsafe { chroot(c.as_ptr()) } == 0 && std::env::set_current_dir("/").is_ok() {
            chrooted = true;
            rabs = Vec::new();
        } else {
            vh::count("chroot_unavailable", 1);
            let _ = std::fs::remove_dir_all(&root);
            return;
        }
    }
    let mut cx = Ctx {
        r: Rng::new(a.seed),
        rabs,
        fs: fs.clone(),
        chrooted,
        evals: 0,
        counters: BTreeMap::new(),
        viol_seen: BTreeMap::new(),
        samples_ok: 0,
        fsize: None,
        storm: None,
        inject: None,
        intr: false,
        last_signals: 0,
        last: String::new(),
        entries_iterated: 0,
        largest_dir: 0,
    };
    let res = vh::catch(|| match a.mode.as_str() {
        "seq" => mode_seq(&mut cx, a.budget),
        "cda" => mode_cda(&mut cx, a.budget),
        "len" => mode_len(&mut cx, a.budget),
        "copy" => mode_copy(&mut cx, a.budget),
        "rw" => mode_rw(&mut cx, a.budget),
        "readdir" => mode_readdir(&mut cx, a.budget),
        "rmall" => mode_rmall(&mut cx, a.budget),
        "short" => mode_short(&mut cx, a.budget),
        "sig" => disturb::mode_sig(&mut cx, a.budget),
        "sigcopy" => disturb::mode_sigcopy(&mut cx, a.budget),
        "eintr" => disturb::mode_eintr(
            &mut cx,
            a.rest.iter().find_map(|x| x.strip_prefix("plan=")).map(str::to_string),
        ),
        m => vh::inconclusive(&format!("unknown mode {m}")),
    });
    if let Err(p) = res {
        // a panic outside tiny-std code: harness problem
        vh::inconclusive(&format!("harness panic in mode {}: {p}", a.mode));
    }
    vh::eval(cx.evals);
    for (k, v) in &cx.counters {
        vh::count(k, *v);
    }
    vh::count("readdir_entries_iterated", cx.entries_iterated);
    // per-process maximum: the driver takes the max over processes
    vh::count(
        &format!("largest_directory_seen/{fs}/{}/{}/{}{}", a.mode, a.seed, cfg!(debug_assertions), chrooted),
        cx.largest_dir,
    );
    vh::distinct(&format!("fs/{fs}/{}", a.mode));
    // clean up with the observer's tools
    if chrooted {
        if let Ok(rd) = std::fs::read_dir("/") {
            for e in rd.flatten() {
                let p = e.path();
                if std::fs::remove_dir_all(&p).is_err() {
                    let _ = std::fs::remove_file(&p);
                }
            }
        }
    } else {
        let _ = std::env::set_current_dir("/");
        let _ = std::fs::remove_dir_all(&root);
    }
}
