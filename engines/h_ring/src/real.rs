//! C17 real-kernel mode: rings created through `rusl::io_uring::setup_io_uring` (the real set-up
//! path, including its sq_array initialisation) with requested sizes that are *not* all powers of
//! two, several laps around each ring, cheap operations carrying sequence numbers in user_data.
//!
//! Operation: `close` of a descriptor number that is not open -> completes inline inside
//! io_uring_enter with -EBADF, in submission order, no side effect.
//! Oracle per batch: completions' user_data == submitted user_data (none twice, none missing,
//! none unknown) and in submission order; a slot handed out while an earlier entry in it is not
//! yet consumed (consumption = what io_uring_enter reported as submitted) is judged as in the
//! simulator.
use rusl::io_uring::{io_uring_enter, setup_io_uring};
use rusl::platform::{
    Fd, IoUring, IoUringEnterFlags, IoUringParamFlags, IoUringSQEFlags, IoUringSubmissionQueueEntry,
};
use std::collections::{BTreeMap, VecDeque};
use vh::Rng;

const SEQ_BASE: u64 = 0x7E57_0000_0000_0000;
const BAD_FD: i32 = 1_000_000_000; // far above any descriptor limit

struct Rep {
    per_sig: BTreeMap<String, u64>,
}
impl Rep {
    fn viol(&mut self, sig: &str, req: u32, cap: u32, flags: u32, batch: &str, what: &str) {
        let n = self.per_sig.entry(sig.to_string()).or_insert(0);
        *n += 1;
        if *n <= 2 {
            vh::viol(
                sig,
                &format!(
                    "{{\"mode\":\"real kernel\",\"requested_entries\":{req},\"sq_slots_observed\":{cap},\"setup_flags\":{flags},\"profile\":{},\"batch\":{},\"what\":{}}}",
                    vh::js(super::profile()),
                    vh::js(batch),
                    vh::js(what)
                ),
            );
        }
    }
}

struct Ring {
    ring: IoUring,
    /// (slot address, seq) of entries handed out and not yet consumed by the kernel, oldest first
    unconsumed: VecDeque<(usize, u64)>,
    /// entries handed out + filled but not yet covered by a flush
    next_seq: u64,
    handed: u64,
    flushed: u64,
    consumed: u64,
}

#[derive(Default)]
struct Tot {
    rings: u64,
    rings_skipped_flags: u64,
    ops: u64,
    batches: u64,
    laps: u64,
    none_with_free: u64,
    none_when_full: u64,
    unexpected_res: u64,
    cap_ne_pow2: u64,
}

/// one ring: returns false when the run had to stop (violation already reported)
#[allow(clippy::too_many_lines)]
fn run_ring(r: &mut Rng, req: u32, flags_bits: u32, ops_target: u64, rep: &mut Rep, tot: &mut Tot) -> bool {
    let mut flags = IoUringParamFlags::empty();
    if flags_bits & 2 != 0 {
        flags = flags | IoUringParamFlags::IORING_SETUP_SQE128;
    }
    if flags_bits & 4 != 0 {
        flags = flags | IoUringParamFlags::IORING_SETUP_CQE32;
    }
    let ring = match setup_io_uring(req, flags, 0, 0) {
        Ok(u) => u,
        Err(e) => {
            if flags_bits == 0 {
                vh::inconclusive(&format!("real: setup_io_uring({req}) failed: {e:?}"));
            } else {
                tot.rings_skipped_flags += 1;
            }
            return true;
        }
    };
    tot.rings += 1;
    let mut g = Ring {
        ring,
        unconsumed: VecDeque::new(),
        next_seq: SEQ_BASE + (u64::from(req) << 32),
        handed: 0,
        flushed: 0,
        consumed: 0,
    };
    // capacity as the wrapper presents it: slots handed out on an idle ring until None
    let want_cap = req.next_power_of_two();
    let mut cap = 0u32;
    let mut batch_log = String::new();
    let mut ring_ops = 0u64;
    let mut first = true;
    while ring_ops < ops_target {
        // ---- one batch: a few (get*, flush) groups, then enter (sometimes in two parts)
        let room = if first { 4 * want_cap + 4 } else { cap };
        let k_want = if first {
            room // probe the capacity: ask until None
        } else {
            match r.below(5) {
                0 => 1,
                1 => cap,
                2 => cap + 1, // one more than fits: the last get must be refused
                _ => 1 + r.below(u64::from(cap)) as u32,
            }
        };
        batch_log.clear();
        let mut batch: Vec<u64> = Vec::new();
        let mut since_flush = 0;
        // what the last flush told the caller to submit (a user passes exactly this to io_uring_enter)
        let mut told: u32 = 0;
        for i in 0..k_want {
            let in_use = g.handed - g.consumed;
            let ptr = vh::catch(|| g.ring.get_next_sqe_slot());
            let ptr = match ptr {
                Err(p) => {
                    rep.viol("C17/sq/panic", req, cap, flags_bits, &batch_log, &format!("get_next_sqe_slot panicked: {p}"));
                    return false;
                }
                Ok(p) => p,
            };
            let Some(ptr) = ptr else {
                if first {
                    cap = i;
                } else if in_use < u64::from(cap) {
                    tot.none_with_free += 1;
                } else {
                    tot.none_when_full += 1;
                }
                break;
            };
            let addr = ptr as usize;
            if let Some(&(_, old)) = g.unconsumed.iter().find(|(a, _)| *a == addr) {
                rep.viol(
                    "C17/sq/slot-reused-before-consumed",
                    req,
                    cap,
                    flags_bits,
                    &batch_log,
                    &format!(
                        "slot {addr:#x} handed out again while it still holds entry seq#{} that the kernel has not consumed ({} handed out, {} consumed)",
                        old - SEQ_BASE,
                        g.handed,
                        g.consumed
                    ),
                );
                return false;
            }
            let seq = g.next_seq;
            g.next_seq += 1;
            unsafe {
                ptr.write(IoUringSubmissionQueueEntry::new_close(
                    Fd::try_new(BAD_FD - (seq & 0xffff) as i32).unwrap(),
                    seq,
                    IoUringSQEFlags::empty(),
                ));
            }
            g.unconsumed.push_back((addr, seq));
            g.handed += 1;
            batch.push(seq);
            since_flush += 1;
            batch_log.push('G');
            // flush in the middle of a batch now and then (several flushes per enter)
            if !first && r.chance(1, 4) {
                told = g.ring.flush_submission_queue();
                g.flushed = g.handed;
                since_flush = 0;
                batch_log.push_str(&format!("F={told}"));
            }
        }
        if first {
            if cap == 0 {
                cap = k_want; // never refused: reported below through the kernel's answer
            }
            if cap != want_cap {
                tot.cap_ne_pow2 += 1;
            }
            first = false;
        }
        if since_flush > 0 || batch.is_empty() {
            match vh::catch(|| g.ring.flush_submission_queue()) {
                Err(p) => {
                    rep.viol("C17/flush/panic", req, cap, flags_bits, &batch_log, &format!("flush_submission_queue panicked: {p}"));
                    return false;
                }
                Ok(n) => {
                    told = n;
                    g.flushed = g.handed;
                    batch_log.push_str(&format!("F={told}"));
                }
            }
        }
        // ---- kernel: submit, possibly in two parts with a hand-out attempt in between
        // to_submit comes from the return value of the last flush, as a user of the wrapper does;
        // sometimes in two enters with a hand-out attempt in between
        let split = told >= 2 && r.chance(1, 3);
        let first_part = if split { 1 + r.below(u64::from(told) - 1) as u32 } else { told };
        let mut to_go = told;
        let mut part = first_part;
        let mut tries = 0;
        while to_go > 0 && tries < 6 {
            tries += 1;
            match io_uring_enter(g.ring.fd, part, 0, IoUringEnterFlags::empty()) {
                Ok(n) => {
                    let n = n as u32;
                    to_go = to_go.max(n); // (a kernel answer above the request is judged by the completions)
                    for _ in 0..n {
                        g.unconsumed.pop_front();
                    }
                    g.consumed += u64::from(n);
                    to_go -= n;
                    batch_log.push_str(&format!("E{part}={n}"));
                    if n == 0 {
                        break; // nothing left in the ring although the flush promised more
                    }
                }
                Err(e) => {
                    vh::inconclusive(&format!("real: io_uring_enter failed: {e:?}"));
                    return false;
                }
            }
            if split && to_go > 0 && tries == 1 {
                // between the two parts the ring is partly kernel-owned: a slot may be handed out
                // only if one is free (judged by address as above)
                let in_use = g.handed - g.consumed;
                if let Ok(Some(ptr)) = vh::catch(|| g.ring.get_next_sqe_slot()) {
                    let addr = ptr as usize;
                    if in_use >= u64::from(cap) || g.unconsumed.iter().any(|(a, _)| *a == addr) {
                        rep.viol(
                            "C17/sq/slot-reused-before-consumed",
                            req,
                            cap,
                            flags_bits,
                            &batch_log,
                            &format!("slot {addr:#x} handed out with {in_use} of {cap} slots still unconsumed by the kernel"),
                        );
                        return false;
                    }
                    let seq = g.next_seq;
                    g.next_seq += 1;
                    unsafe {
                        ptr.write(IoUringSubmissionQueueEntry::new_close(
                            Fd::try_new(BAD_FD - (seq & 0xffff) as i32).unwrap(),
                            seq,
                            IoUringSQEFlags::empty(),
                        ));
                    }
                    g.unconsumed.push_back((addr, seq));
                    g.handed += 1;
                    batch.push(seq);
                    to_go = g.ring.flush_submission_queue();
                    g.flushed = g.handed;
                    batch_log.push_str(&format!("GF={to_go}"));
                }
            }
            part = to_go;
        }
        // completions can only exist for what the kernel accepted: wait for those, not for the batch
        let accepted = batch.len() as u64 - (g.flushed - g.consumed).min(batch.len() as u64);
        // ---- wait for and reap the completions of this batch
        let mut got: Vec<(u64, i32)> = Vec::new();
        let mut waits = 0;
        while (got.len() as u64) < accepted && waits < 50 {
            loop {
                match vh::catch(|| g.ring.get_next_cqe().map(|c| (c.0.user_data, c.0.res))) {
                    Err(p) => {
                        rep.viol("C17/cq/panic", req, cap, flags_bits, &batch_log, &format!("get_next_cqe panicked: {p}"));
                        return false;
                    }
                    Ok(Some(c)) => got.push(c),
                    Ok(None) => break,
                }
            }
            if (got.len() as u64) < accepted {
                waits += 1;
                let missing = (accepted - got.len() as u64) as u32;
                // block in the kernel until the remaining completions are posted (no timing involved)
                if let Err(e) = io_uring_enter(g.ring.fd, 0, missing.min(1), IoUringEnterFlags::IORING_ENTER_GETEVENTS) {
                    vh::inconclusive(&format!("real: io_uring_enter(GETEVENTS) failed: {e:?}"));
                    return false;
                }
            }
        }
        // one more look: nothing beyond the batch may arrive
        while let Ok(Some(c)) = vh::catch(|| g.ring.get_next_cqe().map(|c| (c.0.user_data, c.0.res))) {
            got.push(c);
        }
        tot.batches += 1;
        tot.ops += batch.len() as u64;
        ring_ops += batch.len() as u64;
        let describe = |v: &[u64]| -> String {
            v.iter().map(|s| format!("#{}", s.wrapping_sub(SEQ_BASE + (u64::from(req) << 32)))).collect::<Vec<_>>().join(",")
        };
        let got_ud: Vec<u64> = got.iter().map(|c| c.0).collect();
        if got_ud != batch {
            let mut cnt: BTreeMap<u64, i64> = BTreeMap::new();
            for s in &batch {
                *cnt.entry(*s).or_insert(0) -= 1;
            }
            for s in &got_ud {
                *cnt.entry(*s).or_insert(0) += 1;
            }
            let twice: Vec<u64> = cnt.iter().filter(|(s, c)| **c > 0 && (batch.contains(s) || **s < g.next_seq && **s >= SEQ_BASE + (u64::from(req) << 32))).map(|(s, _)| *s).collect();
            let missing: Vec<u64> = cnt.iter().filter(|(_, c)| **c < 0).map(|(s, _)| *s).collect();
            let unknown: Vec<u64> = cnt.iter().filter(|(s, c)| **c > 0 && !(**s < g.next_seq && **s >= SEQ_BASE + (u64::from(req) << 32))).map(|(s, _)| *s).collect();
            let sig = if !unknown.is_empty() {
                "C17/real-kernel/completion-unknown"
            } else if !twice.is_empty() {
                "C17/real-kernel/entry-completed-twice"
            } else if !missing.is_empty() {
                "C17/real-kernel/entry-never-completed"
            } else {
                "C17/real-kernel/completions-out-of-order"
            };
            rep.viol(
                sig,
                req,
                cap,
                flags_bits,
                &batch_log,
                &format!(
                    "ring position {}..{} (lap {}): submitted [{}], completions carry [{}]; extra/twice [{}], missing [{}], unknown {:x?}",
                    g.handed - batch.len() as u64,
                    g.handed,
                    (g.handed - 1) / u64::from(cap.max(1)),
                    describe(&batch),
                    describe(&got_ud),
                    describe(&twice),
                    describe(&missing),
                    unknown
                ),
            );
            return false;
        }
        tot.unexpected_res += got.iter().filter(|c| c.1 != -9).count() as u64;
    }
    let laps = g.handed / u64::from(cap.max(1));
    tot.laps += laps;
    let p = super::profile();
    vh::distinct(&format!(
        "{p}/real/requested{req}/slots{cap}/flags{flags_bits}/{}",
        if req.is_power_of_two() { "pow2" } else { "rounded-up" }
    ));
    if laps >= 3 {
        vh::distinct(&format!("{p}/real/requested{req}/laps>=3"));
    }
    if tot.rings % 9 == 1 {
        vh::sample(
            &format!(
                "{{\"mode\":\"real kernel\",\"requested_entries\":{req},\"sq_slots_observed\":{cap},\"setup_flags\":{flags_bits},\"profile\":{},\"ops\":{},\"laps\":{laps},\"last_batch\":{},\"outcome\":\"every batch: completions == submissions, in order\"}}",
                vh::js(p),
                g.handed,
                vh::js(&batch_log)
            ),
            2,
        );
    }
    true
}

/// SQPOLL ring on the real kernel, sq_thread_idle = 1 ms: after 20 ms of silence the poll thread
/// sleeps.  The application then submits the way io_uring_enter(2) prescribes for such rings: fill,
/// flush, and enter with IORING_ENTER_SQ_WAKEUP only if the wrapper's `needs_wakeup()` says so.
/// The entry has to complete.  A miss is decided by a probe: the harness itself enters with
/// SQ_WAKEUP; if the completion arrives now, the thread was asleep while the wrapper said "awake".
fn real_sqpoll_idle(rep: &mut Rep, rounds: u64) {
    use std::time::{Duration, Instant};
    let mut ring = match setup_io_uring(4, IoUringParamFlags::IORING_SETUP_SQPOLL, 0, 1) {
        Ok(r) => r,
        Err(_) => {
            vh::count("real_sqpoll_rings_skipped_setup_refused", 1);
            return;
        }
    };
    let wait = |ring: &mut IoUring, ms: u64| -> Option<u64> {
        let end = Instant::now() + Duration::from_millis(ms);
        loop {
            if let Some(c) = ring.get_next_cqe() {
                return Some(c.0.user_data);
            }
            if Instant::now() >= end {
                return None;
            }
            std::thread::sleep(Duration::from_millis(1));
        }
    };
    let (mut said_yes, mut said_no_completed) = (0u64, 0u64);
    for round in 0..rounds {
        std::thread::sleep(Duration::from_millis(20));
        let ud = SEQ_BASE + 0x5900 + round;
        let Some(ptr) = ring.get_next_sqe_slot() else {
            vh::inconclusive("real sqpoll: no free submission slot");
            return;
        };
        unsafe {
            ptr.write(IoUringSubmissionQueueEntry::new_close(Fd::try_new(BAD_FD).unwrap(), ud, IoUringSQEFlags::empty()));
        }
        ring.flush_submission_queue();
        let nw = ring.needs_wakeup();
        if nw {
            said_yes += 1;
            if let Err(e) = io_uring_enter(ring.fd, 0, 0, IoUringEnterFlags::IORING_ENTER_SQ_WAKEUP) {
                vh::inconclusive(&format!("real sqpoll: io_uring_enter(SQ_WAKEUP) failed: {e:?}"));
                return;
            }
        }
        let t0 = Instant::now();
        match wait(&mut ring, 1000) {
            Some(got) if got == ud => {
                if !nw {
                    said_no_completed += 1;
                }
            }
            Some(got) => {
                rep.viol("C17/sqpoll/real-kernel-wrong-completion", 4, 4, 2, &format!("round {round}"),
                    &format!("submitted user_data {ud:#x}, next completion carries {got:#x}"));
                return;
            }
            None if nw => {
                vh::inconclusive("real sqpoll: no completion within 1 s although the poll thread was woken");
                return;
            }
            None => {
                // the wrapper said no wakeup is needed and nothing happened for 1 s; is the thread asleep?
                let _ = io_uring_enter(ring.fd, 0, 0, IoUringEnterFlags::IORING_ENTER_SQ_WAKEUP);
                let t1 = Instant::now();
                match wait(&mut ring, 1000) {
                    Some(got) if got == ud => {
                        rep.viol("C17/sqpoll/idle-poll-thread-not-woken", 4, 4, 2, &format!("round {round}"),
                            &format!("SQPOLL ring with sq_thread_idle 1 ms, 20 ms without submissions: entry user_data {ud:#x} filled and flushed, needs_wakeup() returned false so no io_uring_enter was issued; not consumed for {} ms; the harness's own io_uring_enter(IORING_ENTER_SQ_WAKEUP) then made it complete after {} us: the poll thread was asleep with IORING_SQ_NEED_WAKEUP set",
                                (t1 - t0).as_millis(), t1.elapsed().as_micros()));
                    }
                    _ => vh::inconclusive("real sqpoll: no completion within 1 s, none after a wakeup from the harness either"),
                }
                return;
            }
        }
    }
    vh::count("real_sqpoll_rounds", rounds);
    vh::count("real_sqpoll_rounds_wrapper_asked_for_wakeup", said_yes);
    vh::count("real_sqpoll_rounds_no_wakeup_and_completed", said_no_completed);
}

pub fn mode_real(seed: u64, ops_per_ring: u64) {
    let mut r = Rng::new(seed ^ 0x5EA1);
    let mut rep = Rep {
        per_sig: BTreeMap::new(),
    };
    let mut tot = Tot::default();
    real_sqpoll_idle(&mut rep, if ops_per_ring > 1000 { 12 } else { 4 });
    for &req in &[1u32, 2, 3, 4, 5, 6, 7, 8, 9, 12, 24, 33, 100] {
        for flags in [0u32, 6] {
            // at least five laps around the ring
            let target = ops_per_ring.max(5 * u64::from(req.next_power_of_two()) + 3);
            run_ring(&mut r, req, flags, target, &mut rep, &mut tot);
        }
    }
    vh::eval(tot.batches);
    vh::count("real_rings", tot.rings);
    vh::count("real_rings_skipped_flags_refused", tot.rings_skipped_flags);
    vh::count("real_ops", tot.ops);
    vh::count("real_batches", tot.batches);
    vh::count("real_ring_laps", tot.laps);
    vh::count("obs_real_get_none_with_free_slots", tot.none_with_free);
    vh::count("real_get_none_ring_full", tot.none_when_full);
    vh::count("obs_real_result_not_ebadf", tot.unexpected_res);
    vh::count("obs_real_slots_ne_next_power_of_two", tot.cap_ne_pow2);
    for (s, n) in &rep.per_sig {
        vh::count(&format!("violating_rings[{s}]"), *n);
    }
}
