//! C17 harness: rusl's io_uring ring wrapper (`get_next_sqe_slot`, `flush_submission_queue`,
//! `get_next_cqe`) against a simulated kernel that plays the other side of both rings over
//! ordinary harness memory (hook `IoUring::verif_from_raw_parts`).
//!
//! modes (argv: <mode> <seed> <budget> rest...):
//!   rand   <seed> <runs> [shard nshards]          random interleavings, systematic over (size, starts)
//!   exh    <seed> <len>  e cqe sq0 cq0 flags sqf cqf   all 5^len sequences over {G,F,R,C1,P1}, drain after each
//!   real   <seed> <ops per ring>            real kernel: rings from setup_io_uring, see real.rs
//!   mt     <seed> <rings> <kind 0|1|2>        two threads (Miri data-race oracle), see mt.rs
//!   replay <seed> 0      e cqe sq0 cq0 flags sqf cqf steps   one scripted run with a trace on stderr
//! flags: bit0 SQPOLL, bit1 SQE128, bit2 CQE32.  steps: comma separated G,F,R,C<k>,P<k>.
mod mt;
mod real;
use rusl::platform::{
    Fd, IoUring, IoUringCompletionQueueEntry, IoUringParamFlags, IoUringSubmissionQueueEntry,
    VerifRingParts,
};
use std::alloc::{alloc_zeroed, dealloc, Layout};
use std::collections::BTreeMap;
use std::mem::ManuallyDrop;
use std::sync::atomic::{AtomicU32, Ordering};
use vh::Rng;

const RZ: usize = if cfg!(miri) { 0 } else { 64 };
const RZ_BYTE: u8 = 0xA5;
const SQ_SEQ_BASE: u64 = 0x5151_0000_0000_0001;
const CQ_SEQ_BASE: u64 = 0xC0C0_0000_0000_0001;

#[derive(Clone, Copy, Debug, PartialEq, Eq)]
struct Cfg {
    e: u32,
    cqe: u32,
    sq0: u32,
    cq0: u32,
    flags: u32,
    /// entries already filled+flushed and not yet consumed when the run starts (sq tail = sq0 + sqf)
    sqf: u32,
    /// completions already posted and not yet reaped when the run starts (cq tail = cq0 + cqf)
    cqf: u32,
}
impl Cfg {
    fn valid(&self) -> bool {
        self.e.is_power_of_two()
            && self.e <= 8
            && self.cqe.is_power_of_two()
            && self.cqe <= 16
            && self.sqf <= self.e
            && self.cqf <= self.cqe
            && self.flags < 8
    }
    fn sqpoll(&self) -> bool {
        self.flags & 1 != 0
    }
    fn sqe128(&self) -> bool {
        self.flags & 2 != 0
    }
    fn cqe32(&self) -> bool {
        self.flags & 4 != 0
    }
    fn sq_stride(&self) -> usize {
        64 << usize::from(self.sqe128())
    }
    fn cq_stride(&self) -> usize {
        16 << usize::from(self.cqe32())
    }
    fn json(&self) -> String {
        format!(
            "{{\"sq_entries\":{},\"cq_entries\":{},\"sq_head_start\":{},\"cq_head_start\":{},\"sq_prefilled\":{},\"cq_prefilled\":{},\"sqpoll\":{},\"sqe128\":{},\"cqe32\":{}}}",
            self.e,
            self.cqe,
            self.sq0,
            self.cq0,
            self.sqf,
            self.cqf,
            self.sqpoll(),
            self.sqe128(),
            self.cqe32()
        )
    }
}

#[derive(Clone, Copy, Debug, PartialEq, Eq)]
enum Step {
    Get,
    Flush,
    Reap,
    Consume(u32),
    Post(u32),
    /// SQPOLL ring: the kernel poll thread found nothing to do for sq_thread_idle and goes to sleep
    /// (sets IORING_SQ_NEED_WAKEUP in the shared sq flags word, consumes nothing until woken)
    Idle,
    /// the kernel sets the unrelated bits of the sq flags word (IORING_SQ_CQ_OVERFLOW=2, IORING_SQ_TASKRUN=4) to k
    Noise(u32),
}
const SQ_NEED_WAKEUP: u32 = 1;
fn steps_str(s: &[Step]) -> String {
    let mut o = String::new();
    for (i, st) in s.iter().enumerate() {
        if i > 0 {
            o.push(',');
        }
        match st {
            Step::Get => o.push('G'),
            Step::Flush => o.push('F'),
            Step::Reap => o.push('R'),
            Step::Consume(k) => o.push_str(&format!("C{k}")),
            Step::Post(k) => o.push_str(&format!("P{k}")),
            Step::Idle => o.push('I'),
            Step::Noise(k) => o.push_str(&format!("N{k}")),
        }
    }
    o
}
fn parse_steps(s: &str) -> Vec<Step> {
    s.split(',')
        .filter(|t| !t.is_empty())
        .map(|t| {
            let (h, r) = t.split_at(1);
            let k = r.parse().unwrap_or(1);
            match h {
                "G" => Step::Get,
                "F" => Step::Flush,
                "R" => Step::Reap,
                "C" => Step::Consume(k),
                "I" => Step::Idle,
                "N" => Step::Noise(k & 6),
                _ => Step::Post(k),
            }
        })
        .collect()
}

struct Region {
    p: *mut u8,
    layout: Layout,
}
impl Region {
    fn new(size: usize, align: usize) -> Self {
        let layout = Layout::from_size_align(size, align).unwrap();
        let p = unsafe { alloc_zeroed(layout) };
        assert!(!p.is_null());
        Region { p, layout }
    }
    fn zero(&self) {
        unsafe { std::ptr::write_bytes(self.p, 0, self.layout.size()) }
    }
    fn a32(&self) -> *mut AtomicU32 {
        self.p.cast()
    }
}
impl Drop for Region {
    fn drop(&mut self) {
        unsafe { dealloc(self.p, self.layout) }
    }
}

/// Every shared word in its own allocation, the entry arrays exactly as large as the
/// protocol says (so Miri sees any index/stride error as an out-of-bounds access);
/// natively the arrays additionally get content-checked red zones.
struct Mem {
    sq_khead: Region,
    sq_ktail: Region,
    sq_kflags: Region,
    sq_kdropped: Region,
    sq_array: Region,
    sqes: Region,
    cq_khead: Region,
    cq_ktail: Region,
    cq_koverflow: Region,
    cqes: Region,
}
impl Mem {
    fn new(c: &Cfg) -> Self {
        Mem {
            sq_khead: Region::new(4, 4),
            sq_ktail: Region::new(4, 4),
            sq_kflags: Region::new(4, 4),
            sq_kdropped: Region::new(4, 4),
            sq_array: Region::new(4 * c.e as usize, 4),
            sqes: Region::new(2 * RZ + c.e as usize * c.sq_stride(), 64),
            cq_khead: Region::new(4, 4),
            cq_ktail: Region::new(4, 4),
            cq_koverflow: Region::new(4, 4),
            cqes: Region::new(2 * RZ + c.cqe as usize * c.cq_stride(), 64),
        }
    }
    fn sqes_base(&self) -> *mut u8 {
        unsafe { self.sqes.p.add(RZ) }
    }
    fn cqes_base(&self) -> *mut u8 {
        unsafe { self.cqes.p.add(RZ) }
    }
}

fn mix(mut z: u64) -> u64 {
    z = z.wrapping_add(0x9E37_79B9_7F4A_7C15);
    z = (z ^ (z >> 30)).wrapping_mul(0xBF58_476D_1CE4_E5B9);
    z = (z ^ (z >> 27)).wrapping_mul(0x94D0_49BB_1331_11EB);
    z ^ (z >> 31)
}
/// content of the entry with sequence number `seq`; `ud_off` = offset of user_data
fn pattern(seq: u64, ud_off: usize) -> [u8; 128] {
    let mut b = [0u8; 128];
    for (i, ch) in b.chunks_mut(8).enumerate() {
        ch.copy_from_slice(&mix(seq ^ ((i as u64) << 56)).to_le_bytes());
    }
    b[ud_off..ud_off + 8].copy_from_slice(&seq.to_le_bytes());
    b
}

#[derive(Debug)]
struct Viol {
    sig: String,
    what: String,
    at: usize,
}
type Res = Result<(), (String, String)>;

const EV_SQ_WRAP: u32 = 1;
const EV_CQ_TAIL_WRAP: u32 = 2;
const EV_CQ_HEAD_WRAP: u32 = 4;
const EV_SQ_FULL: u32 = 8;
const EV_CQ_FULL: u32 = 16;
const EV_SQ_SIGN: u32 = 32; // crossed 2^31
const EV_CQ_SIGN: u32 = 64;

#[derive(Default, Clone)]
struct Stats {
    runs: u64,
    steps: u64,
    gets_some: u64,
    gets_none_full: u64,
    gets_none_with_free: u64,
    flushes: u64,
    flush_ret_ne_pending: u64,
    consumed: u64,
    consumed_unflushed: u64,
    posted: u64,
    post_refused_cq_full: u64,
    reaped: u64,
    reap_none_empty: u64,
    sq_wraps: u64,
    cq_tail_wraps: u64,
    cq_head_wraps: u64,
    sq_full_states: u64,
    cq_full_states: u64,
    runs_with_violation: u64,
    wakeup_checks: u64,
    poll_idle_entered: u64,
    poll_wakeups: u64,
    consume_skipped_poll_idle: u64,
    wakeup_checks_with_other_bits: u64,
    superfluous_wakeups: u64,
}

struct Sim {
    cfg: Cfg,
    mem: Mem,
    ring: ManuallyDrop<IoUring>,
    // model of the submission side
    sq_state: [u8; 8], // 0 free, 1 handed out + filled, not flushed, 2 flushed (kernel-owned)
    sq_stamp: [u64; 8],
    handed: u64,
    flushed: u64,
    consumed: u64,
    k_sq_head: u32, // the kernel's private copy
    // completion side
    posted: u64,
    reaped: u64,
    k_cq_tail: u32,
    events: u32,
    trace: bool,
    /// SQPOLL: the simulated poll thread sleeps (NEED_WAKEUP is set in the shared flags word)
    poll_idle: bool,
}

impl Sim {
    fn new(cfg: Cfg) -> Self {
        let mem = Mem::new(&cfg);
        let ring = Self::mk_ring(&cfg, &mem);
        let mut s = Sim {
            cfg,
            mem,
            ring: ManuallyDrop::new(ring),
            sq_state: [0; 8],
            sq_stamp: [0; 8],
            handed: 0,
            flushed: 0,
            consumed: 0,
            k_sq_head: 0,
            posted: 0,
            reaped: 0,
            k_cq_tail: 0,
            events: 0,
            trace: false,
            poll_idle: false,
        };
        s.reset();
        s
    }

    fn mk_ring(cfg: &Cfg, mem: &Mem) -> IoUring {
        let mut flags = IoUringParamFlags::empty();
        if cfg.sqpoll() {
            flags = flags | IoUringParamFlags::IORING_SETUP_SQPOLL;
        }
        if cfg.sqe128() {
            flags = flags | IoUringParamFlags::IORING_SETUP_SQE128;
        }
        if cfg.cqe32() {
            flags = flags | IoUringParamFlags::IORING_SETUP_CQE32;
        }
        unsafe {
            IoUring::verif_from_raw_parts(VerifRingParts {
                fd: Fd::try_new(0).unwrap(),
                flags,
                sq_khead: mem.sq_khead.a32(),
                sq_ktail: mem.sq_ktail.a32(),
                sq_kflags: mem.sq_kflags.a32(),
                sq_kdropped: mem.sq_kdropped.a32(),
                sq_karray: mem.sq_array.a32(),
                sq_local_head: cfg.sq0.wrapping_add(cfg.sqf),
                sq_local_tail: cfg.sq0.wrapping_add(cfg.sqf),
                sq_ring_mask: cfg.e - 1,
                sq_ring_entries: cfg.e,
                sqes: mem.sqes_base().cast::<IoUringSubmissionQueueEntry>(),
                cq_khead: mem.cq_khead.a32(),
                cq_ktail: mem.cq_ktail.a32(),
                cq_koverflow: mem.cq_koverflow.a32(),
                cq_ring_mask: cfg.cqe - 1,
                cq_ring_entries: cfg.cqe,
                cqes: mem.cqes_base().cast::<IoUringCompletionQueueEntry>(),
            })
        }
    }

    /// Bring memory, ring value and model back to "fresh ring whose counters stand at the
    /// chosen start values" (what the ring looks like after start-value many operations).
    fn reset(&mut self) {
        let c = self.cfg;
        let m = &self.mem;
        for r in [
            &m.sq_khead,
            &m.sq_ktail,
            &m.sq_kflags,
            &m.sq_kdropped,
            &m.sq_array,
            &m.sqes,
            &m.cq_khead,
            &m.cq_ktail,
            &m.cq_koverflow,
            &m.cqes,
        ] {
            r.zero();
        }
        unsafe {
            if RZ > 0 {
                for r in [&m.sqes, &m.cqes] {
                    std::ptr::write_bytes(r.p, RZ_BYTE, RZ);
                    std::ptr::write_bytes(r.p.add(r.layout.size() - RZ), RZ_BYTE, RZ);
                }
            }
            (*m.sq_khead.a32()).store(c.sq0, Ordering::Relaxed);
            (*m.sq_ktail.a32()).store(c.sq0.wrapping_add(c.sqf), Ordering::Relaxed);
            (*m.cq_khead.a32()).store(c.cq0, Ordering::Relaxed);
            (*m.cq_ktail.a32()).store(c.cq0, Ordering::Relaxed);
            // as rusl::io_uring::setup_io_uring does ("Map SQ-slots to SQEs, like in liburing");
            // the wrapper never touches the array afterwards
            for i in 0..c.e {
                (*m.sq_array.a32().add(i as usize)).store(i, Ordering::Release);
            }
        }
        // the old value is forgotten, never dropped (its Drop would munmap/close)
        self.ring = ManuallyDrop::new(Self::mk_ring(&c, &self.mem));
        self.sq_state = [0; 8];
        self.sq_stamp = [0; 8];
        self.handed = 0;
        self.flushed = 0;
        self.consumed = 0;
        self.k_sq_head = c.sq0;
        self.posted = 0;
        self.reaped = 0;
        self.k_cq_tail = c.cq0;
        self.events = 0;
        self.poll_idle = false;
        // entries in flight at the start: written the way the application / kernel would have
        // (the wrapper itself is not involved: in a debug build it cannot get past the wrap)
        for i in 0..c.sqf {
            let idx = (c.sq0.wrapping_add(i) & (c.e - 1)) as usize;
            let seq = SQ_SEQ_BASE + u64::from(i);
            let pat = pattern(seq, 32);
            let stride = c.sq_stride();
            unsafe {
                std::ptr::copy_nonoverlapping(
                    pat.as_ptr(),
                    self.mem.sqes_base().add(idx * stride),
                    stride,
                );
            }
            self.sq_state[idx] = 2;
            self.sq_stamp[idx] = seq;
        }
        self.handed = u64::from(c.sqf);
        self.flushed = self.handed;
        if c.cqf > 0 {
            let mut scratch = Stats::default();
            let _ = self.k_post(c.cqf, &mut scratch);
        }
    }

    fn sq_in_use(&self) -> u64 {
        self.handed - self.consumed
    }
    fn cq_in_flight(&self) -> u64 {
        self.posted - self.reaped
    }

    // ------------------------------------------------------------------ application side
    fn app_get(&mut self, st: &mut Stats) -> Res {
        let (_, lt) = self.ring.verif_sq_local();
        let khead = self.k_sq_head;
        let ring: &mut IoUring = &mut self.ring;
        let r = vh::catch(|| ring.get_next_sqe_slot());
        let in_use = self.sq_in_use();
        match r {
            Err(p) => {
                let at_wrap = lt == u32::MAX || lt.wrapping_add(1) < khead;
                let sig = if at_wrap {
                    "C17/sq/panic-at-wrap"
                } else {
                    "C17/sq/panic"
                };
                Err((
                    sig.into(),
                    format!("get_next_sqe_slot panicked ({p}) with local tail {lt}, kernel head {khead}, {in_use} of {} slots in use", self.cfg.e),
                ))
            }
            Ok(None) => {
                if in_use < u64::from(self.cfg.e) {
                    st.gets_none_with_free += 1;
                } else {
                    st.gets_none_full += 1;
                    self.events |= EV_SQ_FULL;
                }
                if self.trace {
                    eprintln!("  G -> None (in use {in_use})");
                }
                Ok(())
            }
            Ok(Some(ptr)) => {
                let stride = self.cfg.sq_stride();
                let base = self.mem.sqes_base() as usize;
                let addr = ptr as usize;
                if addr < base
                    || (addr - base) % stride != 0
                    || (addr - base) / stride >= self.cfg.e as usize
                {
                    return Err((
                        "C17/sq/slot-out-of-range".into(),
                        format!("get_next_sqe_slot returned base{:+} (stride {stride}, {} entries) at local tail {lt}", addr as i64 - base as i64, self.cfg.e),
                    ));
                }
                let idx = (addr - base) / stride;
                if self.sq_state[idx] != 0 {
                    let own = if self.sq_state[idx] == 2 {
                        "flushed and not yet consumed by the kernel"
                    } else {
                        "handed out earlier and not yet flushed"
                    };
                    return Err((
                        "C17/sq/slot-reused-before-consumed".into(),
                        format!("slot {idx} handed out at local tail {lt} (kernel head {khead}) while it still holds entry seq#{} that is {own}", self.sq_stamp[idx].wrapping_sub(SQ_SEQ_BASE)),
                    ));
                }
                let seq = SQ_SEQ_BASE + self.handed;
                let pat = pattern(seq, 32);
                // the application fills the entry through the pointer it was handed
                unsafe { std::ptr::copy_nonoverlapping(pat.as_ptr(), ptr.cast::<u8>(), stride) };
                self.sq_state[idx] = 1;
                self.sq_stamp[idx] = seq;
                self.handed += 1;
                st.gets_some += 1;
                if lt == u32::MAX {
                    self.events |= EV_SQ_WRAP;
                    st.sq_wraps += 1;
                }
                if lt == 0x7fff_ffff {
                    self.events |= EV_SQ_SIGN;
                }
                if self.sq_in_use() == u64::from(self.cfg.e) {
                    if self.events & EV_SQ_FULL == 0 {
                        st.sq_full_states += 1;
                    }
                    self.events |= EV_SQ_FULL;
                }
                if self.trace {
                    eprintln!("  G -> slot {idx} seq#{} (local tail {lt}->{})", self.handed - 1, lt.wrapping_add(1));
                }
                Ok(())
            }
        }
    }

    fn app_flush(&mut self, st: &mut Stats) -> Res {
        let (_, lt) = self.ring.verif_sq_local();
        let khead = self.k_sq_head;
        let ring: &mut IoUring = &mut self.ring;
        let r = vh::catch(|| ring.flush_submission_queue());
        match r {
            Err(p) => {
                let sig = if lt < khead {
                    "C17/flush/panic-at-wrap"
                } else {
                    "C17/flush/panic"
                };
                Err((
                    sig.into(),
                    format!("flush_submission_queue panicked ({p}) with local tail {lt}, kernel head {khead}"),
                ))
            }
            Ok(ret) => {
                for s in self.sq_state.iter_mut() {
                    if *s == 1 {
                        *s = 2;
                    }
                }
                self.flushed = self.handed;
                st.flushes += 1;
                let ktail = unsafe { (*self.mem.sq_ktail.a32()).load(Ordering::Relaxed) };
                let visible = u64::from(ktail.wrapping_sub(self.k_sq_head));
                let pending = self.flushed - self.consumed;
                if self.trace {
                    eprintln!("  F -> {ret} (shared tail {ktail}, kernel-visible {visible}, model pending {pending})");
                }
                if visible != pending {
                    return Err((
                        "C17/flush/not-published".into(),
                        format!("after flush the shared tail is {ktail}, kernel head {}: kernel sees {visible} entries, {pending} were filled and flushed", self.k_sq_head),
                    ));
                }
                if u64::from(ret) != pending {
                    // the return value is the wrapper's only way to tell the caller how many
                    // entries to pass to io_uring_enter
                    st.flush_ret_ne_pending += 1;
                    return Err((
                        "C17/flush/return-not-pending-count".into(),
                        format!("flush_submission_queue returned {ret}; {pending} published entries are not yet consumed by the kernel (shared tail {ktail}, kernel head {})", self.k_sq_head),
                    ));
                }
                self.app_wakeup_protocol(st)
            }
        }
    }

    /// What an application does after publishing entries (io_uring_enter(2), liburing's submit):
    /// ask the wrapper whether the SQPOLL thread sleeps and, if so, enter with IORING_ENTER_SQ_WAKEUP
    /// (modelled: the thread clears IORING_SQ_NEED_WAKEUP and polls again).  rusl has no submit
    /// helper of its own, `IoUring::needs_wakeup` is the whole library side of the protocol.
    fn app_wakeup_protocol(&mut self, st: &mut Stats) -> Res {
        let kflags = unsafe { &*self.mem.sq_kflags.a32() };
        let word = kflags.load(Ordering::Relaxed);
        let ring: &IoUring = &self.ring;
        let nw = match vh::catch(|| ring.needs_wakeup()) {
            Ok(b) => b,
            Err(p) => return Err(("C17/sqpoll/panic".into(), format!("needs_wakeup panicked ({p}) with sq flags word {word:#x}"))),
        };
        st.wakeup_checks += 1;
        if word & !SQ_NEED_WAKEUP != 0 {
            st.wakeup_checks_with_other_bits += 1;
        }
        let pending = self.flushed - self.consumed;
        if self.trace {
            eprintln!("  needs_wakeup -> {nw} (sq flags word {word:#x}, poll thread idle {}, {pending} flushed entries unconsumed)", self.poll_idle);
        }
        if self.poll_idle && !nw {
            return Err((
                "C17/sqpoll/idle-poll-thread-not-woken".into(),
                format!("the SQ poll thread sleeps (shared sq flags word {word:#x}, IORING_SQ_NEED_WAKEUP set) with {pending} flushed entries unconsumed (kernel head {}, shared tail {}), needs_wakeup() returned false: no io_uring_enter(IORING_ENTER_SQ_WAKEUP) is issued, the entries are never consumed",
                    self.k_sq_head, unsafe { (*self.mem.sq_ktail.a32()).load(Ordering::Relaxed) }),
            ));
        }
        if !self.poll_idle && nw {
            // a superfluous wake-up costs a system call but loses or duplicates nothing: observed, not judged
            st.superfluous_wakeups += 1;
        }
        if nw {
            // io_uring_enter(IORING_ENTER_SQ_WAKEUP): the thread wakes, clears the bit, polls again
            kflags.fetch_and(!SQ_NEED_WAKEUP, Ordering::Release);
            self.poll_idle = false;
            st.poll_wakeups += 1;
        }
        Ok(())
    }

    fn k_idle(&mut self, st: &mut Stats) {
        if !self.cfg.sqpoll() || self.poll_idle {
            return;
        }
        // io_sq_thread: sets the bit, looks at the ring once more, sleeps only if it is still empty
        let tail = unsafe { (*self.mem.sq_ktail.a32()).load(Ordering::Acquire) };
        if tail != self.k_sq_head {
            return;
        }
        unsafe { (*self.mem.sq_kflags.a32()).fetch_or(SQ_NEED_WAKEUP, Ordering::Release) };
        self.poll_idle = true;
        st.poll_idle_entered += 1;
        if self.trace {
            eprintln!("  I -> poll thread sleeps, NEED_WAKEUP set");
        }
    }

    fn k_noise(&mut self, k: u32) {
        let f = unsafe { &*self.mem.sq_kflags.a32() };
        let cur = f.load(Ordering::Relaxed);
        f.store((cur & SQ_NEED_WAKEUP) | (k & 6), Ordering::Release);
        if self.trace {
            eprintln!("  N{k} -> sq flags word {:#x}", (cur & SQ_NEED_WAKEUP) | (k & 6));
        }
    }

    fn app_reap(&mut self, st: &mut Stats) -> Res {
        let stride = self.cfg.cq_stride();
        let base = self.mem.cqes_base();
        let head_before = unsafe { (*self.mem.cq_khead.a32()).load(Ordering::Relaxed) };
        let ktail = self.k_cq_tail;
        let ring: &mut IoUring = &mut self.ring;
        // reap = call + copy of the entry, one step (call granularity)
        let r = vh::catch(|| {
            ring.get_next_cqe().map(|c| {
                (
                    std::ptr::from_ref(c) as usize,
                    c.0.user_data,
                    c.0.res,
                    c.0.flags,
                )
            })
        });
        let in_flight = self.cq_in_flight();
        match r {
            Err(p) => Err((
                "C17/cq/panic".into(),
                format!("get_next_cqe panicked ({p}) with cq head {head_before}, tail {ktail}"),
            )),
            Ok(None) => {
                if self.trace {
                    eprintln!("  R -> None (posted-unreaped {in_flight}, head {head_before}, tail {ktail})");
                }
                if in_flight > 0 {
                    let sig = if ktail < head_before {
                        "C17/cq/none-with-pending-after-wrap"
                    } else {
                        "C17/cq/none-with-pending"
                    };
                    return Err((
                        sig.into(),
                        format!("get_next_cqe returned None although {in_flight} posted completions are unreaped (cq head {head_before}, tail {ktail})"),
                    ));
                }
                st.reap_none_empty += 1;
                Ok(())
            }
            Ok(Some((addr, ud, res, fl))) => {
                let b = base as usize;
                if addr < b || (addr - b) % stride != 0 || (addr - b) / stride >= self.cfg.cqe as usize {
                    return Err((
                        "C17/cq/entry-out-of-range".into(),
                        format!("get_next_cqe returned base{:+} (stride {stride}, {} entries) at head {head_before}", addr as i64 - b as i64, self.cfg.cqe),
                    ));
                }
                let idx = (addr - b) / stride;
                let want_seq = CQ_SEQ_BASE + self.reaped;
                if in_flight == 0 {
                    return Err((
                        "C17/cq/returned-without-pending".into(),
                        format!("get_next_cqe returned slot {idx} (user_data {ud:#x}) although every posted completion was already reaped (head {head_before}, tail {ktail})"),
                    ));
                }
                if ud != want_seq {
                    let d = ud.wrapping_sub(CQ_SEQ_BASE);
                    let sig = if d < self.reaped {
                        "C17/cq/duplicate-or-reordered"
                    } else if d < self.posted {
                        "C17/cq/skipped"
                    } else {
                        "C17/cq/wrong-content"
                    };
                    return Err((
                        sig.into(),
                        format!("get_next_cqe returned slot {idx} with user_data {ud:#x}; next unreaped completion is seq#{} ({want_seq:#x}); head {head_before}, tail {ktail}", self.reaped),
                    ));
                }
                let pat = pattern(want_seq, 0);
                let mut got = [0u8; 32];
                unsafe { std::ptr::copy_nonoverlapping(base.add(idx * stride), got.as_mut_ptr(), stride) };
                let res_w = i32::from_le_bytes(pat[8..12].try_into().unwrap());
                let fl_w = u32::from_le_bytes(pat[12..16].try_into().unwrap());
                if got[..stride] != pat[..stride] || res != res_w || fl != fl_w {
                    return Err((
                        "C17/cq/wrong-content".into(),
                        format!("completion seq#{} in slot {idx}: content differs from what the kernel wrote (res {res} want {res_w}, flags {fl:#x} want {fl_w:#x})", self.reaped),
                    ));
                }
                self.reaped += 1;
                st.reaped += 1;
                if head_before == u32::MAX {
                    self.events |= EV_CQ_HEAD_WRAP;
                    st.cq_head_wraps += 1;
                }
                if self.trace {
                    eprintln!("  R -> slot {idx} seq#{} (head {head_before}->{})", self.reaped - 1, head_before.wrapping_add(1));
                }
                Ok(())
            }
        }
    }

    // ------------------------------------------------------------------ kernel side
    fn k_consume(&mut self, k: u32, st: &mut Stats) -> Res {
        let c = self.cfg;
        if self.poll_idle {
            // nobody submits on this ring until the application enters with SQ_WAKEUP
            st.consume_skipped_poll_idle += 1;
            if self.trace {
                eprintln!("  C{k} -> nothing, poll thread sleeps");
            }
            return Ok(());
        }
        let tail = unsafe { (*self.mem.sq_ktail.a32()).load(Ordering::Acquire) };
        let visible = tail.wrapping_sub(self.k_sq_head);
        if visible > c.e {
            return Err((
                "C17/sq/kernel-sees-overfull".into(),
                format!("shared sq tail {tail} is {visible} ahead of the kernel head {} on a ring of {}", self.k_sq_head, c.e),
            ));
        }
        let n = k.min(visible);
        for _ in 0..n {
            let slot = (self.k_sq_head & (c.e - 1)) as usize;
            let idx = unsafe { (*self.mem.sq_array.a32().add(slot)).load(Ordering::Relaxed) } as usize;
            if idx >= c.e as usize {
                return Err((
                    "C17/sq/array-index-out-of-range".into(),
                    format!("sq_array[{slot}] = {idx}"),
                ));
            }
            let stride = c.sq_stride();
            let mut got = [0u8; 128];
            unsafe {
                std::ptr::copy_nonoverlapping(self.mem.sqes_base().add(idx * stride), got.as_mut_ptr(), stride);
            }
            let ud = u64::from_le_bytes(got[32..40].try_into().unwrap());
            let want = SQ_SEQ_BASE + self.consumed;
            if self.sq_state[idx] == 0 {
                return Err((
                    "C17/sq/consumed-free-slot".into(),
                    format!("kernel head {} reaches slot {idx} which holds no unconsumed entry (user_data {ud:#x}): an entry would be consumed twice or before it was filled", self.k_sq_head),
                ));
            }
            if ud != want {
                return Err((
                    "C17/sq/out-of-order".into(),
                    format!("kernel head {} reads slot {idx} with entry seq#{}; the next entry in submission order is seq#{}", self.k_sq_head, ud.wrapping_sub(SQ_SEQ_BASE), self.consumed),
                ));
            }
            if got[..stride] != pattern(want, 32)[..stride] {
                return Err((
                    "C17/sq/wrong-content".into(),
                    format!("entry seq#{} in slot {idx} differs from what the application filled in", self.consumed),
                ));
            }
            if self.sq_state[idx] == 1 {
                st.consumed_unflushed += 1;
            }
            self.sq_state[idx] = 0;
            self.consumed += 1;
            st.consumed += 1;
            self.k_sq_head = self.k_sq_head.wrapping_add(1);
            unsafe { (*self.mem.sq_khead.a32()).store(self.k_sq_head, Ordering::Release) };
        }
        if self.trace {
            eprintln!("  C{k} -> consumed {n} (kernel head {}, shared tail {tail})", self.k_sq_head);
        }
        Ok(())
    }

    fn k_post(&mut self, k: u32, st: &mut Stats) -> Res {
        let c = self.cfg;
        let mut done = 0;
        for _ in 0..k {
            let head = unsafe { (*self.mem.cq_khead.a32()).load(Ordering::Acquire) };
            let used = self.k_cq_tail.wrapping_sub(head);
            if used > c.cqe {
                return Err((
                    "C17/cq/head-past-tail".into(),
                    format!("shared cq head {head} vs kernel tail {}: {used} entries in a ring of {}", self.k_cq_tail, c.cqe),
                ));
            }
            if used == c.cqe {
                // completion ring full: the kernel does not post (the real one parks the
                // completion on its overflow list); nothing is handed over
                st.post_refused_cq_full += 1;
                self.events |= EV_CQ_FULL;
                break;
            }
            let seq = CQ_SEQ_BASE + self.posted;
            let pat = pattern(seq, 0);
            let stride = c.cq_stride();
            let idx = (self.k_cq_tail & (c.cqe - 1)) as usize;
            unsafe { std::ptr::copy_nonoverlapping(pat.as_ptr(), self.mem.cqes_base().add(idx * stride), stride) };
            if self.k_cq_tail == u32::MAX {
                self.events |= EV_CQ_TAIL_WRAP;
                st.cq_tail_wraps += 1;
            }
            if self.k_cq_tail == 0x7fff_ffff {
                self.events |= EV_CQ_SIGN;
            }
            self.k_cq_tail = self.k_cq_tail.wrapping_add(1);
            unsafe { (*self.mem.cq_ktail.a32()).store(self.k_cq_tail, Ordering::Release) };
            self.posted += 1;
            st.posted += 1;
            done += 1;
            if used + 1 == c.cqe {
                if self.events & EV_CQ_FULL == 0 {
                    st.cq_full_states += 1;
                }
                self.events |= EV_CQ_FULL;
            }
        }
        if self.trace {
            eprintln!("  P{k} -> posted {done} (kernel tail {})", self.k_cq_tail);
        }
        Ok(())
    }

    fn step(&mut self, s: Step, st: &mut Stats) -> Res {
        st.steps += 1;
        match s {
            Step::Get => self.app_get(st),
            Step::Flush => self.app_flush(st),
            Step::Reap => self.app_reap(st),
            Step::Consume(k) => self.k_consume(k, st),
            Step::Post(k) => self.k_post(k, st),
            Step::Idle => {
                self.k_idle(st);
                Ok(())
            }
            Step::Noise(k) => {
                self.k_noise(k);
                Ok(())
            }
        }
    }

    fn redzones(&self) -> Res {
        if RZ == 0 {
            return Ok(());
        }
        for (name, r) in [("sqes", &self.mem.sqes), ("cqes", &self.mem.cqes)] {
            let s = unsafe { std::slice::from_raw_parts(r.p, r.layout.size()) };
            if s[..RZ].iter().any(|&b| b != RZ_BYTE) || s[s.len() - RZ..].iter().any(|&b| b != RZ_BYTE) {
                return Err((
                    "C17/mem/outside-ring-written".into(),
                    format!("bytes next to the {name} array changed"),
                ));
            }
        }
        Ok(())
    }

    /// Everything handed over so far must be able to arrive: flush, let the kernel consume
    /// all it sees, reap until every posted completion came back.
    fn drain(&mut self, st: &mut Stats) -> Res {
        if self.trace {
            eprintln!(" drain:");
        }
        self.step(Step::Flush, st)?;
        let mut guard = 0;
        while self.consumed < self.flushed && guard < 64 {
            let before = self.consumed;
            self.step(Step::Consume(self.cfg.e), st)?;
            if self.consumed == before {
                break;
            }
            guard += 1;
        }
        if self.consumed != self.flushed {
            return Err((
                "C17/sq/never-consumed".into(),
                format!("{} entries were filled and flushed, the kernel could consume only {}", self.flushed, self.consumed),
            ));
        }
        while self.reaped < self.posted {
            self.step(Step::Reap, st)?; // None with pending is reported inside
        }
        self.step(Step::Reap, st)?; // must be None now; Some is reported inside
        self.redzones()
    }

    /// one interleaving from a fresh ring; returns the violation, if any
    fn run(&mut self, steps: &[Step], st: &mut Stats) -> Option<Viol> {
        self.reset();
        st.runs += 1;
        for (i, &s) in steps.iter().enumerate() {
            if let Err((sig, what)) = self.step(s, st) {
                return Some(Viol { sig, what, at: i });
            }
        }
        if let Err((sig, what)) = self.drain(st) {
            return Some(Viol {
                sig,
                what,
                at: steps.len(),
            });
        }
        None
    }
}

// ---------------------------------------------------------------------------------------
fn start_values(entries: u32) -> Vec<u32> {
    let mut v = vec![0u32, 1];
    for d in -2i64..=2 {
        v.push((0x8000_0000i64 + d) as u32);
    }
    for k in (0..=2 * entries).rev() {
        v.push(u32::MAX - k);
    }
    v
}
fn start_class_idx(v: u32, entries: u32) -> u8 {
    ["0", "1", "2^31", "max", "max-k(k<=n)", "max-k(k<=2n)"]
        .iter()
        .position(|c| *c == start_class(v, entries))
        .unwrap_or(9) as u8
}
fn start_class(v: u32, entries: u32) -> &'static str {
    if v == 0 {
        "0"
    } else if v == 1 {
        "1"
    } else if (0x7fff_fffe..=0x8000_0002).contains(&v) {
        "2^31"
    } else if v == u32::MAX {
        "max"
    } else if u32::MAX - v <= entries {
        "max-k(k<=n)"
    } else {
        "max-k(k<=2n)"
    }
}

struct Reporter {
    per_sig: BTreeMap<String, u64>,
}
impl Reporter {
    fn report(&mut self, cfg: &Cfg, steps: &[Step], v: &Viol) {
        let n = self.per_sig.entry(v.sig.clone()).or_insert(0);
        *n += 1;
        if *n <= 2 {
            vh::viol(
                &v.sig,
                &format!(
                    "{{\"cfg\":{},\"profile\":{},\"steps\":{},\"failed_at_step\":{},\"what\":{}}}",
                    cfg.json(),
                    vh::js(profile()),
                    vh::js(&steps_str(&steps[..(v.at + 1).min(steps.len())])),
                    if v.at == steps.len() {
                        "\"drain\"".to_string()
                    } else {
                        v.at.to_string()
                    },
                    vh::js(&v.what)
                ),
            );
        }
    }
    fn finish(&self) {
        for (s, n) in &self.per_sig {
            vh::count(&format!("violating_runs[{s}]"), *n);
        }
    }
}
fn profile() -> &'static str {
    if vh::IS_MIRI {
        "miri"
    } else if cfg!(debug_assertions) {
        "debug"
    } else {
        "release"
    }
}

fn emit_stats(st: &Stats) {
    vh::eval(st.runs);
    vh::count("interleavings", st.runs);
    vh::count("steps", st.steps);
    vh::count("sq_slots_handed_out", st.gets_some);
    vh::count("sq_get_none_ring_full", st.gets_none_full);
    vh::count("obs_sq_get_none_with_free_slots", st.gets_none_with_free);
    vh::count("flushes", st.flushes);
    vh::count("flush_return_ne_pending", st.flush_ret_ne_pending);
    vh::count("kernel_consumed", st.consumed);
    vh::count("obs_kernel_consumed_before_flush", st.consumed_unflushed);
    vh::count("kernel_posted", st.posted);
    vh::count("kernel_post_refused_cq_full", st.post_refused_cq_full);
    vh::count("completions_reaped", st.reaped);
    vh::count("reap_none_when_empty", st.reap_none_empty);
    vh::count("sq_index_wraps_crossed", st.sq_wraps);
    vh::count("cq_tail_wraps_crossed", st.cq_tail_wraps);
    vh::count("cq_head_wraps_crossed", st.cq_head_wraps);
    vh::count("runs_reaching_sq_full", st.sq_full_states);
    vh::count("runs_reaching_cq_full", st.cq_full_states);
    vh::count("runs_with_violation", st.runs_with_violation);
    vh::count("needs_wakeup_checks", st.wakeup_checks);
    vh::count("needs_wakeup_checks_with_overflow_or_taskrun_bits_set", st.wakeup_checks_with_other_bits);
    vh::count("sqpoll_thread_went_idle", st.poll_idle_entered);
    vh::count("sqpoll_thread_woken_by_application", st.poll_wakeups);
    vh::count("wakeups_wanted_while_poll_thread_runs_not_judged", st.superfluous_wakeups);
    vh::count("kernel_consume_skipped_poll_thread_idle", st.consume_skipped_poll_idle);
}

fn note_cells(cfg: &Cfg, events: u32, violated: bool) {
    // formatting is the expensive part (very much so under Miri): only for unseen combinations
    static SEEN: std::sync::Mutex<std::collections::BTreeSet<(u32, u32, u8, u8, u32, u32, bool)>> =
        std::sync::Mutex::new(std::collections::BTreeSet::new());
    let key = (
        cfg.e,
        cfg.cqe,
        start_class_idx(cfg.sq0, cfg.e),
        start_class_idx(cfg.cq0, cfg.cqe),
        cfg.flags,
        events,
        violated,
    );
    if !SEEN.lock().unwrap().insert(key) {
        return;
    }
    let p = profile();
    vh::distinct(&format!(
        "{p}/n{}/cq{}/sq@{}/cq@{}",
        cfg.e,
        cfg.cqe,
        start_class(cfg.sq0, cfg.e),
        start_class(cfg.cq0, cfg.cqe)
    ));
    vh::distinct(&format!("{p}/n{}/flags{}", cfg.e, cfg.flags));
    for (bit, name) in [
        (EV_SQ_WRAP, "sq-wrap"),
        (EV_CQ_TAIL_WRAP, "cq-tail-wrap"),
        (EV_CQ_HEAD_WRAP, "cq-head-wrap"),
        (EV_SQ_FULL, "sq-full"),
        (EV_CQ_FULL, "cq-full"),
        (EV_SQ_SIGN, "sq-2^31"),
        (EV_CQ_SIGN, "cq-2^31"),
    ] {
        if events & bit != 0 {
            vh::distinct(&format!("{p}/n{}/cq{}/event/{name}", cfg.e, cfg.cqe));
        }
    }
    if violated {
        vh::distinct(&format!("{p}/n{}/violated", cfg.e));
    }
}

fn gen_steps(r: &mut Rng, cfg: &Cfg, len: usize) -> Vec<Step> {
    // a "personality" per run so that full rings, empty rings and long wraps all occur
    let w: [u64; 5] = match r.below(6) {
        0 => [3, 2, 3, 2, 3],  // balanced
        1 => [6, 3, 1, 1, 1],  // application floods the SQ, slow kernel
        2 => [1, 1, 1, 2, 8],  // kernel floods the CQ, slow reaper
        3 => [4, 4, 4, 4, 4],
        4 => [2, 1, 6, 2, 5],  // eager reaper
        _ => [5, 2, 2, 5, 2],  // fast consumer
    };
    let total: u64 = w.iter().sum();
    (0..len)
        .map(|_| {
            let mut x = r.below(total);
            let mut i = 0;
            while x >= w[i] {
                x -= w[i];
                i += 1;
            }
            match i {
                0 => Step::Get,
                1 => Step::Flush,
                2 => Step::Reap,
                3 => {
                    // the kernel side also moves its flags word: the poll thread of an SQPOLL ring runs
                    // out of work and sleeps; overflow / task-work bits come and go on every ring
                    if r.chance(1, 4) {
                        if cfg.sqpoll() && r.chance(2, 3) {
                            Step::Idle
                        } else {
                            Step::Noise(*r.pick(&[0u32, 2, 4, 6]))
                        }
                    } else {
                        Step::Consume(1 + r.below(u64::from(cfg.e)) as u32)
                    }
                }
                _ => Step::Post(1 + r.below(u64::from(cfg.cqe)) as u32),
            }
        })
        .collect()
}

fn all_combos() -> Vec<(u32, u32, u32, u32)> {
    let mut v = Vec::new();
    for e in [1u32, 2, 4, 8] {
        for cqe in [2 * e, e] {
            for &sq0 in &start_values(e) {
                for &cq0 in &start_values(cqe) {
                    v.push((e, cqe, sq0, cq0));
                }
            }
        }
    }
    v
}

fn mode_rand(seed: u64, runs: u64, shard: u64, nshards: u64) {
    // under Miri the full table costs seconds to build: draw configurations instead
    let combos = if vh::IS_MIRI { Vec::new() } else { all_combos() };
    let mut r = Rng::new(seed ^ (shard << 40));
    let mut st = Stats::default();
    let mut rep = Reporter {
        per_sig: BTreeMap::new(),
    };
    let mut sims: BTreeMap<(u32, u32, u32), Sim> = BTreeMap::new();
    let mut i = shard;
    let mut done = 0;
    // a rotating offset so that different seeds pair combos with different flags/scripts
    let off = r.below(combos.len().max(1) as u64);
    while done < runs {
        let (e, cqe, sq0, cq0) = if combos.is_empty() {
            let e = *r.pick(&[1u32, 2, 4, 8]);
            let cqe = if r.chance(3, 4) { 2 * e } else { e };
            let sv = start_values(e);
            let cv = start_values(cqe);
            // biased towards the wrap
            let sq0 = if r.chance(1, 2) { u32::MAX - r.below(u64::from(e) + 1) as u32 } else { *r.pick(&sv) };
            let cq0 = if r.chance(1, 2) { u32::MAX - r.below(u64::from(cqe) + 1) as u32 } else { *r.pick(&cv) };
            (e, cqe, sq0, cq0)
        } else {
            combos[((i + off) % combos.len() as u64) as usize]
        };
        i += nshards;
        done += 1;
        let flags = r.below(8) as u32;
        let sqf = if r.chance(1, 2) {
            0
        } else {
            r.below(u64::from(e) + 1) as u32
        };
        let cqf = if r.chance(1, 2) {
            0
        } else {
            r.below(u64::from(cqe) + 1) as u32
        };
        let cfg = Cfg {
            e,
            cqe,
            sq0,
            cq0,
            flags,
            sqf,
            cqf,
        };
        let sim = sims.entry((e, cqe, flags)).or_insert_with(|| Sim::new(cfg));
        sim.cfg = cfg;
        let len = if vh::IS_MIRI {
            10 + 5 * e as usize + r.below(12) as usize
        } else {
            24 + 14 * e as usize + r.below(40) as usize
        };
        let steps = gen_steps(&mut r, &cfg, len);
        let v = sim.run(&steps, &mut st);
        note_cells(&cfg, sim.events, v.is_some());
        if let Some(v) = &v {
            st.runs_with_violation += 1;
            rep.report(&cfg, &steps, v);
        }
        if done % 1499 == 1 {
            vh::sample(
                &format!(
                    "{{\"cfg\":{},\"profile\":{},\"steps\":{},\"handed\":{},\"consumed\":{},\"posted\":{},\"reaped\":{},\"outcome\":{}}}",
                    cfg.json(),
                    vh::js(profile()),
                    vh::js(&steps_str(&steps)),
                    sim.handed,
                    sim.consumed,
                    sim.posted,
                    sim.reaped,
                    vh::js(&v.as_ref().map_or("held".to_string(), |v| v.sig.clone()))
                ),
                3,
            );
        }
    }
    emit_stats(&st);
    rep.finish();
}

fn mode_exh(len: u32, cfg: Cfg) {
    let alphabet = [
        Step::Get,
        Step::Flush,
        Step::Reap,
        Step::Consume(1),
        Step::Post(1),
    ];
    let total = 5u64.pow(len);
    let mut sim = Sim::new(cfg);
    let mut st = Stats::default();
    let mut rep = Reporter {
        per_sig: BTreeMap::new(),
    };
    let mut steps = vec![Step::Get; len as usize];
    let mut ev_all = 0;
    for code in 0..total {
        let mut c = code;
        for s in steps.iter_mut() {
            *s = alphabet[(c % 5) as usize];
            c /= 5;
        }
        let v = sim.run(&steps, &mut st);
        ev_all |= sim.events;
        if let Some(v) = &v {
            st.runs_with_violation += 1;
            rep.report(&cfg, &steps, v);
        }
    }
    note_cells(&cfg, ev_all, st.runs_with_violation > 0);
    vh::distinct(&format!(
        "{}/exhaustive-len{len}/n{}/sq@{}/cq@{}",
        profile(),
        cfg.e,
        start_class(cfg.sq0, cfg.e),
        start_class(cfg.cq0, cfg.cqe)
    ));
    vh::count("exhaustive_sequences", total);
    vh::count("exhaustive_configs", 1);
    emit_stats(&st);
    rep.finish();
}

fn parse_cfg(rest: &[String]) -> Option<Cfg> {
    let g = |i: usize| rest.get(i).and_then(|s| s.parse::<u64>().ok());
    Some(Cfg {
        e: g(0)? as u32,
        cqe: g(1)? as u32,
        sq0: g(2)? as u32,
        cq0: g(3)? as u32,
        flags: g(4)? as u32,
        sqf: g(5)? as u32,
        cqf: g(6)? as u32,
    })
}

fn main() {
    let a = vh::args();
    match a.mode.as_str() {
        "rand" => {
            let shard = a.rest.first().and_then(|s| s.parse().ok()).unwrap_or(0);
            let n = a.rest.get(1).and_then(|s| s.parse().ok()).unwrap_or(1);
            mode_rand(a.seed, a.budget, shard, n);
        }
        "real" => real::mode_real(a.seed, a.budget),
        "mt" => mt::mode_mt(
            a.seed,
            a.budget,
            a.rest.first().and_then(|s| s.parse().ok()).unwrap_or(0),
        ),
        "exh" => match parse_cfg(&a.rest) {
            Some(cfg) if cfg.valid() => {
                mode_exh(a.budget as u32, cfg);
            }
            _ => vh::inconclusive("exh: bad configuration arguments"),
        },
        "replay" => match parse_cfg(&a.rest) {
            Some(cfg) if cfg.valid() => {
                let steps = parse_steps(a.rest.get(7).map_or("", |s| s.as_str()));
                let mut sim = Sim::new(cfg);
                sim.trace = true;
                let mut st = Stats::default();
                eprintln!("replay {} profile {} steps {}", cfg.json(), profile(), steps_str(&steps));
                let v = sim.run(&steps, &mut st);
                let mut rep = Reporter {
                    per_sig: BTreeMap::new(),
                };
                match &v {
                    Some(v) => {
                        eprintln!("VIOLATION {} at step {}: {}", v.sig, v.at, v.what);
                        rep.report(&cfg, &steps, v);
                    }
                    None => eprintln!("held"),
                }
                note_cells(&cfg, sim.events, v.is_some());
                emit_stats(&st);
            }
            _ => vh::inconclusive("replay: bad configuration arguments"),
        },
        m => vh::inconclusive(&format!("unknown mode {m}")),
    }
}
