//! C17 two-thread mode (made for `cargo miri run`; also runs natively for the sequence checks).
//!
//! Main thread = application using the real wrapper over `verif_from_raw_parts` memory.
//! A second std thread = the kernel side, synchronised with the application through the ring
//! words only:
//!   SQ: Acquire-load of the shared tail, PLAIN reads of the SQE bytes, Release-store of the head;
//!   CQ: PLAIN writes of the CQE bytes, Release-store of the tail.
//! The application fills SQEs with plain writes through the handed-out pointer and reads a reaped
//! CQE plainly (through the returned reference) before its next get_next_cqe call.
//! Oracle: Miri's data-race detector (a missing Release/Acquire on a ring word makes the plain
//! accesses on both sides unordered) + the usual stamp / content / order checks on both sides.
//!
//! kinds:
//!   0 `sqpoll`   SQPOLL ring, kernel thread polls. At most cq_entries operations per ring, so the
//!                kernel never has to look at the CQ head or at anything else the application
//!                writes: the SQ tail is the ONLY application->kernel edge (nothing can mask a
//!                weakened ordering on it). SQ slots are reused (ops = 2 x sq entries).
//!   1 `enter`    non-SQPOLL control: the kernel side consumes only after an explicit hand-over,
//!                io_uring_enter modelled as a Release/Acquire pair through a separate word
//!                (request) and back (return). Long runs, wrap-around, slot reuse on both rings.
//!   2 `sqpoll-long` SQPOLL, long runs across the wrap. CQ slots are reused, so the kernel posts
//!                only while tail - head < entries AND the application has published (Release) a
//!                "copied" counter for the slot's previous occupant: the documented hazard
//!                (get_next_cqe advances the head before the caller reads through the reference)
//!                is kept out of the picture on purpose (DESIGN 5a). That extra edge can mask a
//!                weak SQ-tail ordering; kind 0 is the one that decides that.
use super::{pattern, Cfg, Mem, Sim, CQ_SEQ_BASE, SQ_SEQ_BASE};
use rusl::platform::IoUring;
use std::sync::atomic::{AtomicBool, AtomicU32, Ordering};
use std::sync::Arc;
use vh::Rng;

#[derive(Clone, Copy)]
struct K {
    sq_khead: *mut AtomicU32,
    sq_ktail: *mut AtomicU32,
    sq_array: *mut AtomicU32,
    sqes: *mut u8,
    cq_khead: *mut AtomicU32,
    cq_ktail: *mut AtomicU32,
    cqes: *mut u8,
    cfg: Cfg,
    kind: u8,
    total: u32,
}
unsafe impl Send for K {}

struct Shared {
    stop: AtomicBool,
    enter_req: AtomicU32,
    enter_ret: AtomicU32,
    copied: AtomicU32,
}

const SPIN_LIMIT: u64 = if cfg!(miri) { 200_000 } else { 200_000_000 };

// the four plain accesses, each in a function of its own so that a race report names the object
#[inline(never)]
unsafe fn kernel_reads_sqe(p: *const u8, n: usize) -> [u8; 128] {
    let mut b = [0u8; 128];
    std::ptr::copy_nonoverlapping(p, b.as_mut_ptr(), n);
    b
}
#[inline(never)]
unsafe fn kernel_writes_cqe(p: *mut u8, pat: &[u8; 128], n: usize) {
    std::ptr::copy_nonoverlapping(pat.as_ptr(), p, n);
}
#[inline(never)]
unsafe fn app_fills_sqe(p: *mut u8, pat: &[u8; 128], n: usize) {
    std::ptr::copy_nonoverlapping(pat.as_ptr(), p, n);
}
#[inline(never)]
unsafe fn app_copies_cqe_tail(p: *const u8, n: usize) -> [u8; 32] {
    let mut b = [0u8; 32];
    std::ptr::copy_nonoverlapping(p, b.as_mut_ptr(), n);
    b
}

type KRes = Result<(u32, u32), (String, String)>;

fn kernel_thread(k: K, sh: Arc<Shared>) -> KRes {
    let c = k.cfg;
    let (mut head, mut ctail) = (c.sq0, c.cq0);
    let (mut consumed, mut posted) = (0u32, 0u32);
    let mut enter_seen = 0u32;
    let mut spins = 0u64;
    loop {
        let mut progressed = false;
        // kind 1: only between "syscall entry" and "syscall return"
        let req = if k.kind == 1 { sh.enter_req.load(Ordering::Acquire) } else { 0 };
        let allowed = k.kind != 1 || req != enter_seen;
        if allowed {
            let tail = unsafe { (*k.sq_ktail).load(Ordering::Acquire) };
            let vis = tail.wrapping_sub(head);
            if vis > c.e {
                return Err(("C17/sq/kernel-sees-overfull".into(), format!("shared sq tail {tail}, kernel head {head}, ring of {}", c.e)));
            }
            for _ in 0..vis {
                let slot = (head & (c.e - 1)) as usize;
                let idx = unsafe { (*k.sq_array.add(slot)).load(Ordering::Relaxed) } as usize;
                if idx >= c.e as usize {
                    return Err(("C17/sq/array-index-out-of-range".into(), format!("sq_array[{slot}] = {idx}")));
                }
                let stride = c.sq_stride();
                let got = unsafe { kernel_reads_sqe(k.sqes.add(idx * stride), stride) };
                let want = SQ_SEQ_BASE + u64::from(consumed);
                let ud = u64::from_le_bytes(got[32..40].try_into().unwrap());
                if ud != want {
                    return Err((
                        "C17/sq/out-of-order".into(),
                        format!("kernel thread at head {head} reads slot {idx} with entry seq#{}; next in submission order is seq#{consumed}", ud.wrapping_sub(SQ_SEQ_BASE)),
                    ));
                }
                if got[..stride] != pattern(want, 32)[..stride] {
                    return Err(("C17/sq/wrong-content".into(), format!("entry seq#{consumed} in slot {idx} differs from what the application filled in")));
                }
                consumed += 1;
                head = head.wrapping_add(1);
                unsafe { (*k.sq_khead).store(head, Ordering::Release) };
                progressed = true;
            }
        }
        while posted < consumed {
            if k.kind == 2 {
                // slot reuse: previous occupant copied out by the application, and the real capacity rule
                let copied = sh.copied.load(Ordering::Acquire);
                if posted.wrapping_sub(copied) >= c.cqe {
                    break;
                }
                let h = unsafe { (*k.cq_khead).load(Ordering::Acquire) };
                let used = ctail.wrapping_sub(h);
                if used > c.cqe {
                    return Err(("C17/cq/head-past-tail".into(), format!("shared cq head {h}, kernel tail {ctail}, ring of {}", c.cqe)));
                }
                if used == c.cqe {
                    break;
                }
            }
            let stride = c.cq_stride();
            let idx = (ctail & (c.cqe - 1)) as usize;
            let pat = pattern(CQ_SEQ_BASE + u64::from(posted), 0);
            unsafe { kernel_writes_cqe(k.cqes.add(idx * stride), &pat, stride) };
            ctail = ctail.wrapping_add(1);
            unsafe { (*k.cq_ktail).store(ctail, Ordering::Release) };
            posted += 1;
            progressed = true;
        }
        if k.kind == 1 && allowed && posted == consumed {
            enter_seen = req;
            sh.enter_ret.store(req, Ordering::Release); // "syscall return"
            progressed = true;
        }
        if sh.stop.load(Ordering::Relaxed) && posted == consumed {
            return Ok((consumed, posted));
        }
        if !progressed {
            spins += 1;
            if spins > SPIN_LIMIT {
                return Err(("STUCK".into(), format!("kernel thread made no progress (consumed {consumed}, posted {posted} of {})", k.total)));
            }
            std::thread::yield_now();
        }
    }
}

struct Tot {
    rings: u64,
    ops: u64,
    sq_slot_reuses: u64,
    cq_slot_reuses: u64,
    wraps: u64,
}

fn one_ring(r: &mut Rng, cfg: Cfg, kind: u8, total: u32, tot: &mut Tot) -> Result<(), (String, String)> {
    let mem = Mem::new(&cfg);
    unsafe {
        (*mem.sq_khead.a32()).store(cfg.sq0, Ordering::Relaxed);
        (*mem.sq_ktail.a32()).store(cfg.sq0, Ordering::Relaxed);
        (*mem.cq_khead.a32()).store(cfg.cq0, Ordering::Relaxed);
        (*mem.cq_ktail.a32()).store(cfg.cq0, Ordering::Relaxed);
        for i in 0..cfg.e {
            (*mem.sq_array.a32().add(i as usize)).store(i, Ordering::Release);
        }
    }
    let mut ring = std::mem::ManuallyDrop::new(Sim::mk_ring(&cfg, &mem));
    let k = K {
        sq_khead: mem.sq_khead.a32(),
        sq_ktail: mem.sq_ktail.a32(),
        sq_array: mem.sq_array.a32(),
        sqes: mem.sqes_base(),
        cq_khead: mem.cq_khead.a32(),
        cq_ktail: mem.cq_ktail.a32(),
        cqes: mem.cqes_base(),
        cfg,
        kind,
        total,
    };
    let sh = Arc::new(Shared {
        stop: AtomicBool::new(false),
        enter_req: AtomicU32::new(0),
        enter_ret: AtomicU32::new(0),
        copied: AtomicU32::new(0),
    });
    let sh2 = sh.clone();
    let th = std::thread::spawn(move || kernel_thread(k, sh2));
    let res = app_side(r, &mut ring, &mem, cfg, kind, total, &sh);
    sh.stop.store(true, Ordering::Relaxed);
    if res.is_err() {
        // let the kernel thread leave its loop whatever state it is in
        sh.enter_req.store(u32::MAX, Ordering::Release);
    }
    let kres = th.join().unwrap_or_else(|_| Err(("C17/harness/kernel-thread-panicked".into(), String::new())));
    tot.rings += 1;
    match (res, kres) {
        (Err(e), _) if e.0 != "STUCK" => Err(e),
        (_, Err(e)) if e.0 != "STUCK" => Err(e),
        (Err(e), _) | (_, Err(e)) => Err(e),
        (Ok(()), Ok((consumed, posted))) => {
            if consumed != total || posted != total {
                return Err(("C17/sq/never-consumed".into(), format!("{total} entries flushed, kernel thread consumed {consumed}, posted {posted}")));
            }
            tot.ops += u64::from(total);
            tot.sq_slot_reuses += u64::from(total.saturating_sub(cfg.e));
            tot.cq_slot_reuses += u64::from(total.saturating_sub(cfg.cqe));
            if cfg.sq0.checked_add(total).is_none() {
                tot.wraps += 1;
            }
            if cfg.cq0.checked_add(total).is_none() {
                tot.wraps += 1;
            }
            Ok(())
        }
    }
}

#[allow(clippy::too_many_arguments)]
fn app_side(r: &mut Rng, ring: &mut IoUring, mem: &Mem, cfg: Cfg, kind: u8, total: u32, sh: &Shared) -> Result<(), (String, String)> {
    let (mut filled, mut flushed, mut reaped) = (0u32, 0u32, 0u32);
    let mut enter_no = 0u32;
    let mut spins = 0u64;
    let sq_base = mem.sqes_base() as usize;
    let cq_base = mem.cqes_base();
    while reaped < total {
        let mut progressed = false;
        let choice = r.below(8);
        // ---- get slot + fill
        if filled < total && choice < 4 {
            match vh::catch(|| ring.get_next_sqe_slot()) {
                Err(p) => return Err(("C17/sq/panic".into(), format!("get_next_sqe_slot panicked: {p}"))),
                Ok(None) => {}
                Ok(Some(ptr)) => {
                    let stride = cfg.sq_stride();
                    let addr = ptr as usize;
                    if addr < sq_base || (addr - sq_base) % stride != 0 || (addr - sq_base) / stride >= cfg.e as usize {
                        return Err(("C17/sq/slot-out-of-range".into(), format!("slot pointer base{:+}", addr as i64 - sq_base as i64)));
                    }
                    let pat = pattern(SQ_SEQ_BASE + u64::from(filled), 32);
                    unsafe { app_fills_sqe(ptr.cast::<u8>(), &pat, stride) };
                    filled += 1;
                    progressed = true;
                }
            }
        }
        // ---- flush (and, for the non-SQPOLL control, the modelled io_uring_enter)
        if flushed < filled && (choice == 4 || choice == 5 || filled == total || filled - flushed >= cfg.e) {
            match vh::catch(|| ring.flush_submission_queue()) {
                Err(p) => return Err(("C17/flush/panic".into(), format!("flush_submission_queue panicked: {p}"))),
                Ok(_) => flushed = filled,
            }
            progressed = true;
            if kind == 1 {
                enter_no += 1;
                sh.enter_req.store(enter_no, Ordering::Release); // syscall entry
                let mut w = 0u64;
                while sh.enter_ret.load(Ordering::Acquire) != enter_no {
                    w += 1;
                    if w > SPIN_LIMIT {
                        return Err(("STUCK".into(), "modelled io_uring_enter did not return".into()));
                    }
                    std::thread::yield_now();
                }
            }
        }
        // ---- reap + copy out (before the next get_next_cqe call)
        if choice >= 5 || filled == total || kind == 1 {
            loop {
                let got = vh::catch(|| ring.get_next_cqe().map(|c| (std::ptr::from_ref(c) as usize, c.0.user_data, c.0.res, c.0.flags)));
                let (addr, ud, res, fl) = match got {
                    Err(p) => return Err(("C17/cq/panic".into(), format!("get_next_cqe panicked: {p}"))),
                    Ok(None) => break,
                    Ok(Some(x)) => x,
                };
                let stride = cfg.cq_stride();
                let b = cq_base as usize;
                if addr < b || (addr - b) % stride != 0 || (addr - b) / stride >= cfg.cqe as usize {
                    return Err(("C17/cq/entry-out-of-range".into(), format!("cqe pointer base{:+}", addr as i64 - b as i64)));
                }
                let want = CQ_SEQ_BASE + u64::from(reaped);
                let pat = pattern(want, 0);
                let mut ok = ud == want
                    && res == i32::from_le_bytes(pat[8..12].try_into().unwrap())
                    && fl == u32::from_le_bytes(pat[12..16].try_into().unwrap());
                if stride == 32 {
                    let extra = unsafe { app_copies_cqe_tail(cq_base.add(addr - b + 16), 16) };
                    ok = ok && extra[..16] == pat[16..32];
                }
                if !ok {
                    let d = ud.wrapping_sub(CQ_SEQ_BASE);
                    let sig = if ud == want {
                        "C17/cq/wrong-content"
                    } else if d < u64::from(reaped) {
                        "C17/cq/duplicate-or-reordered"
                    } else if d < u64::from(total) {
                        "C17/cq/skipped"
                    } else {
                        "C17/cq/wrong-content"
                    };
                    return Err((sig.into(), format!("reaped user_data {ud:#x}, next unreaped completion is seq#{reaped} ({want:#x})")));
                }
                reaped += 1;
                if kind == 2 {
                    sh.copied.store(reaped, Ordering::Release);
                }
                progressed = true;
                if kind != 1 && r.chance(1, 2) {
                    break;
                }
            }
        }
        if progressed {
            spins = 0;
        } else {
            spins += 1;
            if spins > SPIN_LIMIT {
                return Err(("STUCK".into(), format!("application made no progress (filled {filled}, flushed {flushed}, reaped {reaped} of {total})")));
            }
            std::thread::yield_now();
        }
    }
    Ok(())
}

pub fn mode_mt(seed: u64, rings: u64, kind: u8) {
    let mut r = Rng::new(seed ^ 0x77AD ^ (u64::from(kind) << 20));
    let mut tot = Tot {
        rings: 0,
        ops: 0,
        sq_slot_reuses: 0,
        cq_slot_reuses: 0,
        wraps: 0,
    };
    let p = super::profile();
    let kname = ["sqpoll", "enter", "sqpoll-long"][kind as usize % 3];
    for i in 0..rings {
        let e = *r.pick(&[1u32, 2, 4]);
        let cqe = 2 * e;
        let total = match kind {
            0 => cqe, // never more than the CQ holds: see module comment
            _ => 3 * cqe + r.below(u64::from(2 * cqe)) as u32,
        };
        // start values: the wrap inside the run for two of three rings
        let near = |r: &mut Rng, n: u32| u32::MAX - r.below(u64::from(n)) as u32;
        let (sq0, cq0) = match i % 3 {
            0 => (near(&mut r, total), near(&mut r, total)),
            1 => (0x7fff_ffff - r.below(3) as u32, near(&mut r, total)),
            _ => (r.below(2) as u32, r.below(2) as u32),
        };
        let flags = u32::from(kind != 1) | (r.below(4) as u32) << 1;
        let cfg = Cfg {
            e,
            cqe,
            sq0,
            cq0,
            flags,
            sqf: 0,
            cqf: 0,
        };
        match one_ring(&mut r, cfg, kind, total, &mut tot) {
            Ok(()) => {
                vh::distinct(&format!("{p}/two-thread/{kname}/n{e}/{}", ["wrap-both", "2^31+cq-wrap", "from-0"][(i % 3) as usize]));
                if i < 2 {
                    vh::sample(
                        &format!(
                            "{{\"mode\":\"two threads, kernel side synchronised through the ring words only\",\"kind\":{},\"cfg\":{},\"profile\":{},\"operations\":{total},\"outcome\":\"all consumed and reaped in order, no data race reported\"}}",
                            vh::js(kname),
                            cfg.json(),
                            vh::js(p)
                        ),
                        2,
                    );
                }
            }
            Err((sig, what)) if sig == "STUCK" => {
                vh::inconclusive(&format!("two-thread {kname} ring {}: {what}", cfg.json()));
            }
            Err((sig, what)) => {
                vh::viol(
                    &sig,
                    &format!(
                        "{{\"mode\":\"two threads\",\"kind\":{},\"cfg\":{},\"profile\":{},\"operations\":{total},\"what\":{}}}",
                        vh::js(kname),
                        cfg.json(),
                        vh::js(p),
                        vh::js(&what)
                    ),
                );
                break;
            }
        }
    }
    vh::eval(tot.rings);
    vh::count(&format!("two_thread_rings_{kname}_{p}"), tot.rings);
    vh::count("two_thread_operations", tot.ops);
    vh::count("two_thread_sq_slot_reuses", tot.sq_slot_reuses);
    vh::count("two_thread_cq_slot_reuses", tot.cq_slot_reuses);
    vh::count("two_thread_index_wraps", tot.wraps);
}
