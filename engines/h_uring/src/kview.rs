//! The kernel's side of a ring, read independently of the wrapper: a second, read-only mapping of the ring
//! descriptor at IORING_OFF_SQ_RING, with the field offsets learned from a scratch raw `io_uring_setup`
//! call with identical parameters (the offsets are a property of the running kernel).
use crate::sys;
use std::sync::atomic::{AtomicU32, Ordering};

pub const SQ_NEED_WAKEUP: u32 = 1;
pub const SQ_CQ_OVERFLOW: u32 = 2;
pub const SQ_TASKRUN: u32 = 4;

pub struct KView {
    base: usize,
    len: usize,
    flags_off: usize,
    head_off: usize,
    tail_off: usize,
    pub sq_entries: u32,
    pub cq_entries: u32,
}

impl KView {
    /// `Err(errno)` when the kernel rejects the parameters
    pub fn new(ring_fd: i32, bits: u32, entries: u32, idle_ms: u32) -> Result<KView, String> {
        let mut p = [0u32; 30];
        p[2] = bits;
        p[4] = idle_ms;
        let fd = sys::sc(425, &[i64::from(entries), p.as_mut_ptr() as i64]);
        if fd < 0 {
            return Err(format!("scratch io_uring_setup: {}", sys::errname(fd)));
        }
        sys::close(fd as i32);
        let (sq_entries, cq_entries) = (p[0], p[1]);
        let (head_off, tail_off, flags_off, array_off) = (p[10] as usize, p[11] as usize, p[14] as usize, p[16] as usize);
        let need = flags_off.max(head_off).max(tail_off) + 4;
        let ring_sz = array_off + sq_entries as usize * 4;
        if need > ring_sz {
            return Err("ring offsets outside the SQ ring".into());
        }
        let len = need.div_ceil(4096) * 4096;
        // PROT_READ, MAP_SHARED, offset IORING_OFF_SQ_RING (0)
        let base = sys::sc(sys::SYS_MMAP, &[0, len as i64, 1, 1, i64::from(ring_fd), 0]);
        if base < 0 {
            return Err(format!("second mmap of the ring: {}", sys::errname(base)));
        }
        Ok(KView { base: base as usize, len, flags_off, head_off, tail_off, sq_entries, cq_entries })
    }
    fn load(&self, off: usize) -> u32 {
        unsafe { (*((self.base + off) as *const AtomicU32)).load(Ordering::Acquire) }
    }
    /// the kernel's SQ flags word
    pub fn word(&self) -> u32 {
        self.load(self.flags_off)
    }
    /// submission entries published but not yet consumed by the kernel
    pub fn sq_pending(&self) -> u32 {
        self.load(self.tail_off).wrapping_sub(self.load(self.head_off))
    }
}

impl Drop for KView {
    fn drop(&mut self) {
        sys::sc(11, &[self.base as i64, self.len as i64]);
    }
}
