//! Operations: description, instantiation as an SQE (side A, through rusl's constructors — the code under
//! test), execution as a direct system call (side B), and comparison of results and out-parameters.
#![allow(dead_code)]
use crate::sys;
use crate::world::{World, BADFD};
use rusl::platform::{
    AddressFamily, ControlMessageRaw, ControlMessageSend, Fd, IoSlice, IoUringSQEFlags, IoUringSubmissionQueueEntry, Mode,
    MsgHdr, MsgHdrBorrow, OpenFlags, PollAddMultiFlags, PollEvents, RenameFlags, SendDropGuard, SocketAddressInet,
    SocketAddressUnix, SocketArgUnix, SocketFlags, SocketOptions, SocketType, Statx, StatxFlags, StatxMask, TimeSpec,
};
use rusl::string::unix_str::UnixStr;

pub const F_FIXED_FILE: u8 = 1;
pub const F_DRAIN: u8 = 2;
pub const F_LINK: u8 = 4;
pub const F_HARDLINK: u8 = 8;
pub const F_ASYNC: u8 = 16;

#[derive(Clone, Debug)]
pub enum FdRef {
    /// twin descriptor (index into World::fds)
    T(usize),
    /// a number that is no open descriptor on either side
    Bad,
    /// registered file index (permanent file i); IOSQE_FIXED_FILE on the ring side
    Fixed(usize),
}

#[derive(Clone, Debug)]
pub enum DirRef {
    Root,
    Cwd,
    Fd(usize),
    Bad,
}

#[derive(Clone, Debug)]
pub struct PathSpec {
    pub dir: DirRef,
    pub rel: String,
}

#[derive(Clone, Debug)]
pub enum Op {
    Readv { f: FdRef, lens: Vec<usize> },
    Writev { f: FdRef, chunks: Vec<Vec<u8>> },
    ReadFixed { f: FdRef, buf: usize, off: usize, len: usize },
    WriteFixed { f: FdRef, buf: usize, off: usize, data: Vec<u8> },
    Openat { p: PathSpec, flags: i32, mode: u32 },
    Close { f: FdRef },
    Statx { p: PathSpec, flags: i32, mask: u32 },
    Mkdirat { p: PathSpec, mode: u32 },
    Unlinkat { p: PathSpec, rmdir: bool },
    Renameat { old: PathSpec, new: PathSpec, flags: u32 },
    Socket { domain: i32, ty: i32, flags: i32, proto: u32 },
    ConnectUnix { f: FdRef, target: String },
    Accept { f: FdRef, inet: bool, flags: u32, want_addr: bool },
    Sendmsg { f: FdRef, chunks: Vec<Vec<u8>>, scm: Vec<usize>, flags: i32, raw: bool },
    Recvmsg { f: FdRef, lens: Vec<usize>, ctrl: usize, flags: i32 },
    Timeout { sec: i64, nsec: i64, relative: bool, count: Option<u64> },
    PollAdd { f: FdRef, events: i16 },
}

impl Op {
    pub fn name(&self) -> &'static str {
        match self {
            Op::Readv { .. } => "readv",
            Op::Writev { .. } => "writev",
            Op::ReadFixed { .. } => "read_fixed",
            Op::WriteFixed { .. } => "write_fixed",
            Op::Openat { .. } => "openat",
            Op::Close { .. } => "close",
            Op::Statx { .. } => "statx",
            Op::Mkdirat { .. } => "mkdirat",
            Op::Unlinkat { .. } => "unlinkat",
            Op::Renameat { .. } => "renameat",
            Op::Socket { .. } => "socket",
            Op::ConnectUnix { .. } => "connect_unix",
            Op::Accept { inet: false, .. } => "accept_unix",
            Op::Accept { inet: true, .. } => "accept_inet",
            Op::Sendmsg { raw: false, .. } => "sendmsg",
            Op::Sendmsg { raw: true, .. } => "sendmsg_raw",
            Op::Recvmsg { .. } => "recvmsg",
            Op::Timeout { .. } => "timeout",
            Op::PollAdd { .. } => "poll_add",
        }
    }
    /// total transfer length requested (read/write family): a shorter result fails a link
    pub fn rw_len(&self) -> Option<i64> {
        match self {
            Op::Readv { lens, .. } => Some(lens.iter().sum::<usize>() as i64),
            Op::Writev { chunks, .. } => Some(chunks.iter().map(Vec::len).sum::<usize>() as i64),
            Op::ReadFixed { len, .. } => Some(*len as i64),
            Op::WriteFixed { data, .. } => Some(data.len() as i64),
            _ => None,
        }
    }
    /// Does this result end an IOSQE_IO_LINK chain? io_uring_enter(2): an error or a short read/write severs
    /// the chain. Which opcodes mark a negative result as "failed" is kernel-version dependent for the
    /// path-based file-system operations and statx (5.x: they do, 6.x: they do not), so for those the
    /// replay follows what the kernel did (`Maybe`).
    pub fn link_effect(&self, res: i64) -> Sever {
        match self {
            Op::Statx { .. } | Op::Mkdirat { .. } | Op::Unlinkat { .. } | Op::Renameat { .. } => {
                if res < 0 {
                    Sever::Maybe
                } else {
                    Sever::No
                }
            }
            _ => {
                if res < 0 {
                    return Sever::Yes;
                }
                match self.rw_len() {
                    Some(l) if res != l => Sever::Yes,
                    _ => Sever::No,
                }
            }
        }
    }
    pub fn fails_link(&self, res: i64) -> bool {
        !matches!(self.link_effect(res), Sever::No)
    }
}

#[derive(Clone, Copy, PartialEq, Eq, Debug)]
pub enum Sever {
    Yes,
    No,
    Maybe,
}

#[repr(C, align(8))]
pub struct StxBuf(pub [u8; 256]);

#[repr(C)]
#[derive(Clone, Copy)]
pub struct Iovec {
    pub base: *mut u8,
    pub len: usize,
}

/// struct msghdr as the kernel sees it (side B builds its own, independent of rusl's)
#[repr(C)]
pub struct RawMsgHdr {
    pub name: *mut u8,
    pub namelen: u32,
    pub iov: *mut Iovec,
    pub iovlen: usize,
    pub control: *mut u8,
    pub controllen: usize,
    pub flags: i32,
}

/// per-operation memory that must stay put until the completion was reaped
pub struct OpState {
    pub bufs: [Vec<Vec<u8>>; 2],
    pub iov: [Vec<Iovec>; 2],
    pub path: [Vec<u8>; 2],
    pub path2: [Vec<u8>; 2],
    pub dirfd: [Option<i32>; 2],
    pub dirfd2: [Option<i32>; 2],
    pub stx: [Box<StxBuf>; 2],
    pub sockarg: Option<Box<SocketArgUnix>>,
    pub addr: [Box<[u8; 128]>; 2],
    /// the constructor takes `*mut u64`; padded so that a misdirected kernel write stays inside the allocation
    pub addrlen_a: Box<[u64; 32]>,
    pub addrlen_b: Box<u32>,
    pub ts: Box<TimeSpec>,
    pub mh_a: Option<Box<MsgHdr>>,
    pub mh_b: Option<Box<RawMsgHdr>>,
    pub ctrl: [Vec<u8>; 2],
    pub guard: Option<SendDropGuard<'static>>,
    pub ioslices: Vec<IoSlice<'static>>,
    pub scm_a: Vec<Fd>,
    pub fixed_addr: usize,
}

impl OpState {
    pub fn new() -> Box<OpState> {
        Box::new(OpState {
            bufs: [Vec::new(), Vec::new()],
            iov: [Vec::new(), Vec::new()],
            path: [Vec::new(), Vec::new()],
            path2: [Vec::new(), Vec::new()],
            dirfd: [None, None],
            dirfd2: [None, None],
            stx: [Box::new(StxBuf([0x5A; 256])), Box::new(StxBuf([0x5A; 256]))],
            sockarg: None,
            addr: [Box::new([0x5A; 128]), Box::new([0x5A; 128])],
            addrlen_a: Box::new([0; 32]),
            addrlen_b: Box::new(0),
            ts: Box::new(TimeSpec::new(0, 0)),
            mh_a: None,
            mh_b: None,
            ctrl: [Vec::new(), Vec::new()],
            guard: None,
            ioslices: Vec::new(),
            scm_a: Vec::new(),
            fixed_addr: 0,
        })
    }
}

pub struct OpRun {
    pub op: Op,
    /// IOSQE_* bits requested by the generator (F_* constants)
    pub fl: u8,
    /// id of the linked chain this op belongs to
    pub chain: Option<usize>,
    /// position in the direct-call replay
    pub twin_seq: usize,
    pub ud: u64,
    pub st: Box<OpState>,
    pub res_a: Option<i32>,
    pub ncqe: u32,
    pub res_b: Option<i64>,
    /// listener index and client sockets of an accept
    pub li: usize,
    pub client: Option<[i32; 2]>,
    pub t_submit: i128,
    pub t_reap: i128,
    /// the equal-result comparison is relaxed for this op (explained in `note`)
    pub note: &'static str,
}

impl OpRun {
    pub fn new(op: Op, fl: u8) -> Box<OpRun> {
        Box::new(OpRun {
            op,
            fl,
            chain: None,
            twin_seq: 0,
            ud: 0,
            st: OpState::new(),
            res_a: None,
            ncqe: 0,
            res_b: None,
            li: usize::MAX,
            client: None,
            t_submit: 0,
            t_reap: 0,
            note: "",
        })
    }
}

pub struct RingInfo {
    /// registered buffers: (address, length)
    pub bufs: Vec<(usize, usize)>,
}

fn fdnum(f: &FdRef, w: &World, side: usize) -> i32 {
    match f {
        FdRef::T(i) => w.fds[*i].fd[side],
        FdRef::Bad => BADFD,
        FdRef::Fixed(i) => {
            if side == 0 {
                *i as i32
            } else {
                w.fds[w.perm[*i]].fd[1]
            }
        }
    }
}

fn is_stream_fd(f: &FdRef, w: &World) -> bool {
    match f {
        FdRef::T(i) => matches!(w.fds[*i].kind, crate::world::FdKind::SockEnd | crate::world::FdKind::SockFresh | crate::world::FdKind::Listener),
        _ => false,
    }
}

fn inst_path(p: &PathSpec, w: &World, side: usize) -> (Option<i32>, Vec<u8>) {
    let mut bytes = |s: String| {
        let mut v = s.into_bytes();
        v.push(0);
        v
    };
    match &p.dir {
        DirRef::Root => (Some(w.dirfd[side]), bytes(p.rel.clone())),
        DirRef::Cwd => (None, bytes(w.abs(side, &p.rel))),
        DirRef::Fd(t) => (Some(w.fds[*t].fd[side]), bytes(p.rel.clone())),
        DirRef::Bad => (Some(BADFD), bytes(p.rel.clone())),
    }
}

fn rfd(n: i32) -> Fd {
    Fd::try_new(n).unwrap_or(Fd::MAX)
}
fn ofd(n: Option<i32>) -> Option<Fd> {
    n.map(rfd)
}
fn dfd(n: Option<i32>) -> i64 {
    n.map_or(sys::AT_FDCWD, i64::from)
}

fn family(d: i32) -> AddressFamily {
    match d {
        0 => AddressFamily::AF_UNSPEC,
        1 => AddressFamily::AF_UNIX,
        2 => AddressFamily::AF_INET,
        9 => AddressFamily::AF_X25,
        10 => AddressFamily::AF_INET6,
        16 => AddressFamily::AF_NETLINK,
        17 => AddressFamily::AF_PACKET,
        40 => AddressFamily::AF_VSOCK,
        _ => AddressFamily::AF_MAX,
    }
}
pub const FAMILIES: [i32; 9] = [0, 1, 2, 9, 10, 16, 17, 40, 46];
fn socktype(t: i32) -> SocketType {
    match t {
        1 => SocketType::SOCK_STREAM,
        2 => SocketType::SOCK_DGRAM,
        3 => SocketType::SOCK_RAW,
        4 => SocketType::SOCK_RDM,
        5 => SocketType::SOCK_SEQPACKET,
        _ => SocketType::SOCK_PACKET,
    }
}
pub const SOCKTYPES: [i32; 6] = [1, 2, 3, 4, 5, 10];

fn sqe_flags(fl: u8) -> IoUringSQEFlags {
    let mut f = IoUringSQEFlags::empty();
    if fl & F_FIXED_FILE != 0 {
        f |= IoUringSQEFlags::IOSQE_FIXED_FILE;
    }
    if fl & F_DRAIN != 0 {
        f |= IoUringSQEFlags::IOSQE_IO_DRAIN;
    }
    if fl & F_LINK != 0 {
        f |= IoUringSQEFlags::IOSQE_IO_LINK;
    }
    if fl & F_HARDLINK != 0 {
        f |= IoUringSQEFlags::IOSQE_IO_HARDLINK;
    }
    if fl & F_ASYNC != 0 {
        f |= IoUringSQEFlags::IOSQE_ASYNC;
    }
    f
}

fn mk_iov(bufs: &mut [Vec<u8>]) -> Vec<Iovec> {
    bufs.iter_mut().map(|b| Iovec { base: b.as_mut_ptr(), len: b.len() }).collect()
}

fn scm_control(fds: &[i32]) -> Vec<u8> {
    if fds.is_empty() {
        return Vec::new();
    }
    let len = 16 + 4 * fds.len();
    let space = (len + 7) & !7;
    let mut c = vec![0u8; space];
    c[0..8].copy_from_slice(&(len as u64).to_ne_bytes());
    c[8..12].copy_from_slice(&1i32.to_ne_bytes());
    c[12..16].copy_from_slice(&1i32.to_ne_bytes());
    for (i, f) in fds.iter().enumerate() {
        c[16 + 4 * i..20 + 4 * i].copy_from_slice(&f.to_ne_bytes());
    }
    c
}

/// parse SCM_RIGHTS descriptors out of a received control buffer
pub fn parse_scm(ctrl: &[u8], controllen: usize) -> Vec<i32> {
    let mut out = Vec::new();
    let end = controllen.min(ctrl.len());
    let mut p = 0usize;
    while p + 16 <= end {
        let len = u64::from_ne_bytes(ctrl[p..p + 8].try_into().unwrap()) as usize;
        let level = i32::from_ne_bytes(ctrl[p + 8..p + 12].try_into().unwrap());
        let ty = i32::from_ne_bytes(ctrl[p + 12..p + 16].try_into().unwrap());
        if len < 16 || p + len > end {
            break;
        }
        if level == 1 && ty == 1 {
            let mut q = p + 16;
            while q + 4 <= p + len {
                out.push(i32::from_ne_bytes(ctrl[q..q + 4].try_into().unwrap()));
                q += 4;
            }
        }
        p += (len + 7) & !7;
    }
    out
}

impl OpRun {
    /// Build the submission entry for side A through rusl's constructors.
    /// # Safety
    /// `self` must not move or be dropped until the completion was reaped.
    pub unsafe fn build(&mut self, w: &World, ring: &RingInfo) -> IoUringSubmissionQueueEntry {
        let ud = self.ud;
        let mut fl = self.fl;
        let st = &mut *self.st;
        let setf = |f: &FdRef, fl: &mut u8| {
            if matches!(f, FdRef::Fixed(_)) {
                *fl |= F_FIXED_FILE;
            }
        };
        match &self.op {
            Op::Readv { f, lens } => {
                setf(f, &mut fl);
                st.bufs[0] = lens.iter().map(|l| vec![0xAAu8; *l]).collect();
                st.iov[0] = mk_iov(&mut st.bufs[0]);
                IoUringSubmissionQueueEntry::new_readv(rfd(fdnum(f, w, 0)), st.iov[0].as_ptr() as usize, lens.len() as u32, ud, sqe_flags(fl))
            }
            Op::Writev { f, chunks } => {
                setf(f, &mut fl);
                st.bufs[0] = chunks.clone();
                st.iov[0] = mk_iov(&mut st.bufs[0]);
                IoUringSubmissionQueueEntry::new_writev(rfd(fdnum(f, w, 0)), st.iov[0].as_ptr() as usize, chunks.len() as u32, ud, sqe_flags(fl))
            }
            Op::ReadFixed { f, buf, off, len } => {
                setf(f, &mut fl);
                let addr = ring.bufs[*buf].0 + off;
                st.fixed_addr = addr;
                core::ptr::write_bytes(addr as *mut u8, 0xAA, *len);
                IoUringSubmissionQueueEntry::new_readv_fixed(rfd(fdnum(f, w, 0)), *buf as u16, addr as u64, *len as u32, ud, sqe_flags(fl))
            }
            Op::WriteFixed { f, buf, off, data } => {
                setf(f, &mut fl);
                let addr = ring.bufs[*buf].0 + off;
                st.fixed_addr = addr;
                core::ptr::copy_nonoverlapping(data.as_ptr(), addr as *mut u8, data.len());
                IoUringSubmissionQueueEntry::new_writev_fixed(rfd(fdnum(f, w, 0)), *buf as u16, addr as u64, data.len() as u32, ud, sqe_flags(fl))
            }
            Op::Openat { p, flags, mode } => {
                let (d, path) = inst_path(p, w, 0);
                st.path[0] = path;
                st.dirfd[0] = d;
                let us = UnixStr::try_from_bytes(&st.path[0]).expect("path");
                IoUringSubmissionQueueEntry::new_openat(
                    ofd(d),
                    us,
                    core::mem::transmute::<i32, OpenFlags>(*flags),
                    core::mem::transmute::<u32, Mode>(*mode),
                    ud,
                    sqe_flags(fl),
                )
            }
            Op::Close { f } => IoUringSubmissionQueueEntry::new_close(rfd(fdnum(f, w, 0)), ud, sqe_flags(fl)),
            Op::Statx { p, flags, mask } => {
                let (d, path) = inst_path(p, w, 0);
                st.path[0] = path;
                st.dirfd[0] = d;
                let us = UnixStr::try_from_bytes(&st.path[0]).expect("path");
                IoUringSubmissionQueueEntry::new_statx(
                    ofd(d),
                    us,
                    core::mem::transmute::<i32, StatxFlags>(*flags),
                    core::mem::transmute::<u32, StatxMask>(*mask),
                    st.stx[0].0.as_mut_ptr().cast::<Statx>(),
                    ud,
                    sqe_flags(fl),
                )
            }
            Op::Mkdirat { p, mode } => {
                let (d, path) = inst_path(p, w, 0);
                st.path[0] = path;
                st.dirfd[0] = d;
                let us = UnixStr::try_from_bytes(&st.path[0]).expect("path");
                IoUringSubmissionQueueEntry::new_mkdirat(ofd(d), us, core::mem::transmute::<u32, Mode>(*mode), ud, sqe_flags(fl))
            }
            Op::Unlinkat { p, rmdir } => {
                let (d, path) = inst_path(p, w, 0);
                st.path[0] = path;
                st.dirfd[0] = d;
                let us = UnixStr::try_from_bytes(&st.path[0]).expect("path");
                IoUringSubmissionQueueEntry::new_unlink_at(ofd(d), us, *rmdir, ud, sqe_flags(fl))
            }
            Op::Renameat { old, new, flags } => {
                let (d1, p1) = inst_path(old, w, 0);
                let (d2, p2) = inst_path(new, w, 0);
                st.path[0] = p1;
                st.path2[0] = p2;
                st.dirfd[0] = d1;
                st.dirfd2[0] = d2;
                let u1 = UnixStr::try_from_bytes(&st.path[0]).expect("path");
                let u2 = UnixStr::try_from_bytes(&st.path2[0]).expect("path");
                IoUringSubmissionQueueEntry::new_rename_at(
                    ofd(d1),
                    ofd(d2),
                    u1,
                    u2,
                    core::mem::transmute::<u32, RenameFlags>(*flags),
                    ud,
                    sqe_flags(fl),
                )
            }
            Op::Socket { domain, ty, flags, proto } => IoUringSubmissionQueueEntry::new_socket(
                family(*domain),
                SocketOptions::new(socktype(*ty), core::mem::transmute::<u32, SocketFlags>(*flags as u32)),
                *proto,
                ud,
                sqe_flags(fl),
            ),
            Op::ConnectUnix { f, target } => {
                let mut path = w.abs(0, target).into_bytes();
                path.push(0);
                st.path[0] = path;
                let us = UnixStr::try_from_bytes(&st.path[0]).expect("path");
                st.sockarg = Some(Box::new(SocketAddressUnix::try_from_unix(us).expect("sockaddr")));
                IoUringSubmissionQueueEntry::new_connect_unix(rfd(fdnum(f, w, 0)), st.sockarg.as_ref().unwrap(), ud, sqe_flags(fl))
            }
            Op::Accept { f, inet, flags, want_addr } => {
                let sf = core::mem::transmute::<u32, SocketFlags>(*flags);
                st.addrlen_a[0] = if *inet { 16 } else { 110 };
                let (ap, lp): (*mut u8, *mut u64) =
                    if *want_addr { (st.addr[0].as_mut_ptr(), st.addrlen_a.as_mut_ptr()) } else { (core::ptr::null_mut(), core::ptr::null_mut()) };
                if *inet {
                    IoUringSubmissionQueueEntry::new_accept_inet(rfd(fdnum(f, w, 0)), ap.cast::<SocketAddressInet>(), lp, sf, ud, sqe_flags(fl))
                } else {
                    IoUringSubmissionQueueEntry::new_accept_unix(rfd(fdnum(f, w, 0)), ap.cast::<SocketAddressUnix>(), lp, sf, ud, sqe_flags(fl))
                }
            }
            Op::Sendmsg { f, chunks, scm, flags, raw } => {
                st.bufs[0] = chunks.clone();
                st.iov[0] = mk_iov(&mut st.bufs[0]);
                st.scm_a = scm.iter().map(|i| rfd(w.fds[*i].fd[0])).collect();
                let fd = rfd(fdnum(f, w, 0));
                if *raw {
                    st.ctrl[0] = vec![0u8; 24 + 8 * scm.len()];
                    let ctl = if scm.is_empty() { None } else { Some(ControlMessageRaw::ScmRights(st.scm_a.as_mut_ptr(), st.scm_a.len())) };
                    let mh = MsgHdr::create_send(st.iov[0].as_mut_ptr().cast(), st.iov[0].len(), ctl, st.ctrl[0].as_mut_ptr());
                    st.mh_a = Some(Box::new(mh));
                    IoUringSubmissionQueueEntry::new_sendmsg_raw(fd, &**st.mh_a.as_ref().unwrap(), *flags, ud, sqe_flags(fl))
                } else {
                    // the guard borrows the slices; both live in this boxed state until the op is reaped
                    let bufs: &'static [Vec<u8>] = core::mem::transmute::<&[Vec<u8>], &'static [Vec<u8>]>(&st.bufs[0][..]);
                    st.ioslices = bufs.iter().map(|b| IoSlice::new(b)).collect();
                    let slices: &'static [IoSlice<'static>] = core::mem::transmute::<&[IoSlice<'static>], &'static [IoSlice<'static>]>(&st.ioslices[..]);
                    let fds: &'static [Fd] = core::mem::transmute::<&[Fd], &'static [Fd]>(&st.scm_a[..]);
                    let ctl = if scm.is_empty() { None } else { Some(ControlMessageSend::ScmRights(fds)) };
                    st.guard = Some(MsgHdrBorrow::create_send(None, slices, ctl));
                    IoUringSubmissionQueueEntry::new_sendmsg(fd, st.guard.as_ref().unwrap(), *flags, ud, sqe_flags(fl))
                }
            }
            Op::Recvmsg { f, lens, ctrl, flags } => {
                st.bufs[0] = lens.iter().map(|l| vec![0xAAu8; *l]).collect();
                st.iov[0] = mk_iov(&mut st.bufs[0]);
                st.ctrl[0] = vec![0xAAu8; *ctrl];
                let mh = MsgHdr {
                    msg_name: core::ptr::null(),
                    msg_namelen: 0,
                    msg_iov: st.iov[0].as_mut_ptr().cast(),
                    msg_iovlen: st.iov[0].len(),
                    msg_control: if *ctrl == 0 { core::ptr::null_mut() } else { st.ctrl[0].as_mut_ptr().cast() },
                    msg_controllen: *ctrl,
                    msg_flags: 0,
                };
                st.mh_a = Some(Box::new(mh));
                IoUringSubmissionQueueEntry::new_recvmsg(rfd(fdnum(f, w, 0)), &mut **st.mh_a.as_mut().unwrap(), *flags, ud, sqe_flags(fl))
            }
            Op::Timeout { sec, nsec, relative, count } => {
                let (s, n) = if *relative {
                    (*sec, *nsec)
                } else {
                    let (ns, nn) = sys::mono_now();
                    let tot = i128::from(ns) * 1_000_000_000 + i128::from(nn) + i128::from(*sec) * 1_000_000_000 + i128::from(*nsec);
                    ((tot.div_euclid(1_000_000_000)) as i64, (tot.rem_euclid(1_000_000_000)) as i64)
                };
                *st.ts = TimeSpec::new(s, n);
                IoUringSubmissionQueueEntry::new_timeout(&st.ts, *relative, *count, ud, sqe_flags(fl))
            }
            Op::PollAdd { f, events } => {
                setf(f, &mut fl);
                IoUringSubmissionQueueEntry::new_poll_add(
                    rfd(fdnum(f, w, 0)),
                    core::mem::transmute::<i16, PollEvents>(*events),
                    PollAddMultiFlags::empty(),
                    ud,
                    sqe_flags(fl),
                )
            }
        }
    }

    /// The equivalent direct system call on side B; value or -errno.
    pub fn direct(&mut self, w: &World) -> i64 {
        let st = &mut *self.st;
        match &self.op {
            Op::Readv { f, lens } => {
                st.bufs[1] = lens.iter().map(|l| vec![0xAAu8; *l]).collect();
                st.iov[1] = mk_iov(&mut st.bufs[1]);
                let fd = fdnum(f, w, 1);
                if is_stream_fd(f, w) {
                    sys::readv(fd, st.iov[1].as_ptr().cast(), lens.len())
                } else {
                    sys::preadv(fd, st.iov[1].as_ptr().cast(), lens.len(), 0)
                }
            }
            Op::Writev { f, chunks } => {
                st.bufs[1] = chunks.clone();
                st.iov[1] = mk_iov(&mut st.bufs[1]);
                let fd = fdnum(f, w, 1);
                if is_stream_fd(f, w) {
                    sys::writev(fd, st.iov[1].as_ptr().cast(), chunks.len())
                } else {
                    sys::pwritev(fd, st.iov[1].as_ptr().cast(), chunks.len(), 0)
                }
            }
            Op::ReadFixed { f, len, .. } => {
                st.bufs[1] = vec![vec![0xAAu8; *len]];
                let fd = fdnum(f, w, 1);
                if is_stream_fd(f, w) {
                    sys::read(fd, &mut st.bufs[1][0])
                } else {
                    sys::pread(fd, &mut st.bufs[1][0], 0)
                }
            }
            Op::WriteFixed { f, data, .. } => {
                let fd = fdnum(f, w, 1);
                if is_stream_fd(f, w) {
                    sys::write(fd, data)
                } else {
                    sys::pwrite(fd, data, 0)
                }
            }
            Op::Openat { p, flags, mode } => {
                let (d, path) = inst_path(p, w, 1);
                st.path[1] = path;
                sys::openat(dfd(d), &st.path[1], *flags, *mode)
            }
            Op::Close { f } => sys::close(fdnum(f, w, 1)),
            Op::Statx { p, flags, mask } => {
                let (d, path) = inst_path(p, w, 1);
                st.path[1] = path;
                sys::statx(dfd(d), &st.path[1], *flags, *mask, st.stx[1].0.as_mut_ptr())
            }
            Op::Mkdirat { p, mode } => {
                let (d, path) = inst_path(p, w, 1);
                st.path[1] = path;
                sys::mkdirat(dfd(d), &st.path[1], *mode)
            }
            Op::Unlinkat { p, rmdir } => {
                let (d, path) = inst_path(p, w, 1);
                st.path[1] = path;
                sys::unlinkat(dfd(d), &st.path[1], if *rmdir { 0x200 } else { 0 })
            }
            Op::Renameat { old, new, flags } => {
                let (d1, p1) = inst_path(old, w, 1);
                let (d2, p2) = inst_path(new, w, 1);
                st.path[1] = p1;
                st.path2[1] = p2;
                sys::renameat2(dfd(d1), &st.path[1], dfd(d2), &st.path2[1], *flags)
            }
            Op::Socket { domain, ty, flags, proto } => {
                // the constructor can only express the families / types in the tables above
                let d = i32::from(unsafe { core::mem::transmute::<AddressFamily, u16>(family(*domain)) });
                let t = unsafe { core::mem::transmute::<SocketType, u32>(socktype(*ty)) } as i32;
                sys::socket(d, t | *flags, *proto as i32)
            }
            Op::ConnectUnix { f, target } => {
                let sa = crate::world::sockaddr_un(&w.abs(1, target));
                sys::connect(fdnum(f, w, 1), &sa)
            }
            Op::Accept { f, inet, flags, want_addr } => {
                *st.addrlen_b = if *inet { 16 } else { 110 };
                let (ap, lp): (*mut u8, *mut u32) =
                    if *want_addr { (st.addr[1].as_mut_ptr(), &mut *st.addrlen_b) } else { (core::ptr::null_mut(), core::ptr::null_mut()) };
                sys::accept4(fdnum(f, w, 1), ap, lp, *flags)
            }
            Op::Sendmsg { f, chunks, scm, flags, .. } => {
                st.bufs[1] = chunks.clone();
                st.iov[1] = mk_iov(&mut st.bufs[1]);
                let fds: Vec<i32> = scm.iter().map(|i| w.fds[*i].fd[1]).collect();
                st.ctrl[1] = scm_control(&fds);
                let mh = RawMsgHdr {
                    name: core::ptr::null_mut(),
                    namelen: 0,
                    iov: st.iov[1].as_mut_ptr(),
                    iovlen: st.iov[1].len(),
                    control: if fds.is_empty() { core::ptr::null_mut() } else { st.ctrl[1].as_mut_ptr() },
                    controllen: st.ctrl[1].len(),
                    flags: 0,
                };
                st.mh_b = Some(Box::new(mh));
                sys::sendmsg(fdnum(f, w, 1), (&**st.mh_b.as_ref().unwrap() as *const RawMsgHdr).cast(), *flags)
            }
            Op::Recvmsg { f, lens, ctrl, flags } => {
                st.bufs[1] = lens.iter().map(|l| vec![0xAAu8; *l]).collect();
                st.iov[1] = mk_iov(&mut st.bufs[1]);
                st.ctrl[1] = vec![0xAAu8; *ctrl];
                let mh = RawMsgHdr {
                    name: core::ptr::null_mut(),
                    namelen: 0,
                    iov: st.iov[1].as_mut_ptr(),
                    iovlen: st.iov[1].len(),
                    control: if *ctrl == 0 { core::ptr::null_mut() } else { st.ctrl[1].as_mut_ptr() },
                    controllen: *ctrl,
                    flags: 0,
                };
                st.mh_b = Some(Box::new(mh));
                sys::recvmsg(fdnum(f, w, 1), (&mut **st.mh_b.as_mut().unwrap() as *mut RawMsgHdr).cast(), *flags)
            }
            Op::Timeout { sec, nsec, relative, count } => {
                if count.is_some() {
                    // completes through the completion count, before the (long) timer: nothing to wait for
                    if *sec < 0 || *nsec < 0 || *nsec >= 1_000_000_000 {
                        return -22;
                    }
                    return 0;
                }
                let r = if *relative {
                    sys::clock_nanosleep(false, *sec, *nsec)
                } else {
                    let (ns, nn) = sys::mono_now();
                    let tot = i128::from(ns) * 1_000_000_000 + i128::from(nn) + i128::from(*sec) * 1_000_000_000 + i128::from(*nsec);
                    sys::clock_nanosleep(true, tot.div_euclid(1_000_000_000) as i64, tot.rem_euclid(1_000_000_000) as i64)
                };
                if r == 0 {
                    -sys::ETIME
                } else {
                    r
                }
            }
            Op::PollAdd { f, events } => {
                let (r, rev) = sys::poll1(fdnum(f, w, 1), *events, 0);
                if r < 0 {
                    r
                } else if rev & 0x20 != 0 {
                    -sys::EBADF
                } else if r == 0 {
                    i64::MIN // not ready on the direct side: nothing to compare against
                } else {
                    i64::from(rev as u16)
                }
            }
        }
    }

    /// Compare results and out-parameters of the two sides. Returns (what, detail) pairs for mismatches.
    pub fn compare(&self, w: &World, ring: &RingInfo) -> Vec<(String, String)> {
        let mut bad = Vec::new();
        let (Some(ra), Some(rb)) = (self.res_a, self.res_b) else { return bad };
        let ra = i64::from(ra);
        let st = &*self.st;
        if rb == i64::MIN {
            return bad;
        }
        let fd_result = matches!(self.op, Op::Openat { .. } | Op::Socket { .. } | Op::Accept { .. });
        if fd_result {
            if (ra >= 0) != (rb >= 0) || (ra < 0 && ra != rb) {
                bad.push(("res-mismatch".into(), format!("io_uring res {} direct {}", show(ra), show(rb))));
                return bad;
            }
            if ra >= 0 {
                let ia = w.identity(ra as i32);
                let ib = w.identity(rb as i32);
                if ia != ib {
                    bad.push(("fd-designates-other".into(), format!("io_uring fd designates [{ia}], direct fd designates [{ib}]")));
                }
            }
        } else if ra != rb {
            bad.push(("res-mismatch".into(), format!("io_uring res {} direct {}", show(ra), show(rb))));
            return bad;
        }
        let flat = |v: &Vec<Vec<u8>>| -> Vec<u8> { v.iter().flatten().copied().collect() };
        match &self.op {
            Op::Readv { .. } if ra >= 0 => {
                if flat(&st.bufs[0]) != flat(&st.bufs[1]) {
                    bad.push(("data-mismatch".into(), format!("bytes read differ (res {ra})")));
                }
            }
            Op::ReadFixed { len, .. } if ra >= 0 => {
                let a = unsafe { core::slice::from_raw_parts(st.fixed_addr as *const u8, *len) };
                if a != &st.bufs[1][0][..] {
                    bad.push(("data-mismatch".into(), format!("bytes read into the registered buffer differ (res {ra})")));
                }
            }
            Op::Statx { .. } if ra == 0 => {
                let a = &st.stx[0].0;
                let b = &st.stx[1].0;
                // mask, blksize, attributes, nlink, uid, gid, mode | size | attributes_mask | rdev, dev | mnt_id
                for (name, lo, hi) in [("mask..mode", 0usize, 30usize), ("size", 40, 48), ("attributes_mask", 56, 64), ("rdev/dev", 128, 144), ("mnt_id", 144, 152)] {
                    if a[lo..hi] != b[lo..hi] {
                        bad.push(("statx-field-mismatch".into(), format!("statx bytes {lo}..{hi} ({name}) differ: {:?} vs {:?}", &a[lo..hi], &b[lo..hi])));
                        break;
                    }
                }
            }
            Op::Accept { want_addr: true, inet, .. } if ra >= 0 => {
                let la = st.addrlen_a[0] as usize;
                let lb = *st.addrlen_b as usize;
                if la != lb {
                    bad.push(("addrlen-mismatch".into(), format!("peer address length {la} vs {lb}")));
                } else if *inet {
                    // the peer is this op's own client socket on each side
                    if let Some(c) = self.client {
                        let na = sys::getsockname(c[0]);
                        let nb = sys::getsockname(c[1]);
                        if st.addr[0][..la.min(8)] != na[..la.min(8).min(na.len())] || st.addr[1][..lb.min(8)] != nb[..lb.min(8).min(nb.len())] {
                            bad.push(("peer-addr-mismatch".into(), format!("accepted peer {:?} / client {:?}; direct {:?} / client {:?}", &st.addr[0][..8], na, &st.addr[1][..8], nb)));
                        }
                    }
                } else if st.addr[0][..la.min(110)] != st.addr[1][..lb.min(110)] {
                    bad.push(("peer-addr-mismatch".into(), "unix peer address bytes differ".into()));
                }
            }
            Op::Recvmsg { ctrl, .. } if ra >= 0 => {
                if flat(&st.bufs[0]) != flat(&st.bufs[1]) {
                    bad.push(("data-mismatch".into(), format!("bytes received differ (res {ra})")));
                }
                let ma = st.mh_a.as_ref().unwrap();
                let mb = st.mh_b.as_ref().unwrap();
                if ma.msg_flags != mb.flags || ma.msg_controllen != mb.controllen {
                    bad.push((
                        "msghdr-mismatch".into(),
                        format!("msg_flags {:#x} vs {:#x}, msg_controllen {} vs {}", ma.msg_flags, mb.flags, ma.msg_controllen, mb.controllen),
                    ));
                } else if *ctrl > 0 {
                    let fa = parse_scm(&st.ctrl[0], ma.msg_controllen);
                    let fb = parse_scm(&st.ctrl[1], mb.controllen);
                    let ia: Vec<String> = fa.iter().map(|f| w.identity(*f)).collect();
                    let ib: Vec<String> = fb.iter().map(|f| w.identity(*f)).collect();
                    if ia != ib {
                        bad.push(("passed-fd-mismatch".into(), format!("received descriptors designate {ia:?} vs {ib:?}")));
                    }
                }
            }
            Op::Timeout { sec, nsec, relative, count: None } if ra == -sys::ETIME => {
                // lower bounds only: relative = since just before submission; absolute = the deadline itself
                if *relative {
                    let want = i128::from(*sec) * 1_000_000_000 + i128::from(*nsec);
                    if self.t_reap - self.t_submit < want {
                        bad.push(("early".into(), format!("completion reaped {} ns after submission, timeout was {} ns", self.t_reap - self.t_submit, want)));
                    }
                } else {
                    let deadline = i128::from(st.ts.seconds()) * 1_000_000_000 + i128::from(st.ts.nanoseconds());
                    if self.t_reap < deadline {
                        bad.push(("early".into(), format!("completion reaped at monotonic {} ns, absolute deadline was {} ns", self.t_reap, deadline)));
                    }
                }
            }
            _ => {}
        }
        let _ = ring;
        bad
    }

    pub fn describe(&self) -> String {
        let mut s = format!("{:?}", self.op);
        if s.len() > 300 {
            s.truncate(300);
            s.push_str("...");
        }
        format!("{s} sqe_flags={:#x}", self.fl)
    }
}

pub fn show(r: i64) -> String {
    if r < 0 {
        format!("-{}", sys::errname(r))
    } else {
        r.to_string()
    }
}
