//! Batch generator: units (single operations, IOSQE_IO_LINK chains, wake-up pairs) over disjoint resource groups.
#![allow(dead_code)]
use crate::ops::{DirRef, FdRef, Op, OpRun, PathSpec, FAMILIES, F_ASYNC, F_DRAIN, F_HARDLINK, F_LINK, SOCKTYPES};
use crate::sys;
use crate::world::{FdKind, PairKind, TFd, World, G_PERM, NENT, NPERM};
use std::collections::HashSet;
use vh::Rng;

pub const NBUF: usize = 4;
pub const BUFSZ: usize = 8192;

pub struct Batch {
    pub ops: Vec<Box<OpRun>>,
    /// (op index, listener index): connect a client after the batch was submitted
    pub post: Vec<(usize, usize)>,
    /// some op waits for another op of the batch: no IOSQE_IO_DRAIN decoration
    pub has_dep: bool,
    pub chains: usize,
    pub groups: HashSet<u32>,
}

pub struct Gen<'a> {
    pub w: &'a mut World,
    pub r: &'a mut Rng,
    pub claimed: HashSet<u32>,
    pub region: [usize; NBUF],
    pub disabled: &'a HashSet<String>,
    pub timeouts: usize,
    pub skipped_presync: u64,
    /// counting timeouts and IOSQE_IO_DRAIN are not mixed on one ring (see the caller)
    pub allow_count_timeout: bool,
    pub allow_drain: bool,
}

#[derive(Clone, Copy, PartialEq, Eq)]
enum Want {
    Absent,
    File,
    DirWithChild,
}

impl<'a> Gen<'a> {
    fn claim(&mut self, g: u32) -> bool {
        self.claimed.insert(g)
    }
    fn free_entry(&mut self) -> Option<usize> {
        for _ in 0..12 {
            let k = self.r.below(NENT as u64) as usize;
            if self.claim(k as u32) {
                return Some(k);
            }
        }
        None
    }
    fn alloc_region(&mut self, len: usize) -> Option<(usize, usize)> {
        let start = self.r.below(NBUF as u64) as usize;
        for j in 0..NBUF {
            let b = (start + j) % NBUF;
            if self.region[b] + len <= BUFSZ {
                let off = self.region[b];
                self.region[b] += len.max(1);
                return Some((b, off));
            }
        }
        None
    }
    fn mode(&mut self) -> u32 {
        *self.r.pick(&[0o777u32, 0o755, 0o700, 0o644, 0o600, 0o444, 0o000, 0o1777, 0o2755])
    }
    fn entry_fds(&self, k: usize) -> Vec<usize> {
        (0..self.w.fds.len()).filter(|i| self.w.fds[*i].alive && self.w.fds[*i].group == k as u32).collect()
    }

    fn path(&mut self, k: usize, prep_fail_ok: bool) -> PathSpec {
        let top = if self.r.chance(7, 10) { format!("e{k}") } else { format!("f{k}") };
        let mut rel = match self.r.below(20) {
            0..=10 => top.clone(),
            11..=16 => format!("{top}/c{}", self.r.below(3)),
            17 => format!("{top}/c0/x"),
            18 => format!("{top}/{}", "n".repeat(300)),
            _ => {
                if prep_fail_ok {
                    String::new()
                } else {
                    top.clone()
                }
            }
        };
        let dir = match self.r.below(20) {
            0..=9 => DirRef::Root,
            10..=14 => DirRef::Cwd,
            15..=17 => {
                let fds = self.entry_fds(k);
                if fds.is_empty() {
                    DirRef::Root
                } else {
                    let t = *self.r.pick(&fds);
                    rel = match self.r.below(4) {
                        0 => String::from("."),
                        1 => format!("c{}", self.r.below(3)),
                        2 => format!("../e{k}"),
                        _ => format!("c{}", self.r.below(3)),
                    };
                    DirRef::Fd(t)
                }
            }
            18 => DirRef::Bad,
            _ => DirRef::Root,
        };
        if matches!(dir, DirRef::Cwd) && rel.is_empty() {
            rel = top;
        }
        PathSpec { dir, rel }
    }

    fn open_flags(&mut self) -> i32 {
        let mut f = *self.r.pick(&[sys::O_RDONLY, sys::O_WRONLY, sys::O_RDWR, sys::O_RDWR]);
        for (bit, num, den) in [
            (sys::O_CREAT, 2, 5),
            (sys::O_EXCL, 1, 6),
            (sys::O_TRUNC, 1, 8),
            (sys::O_APPEND, 1, 8),
            (sys::O_DIRECTORY, 1, 8),
            (sys::O_CLOEXEC, 1, 2),
            (sys::O_NOFOLLOW, 1, 10),
            (sys::O_NONBLOCK, 1, 10),
            (sys::O_PATH, 1, 25),
        ] {
            if self.r.chance(num, den) {
                f |= bit;
            }
        }
        f
    }

    fn fs_op(&mut self, k: usize, prep_fail_ok: bool) -> Op {
        let mut op = match self.r.below(100) {
            0..=17 => Op::Mkdirat { p: self.path(k, prep_fail_ok), mode: self.mode() },
            18..=22 => {
                // unnamed temporary file in a directory of the entry (or the side root): created with `mode` although
                // O_CREAT is absent; ENOTDIR / ENOENT when the entry is no directory, EOPNOTSUPP if the fs cannot
                let dir = match self.r.below(4) {
                    0 => PathSpec { dir: DirRef::Root, rel: String::from(".") },
                    1 => PathSpec { dir: DirRef::Cwd, rel: format!("e{k}") },
                    _ => PathSpec { dir: DirRef::Root, rel: format!("e{k}") },
                };
                let mut flags = sys::O_TMPFILE | if self.r.chance(1, 2) { sys::O_RDWR } else { sys::O_WRONLY };
                if prep_fail_ok && self.r.chance(1, 12) {
                    flags = sys::O_TMPFILE; // O_RDONLY: EINVAL
                }
                for (bit, num, den) in [(sys::O_EXCL, 1, 4), (sys::O_CLOEXEC, 1, 2), (sys::O_APPEND, 1, 8)] {
                    if self.r.chance(num, den) {
                        flags |= bit;
                    }
                }
                Op::Openat { p: dir, flags, mode: self.mode() }
            }
            23..=41 => Op::Openat { p: self.path(k, prep_fail_ok), flags: self.open_flags(), mode: self.mode() },
            42..=61 => {
                let flags = *self.r.pick(&[0, 0, 0, 0x800, 0x1000, 0x2000, 0x4000, 0x400]);
                let mask = *self.r.pick(&[0x7ffu32, 0x7ff, 0x200, 0x3, 0xfff, 0, 0x8000_0000]);
                let mut p = self.path(k, prep_fail_ok);
                if flags == 0x1000 && matches!(p.dir, DirRef::Fd(_)) && self.r.chance(1, 2) {
                    p.rel = String::new();
                }
                Op::Statx { p, flags, mask }
            }
            62..=79 => Op::Unlinkat { p: self.path(k, prep_fail_ok), rmdir: self.r.chance(1, 2) },
            _ => {
                let flags = *self.r.pick(&[0u32, 0, 0, 1, 2, if prep_fail_ok { 3 } else { 0 }]);
                Op::Renameat { old: self.path(k, prep_fail_ok), new: self.path(k, prep_fail_ok), flags }
            }
        };
        // with an empty path keep every other argument valid: which of two invalid arguments is reported
        // first differs between the system call and the io_uring preparation step (kernel matter)
        match &mut op {
            Op::Openat { p, flags, .. } if p.rel.is_empty() => *flags = sys::O_RDONLY,
            Op::Statx { p, flags, mask } if p.rel.is_empty() => {
                // AT_EMPTY_PATH only on a descriptor of the entry: the side root is shared by all units of a batch
                if *flags != 0x1000 || !matches!(p.dir, DirRef::Fd(_)) {
                    *flags = 0;
                }
                *mask = 0x7ff;
            }
            Op::Renameat { old, new, flags } if old.rel.is_empty() || new.rel.is_empty() => {
                *flags = 0;
                for p in [old, new] {
                    p.dir = DirRef::Root;
                    if !p.rel.is_empty() {
                        p.rel = format!("e{k}");
                    }
                }
            }
            _ => {}
        }
        op
    }

    fn force(&mut self, k: usize, want: Want) {
        // closes the entry's descriptors and rebuilds the names directly on both sides
        loop {
            self.w.seed_entry(k, self.r);
            let p = self.w.abs(1, &format!("e{k}"));
            let m = std::fs::symlink_metadata(&p);
            let ok = match want {
                Want::Absent => m.is_err(),
                Want::File => m.as_ref().map(|m| m.is_file()).unwrap_or(false),
                Want::DirWithChild => {
                    m.as_ref().map(|m| m.is_dir()).unwrap_or(false) && std::fs::read_dir(&p).map(|d| d.count() > 0).unwrap_or(false)
                }
            };
            if ok {
                return;
            }
        }
    }

    fn rw_op_on(&mut self, f: FdRef, size_hint: usize) -> Op {
        let mut op = self.rw_op_raw(f.clone(), size_hint);
        // zero-length transfers on something that is not a regular file: whether the type check (EISDIR ...) or the
        // zero-length shortcut comes first differs between the system call and the io_uring path (kernel matter)
        let regular = match &f {
            FdRef::T(t) => self.w.fds[*t].kind == FdKind::File,
            _ => true,
        };
        if !regular && op.rw_len() == Some(0) {
            match &mut op {
                Op::Readv { lens, .. } => lens[0] = 7,
                Op::Writev { chunks, .. } => chunks[0] = vec![1, 2, 3],
                Op::ReadFixed { len, .. } => *len = 7,
                Op::WriteFixed { data, .. } => *data = vec![1, 2, 3],
                _ => {}
            }
        }
        op
    }

    fn rw_op_raw(&mut self, f: FdRef, size_hint: usize) -> Op {
        match self.r.below(4) {
            0 => {
                let n = self.r.range(1, 3) as usize;
                let lens = (0..n).map(|_| if self.r.chance(1, 8) { 0 } else { self.r.below(2048) as usize }).collect();
                Op::Readv { f, lens }
            }
            1 => {
                let n = self.r.range(1, 3) as usize;
                let chunks = (0..n)
                    .map(|_| {
                        let l = if self.r.chance(1, 8) { 0 } else { self.r.below(1500) as usize };
                        self.r.bytes(l)
                    })
                    .collect();
                Op::Writev { f, chunks }
            }
            2 => {
                let len = if self.r.chance(1, 3) { size_hint.min(2048) } else { self.r.below(2048) as usize };
                match self.alloc_region(len.max(8)) {
                    Some((buf, off)) => Op::ReadFixed { f, buf, off, len },
                    None => Op::Readv { f, lens: vec![len] },
                }
            }
            _ => {
                let l = self.r.below(2048) as usize;
                let data = self.r.bytes(l);
                match self.alloc_region(data.len().max(8)) {
                    Some((buf, off)) => Op::WriteFixed { f, buf, off, data },
                    None => Op::Writev { f, chunks: vec![data] },
                }
            }
        }
    }

    // ---------------------------------------------------------------- units
    fn unit_fs_single(&mut self) -> Option<Vec<Box<OpRun>>> {
        let k = self.free_entry()?;
        let op = self.fs_op(k, true);
        let mut o = OpRun::new(op, 0);
        o.li = k; // entry the op belongs to (for attaching new descriptors)
        Some(vec![o])
    }

    fn unit_fs_chain(&mut self, room: usize, chain_id: usize) -> Option<Vec<Box<OpRun>>> {
        if room < 2 {
            return None;
        }
        let k = self.free_entry()?;
        let maxl = room.min(7);
        let e = |s: &str| PathSpec { dir: DirRef::Root, rel: s.to_string() };
        let en = format!("e{k}");
        let fnm = format!("f{k}");
        let c0 = format!("e{k}/c0");
        let mut ops: Vec<Op> = match self.r.below(8) {
            0 => {
                self.force(k, Want::Absent);
                vec![
                    Op::Mkdirat { p: e(&en), mode: 0o755 },
                    Op::Openat { p: e(&c0), flags: sys::O_CREAT | sys::O_RDWR, mode: 0o644 },
                    Op::Statx { p: e(&c0), flags: 0, mask: 0x7ff },
                    Op::Unlinkat { p: e(&c0), rmdir: false },
                    Op::Unlinkat { p: e(&en), rmdir: true },
                    Op::Statx { p: e(&en), flags: 0, mask: 0x7ff },
                ]
            }
            1 => {
                self.force(k, Want::Absent);
                vec![
                    Op::Openat { p: e(&en), flags: sys::O_CREAT | sys::O_EXCL | sys::O_WRONLY, mode: 0o600 },
                    Op::Statx { p: PathSpec { dir: DirRef::Cwd, rel: en.clone() }, flags: 0, mask: 0x7ff },
                    Op::Renameat { old: e(&en), new: e(&fnm), flags: 1 },
                    Op::Statx { p: e(&fnm), flags: 0, mask: 0x200 },
                    Op::Unlinkat { p: e(&fnm), rmdir: false },
                    Op::Mkdirat { p: e(&fnm), mode: 0o700 },
                ]
            }
            2 => {
                self.force(k, Want::DirWithChild);
                vec![
                    Op::Statx { p: e(&en), flags: 0, mask: 0x7ff },
                    Op::Unlinkat { p: e(&en), rmdir: true },
                    Op::Statx { p: e(&en), flags: 0, mask: 0x7ff },
                    Op::Mkdirat { p: e(&fnm), mode: 0o755 },
                ]
            }
            3 => {
                self.force(k, Want::Absent);
                vec![
                    Op::Mkdirat { p: e(&en), mode: 0o711 },
                    Op::Mkdirat { p: e(&en), mode: 0o711 },
                    Op::Statx { p: e(&en), flags: 0, mask: 0x7ff },
                    Op::Unlinkat { p: e(&en), rmdir: true },
                ]
            }
            4 => {
                // read/write chain on a descriptor of a file entry
                self.force(k, Want::File);
                let mut fd = [-1; 2];
                for s in 0..2 {
                    let mut p = self.w.abs(s, &en).into_bytes();
                    p.push(0);
                    fd[s] = sys::openat(sys::AT_FDCWD, &p, sys::O_RDWR, 0) as i32;
                }
                if fd[0] < 0 || fd[1] < 0 {
                    return None;
                }
                let t = self.w.add(TFd {
                    fd,
                    kind: FdKind::File,
                    group: k as u32,
                    alive: true,
                    permanent: false,
                    acc: sys::O_RDWR,
                    domain: 0,
                    ty: 0,
                    peer: usize::MAX,
                    pkind: PairKind::UnixStream,
                });
                let l = self.r.range(1, 1800) as usize;
                let data = self.r.bytes(l);
                let n = data.len();
                let exact = self.r.chance(2, 3);
                vec![
                    Op::Writev { f: FdRef::T(t), chunks: vec![data[..n / 2].to_vec(), data[n / 2..].to_vec()] },
                    Op::Readv { f: FdRef::T(t), lens: vec![if exact { n } else { n + 9000 }] },
                    Op::Statx { p: PathSpec { dir: DirRef::Fd(t), rel: String::new() }, flags: 0x1000, mask: 0x7ff },
                    Op::Close { f: FdRef::T(t) },
                    Op::Statx { p: e(&en), flags: 0, mask: 0x7ff },
                ]
            }
            _ => (0..maxl).map(|_| self.fs_op(k, false)).collect(),
        };
        let l = self.r.range(2, maxl.min(ops.len()).max(2) as u64) as usize;
        ops.truncate(l.min(ops.len()));
        if ops.len() < 2 {
            return None;
        }
        let hard_all = self.r.chance(1, 8);
        let n = ops.len();
        let mut out = Vec::new();
        for (i, op) in ops.into_iter().enumerate() {
            let mut fl = 0;
            if i + 1 < n {
                fl |= if hard_all || self.r.chance(1, 12) { F_HARDLINK } else { F_LINK };
            }
            if self.r.chance(1, 20) {
                fl |= F_ASYNC;
            }
            let mut o = OpRun::new(op, fl);
            o.chain = Some(chain_id);
            o.li = k;
            out.push(o);
        }
        Some(out)
    }

    fn unit_fd(&mut self, room: usize, chain_id: usize) -> Option<Vec<Box<OpRun>>> {
        let cands: Vec<usize> = (0..self.w.fds.len())
            .filter(|i| {
                let t = &self.w.fds[*i];
                t.alive && !t.permanent && matches!(t.kind, FdKind::File | FdKind::Dir) && !self.claimed.contains(&t.group)
            })
            .collect();
        if cands.is_empty() {
            return None;
        }
        let t = *self.r.pick(&cands);
        let g = self.w.fds[t].group;
        self.claim(g);
        let f = FdRef::T(t);
        let mk = |op: Op, g: u32| {
            let mut o = OpRun::new(op, 0);
            o.li = g as usize;
            o
        };
        let pick = self.r.below(100);
        if pick < 12 {
            return Some(vec![mk(Op::Close { f }, g)]);
        }
        if pick < 22 {
            let ev = *self.r.pick(&[1i16, 4, 5, 0x41, 0x2001]);
            return Some(vec![mk(Op::PollAdd { f, events: ev }, g)]);
        }
        if pick < 32 {
            return Some(vec![mk(
                Op::Statx { p: PathSpec { dir: DirRef::Fd(t), rel: String::new() }, flags: 0x1000, mask: 0x7ff },
                g,
            )]);
        }
        if pick < 50 && room >= 2 {
            let n = self.r.range(2, room.min(4) as u64) as usize;
            let mut out = Vec::new();
            for i in 0..n {
                let op = self.rw_op_on(f.clone(), 600);
                let mut o = mk(op, g);
                if i + 1 < n {
                    o.fl |= if self.r.chance(1, 8) { F_HARDLINK } else { F_LINK };
                }
                o.chain = Some(chain_id);
                out.push(o);
            }
            return Some(out);
        }
        let op = self.rw_op_on(f, 600);
        Some(vec![mk(op, g)])
    }

    fn unit_perm(&mut self) -> Option<Vec<Box<OpRun>>> {
        let i = self.r.below(NPERM as u64) as usize;
        if !self.claim(G_PERM + i as u32) {
            return None;
        }
        let f = if self.r.chance(1, 2) { FdRef::Fixed(i) } else { FdRef::T(self.w.perm[i]) };
        let op = if self.r.chance(1, 8) {
            Op::PollAdd { f, events: *self.r.pick(&[1i16, 4, 5]) }
        } else {
            self.rw_op_on(f, 3000)
        };
        Some(vec![OpRun::new(op, 0)])
    }

    fn unit_socket(&mut self) -> Option<Vec<Box<OpRun>>> {
        let (domain, ty, proto) = if self.r.chance(1, 2) {
            (*self.r.pick(&[1, 1, 2, 10]), *self.r.pick(&[1, 2, 1, 5]), 0u32)
        } else {
            (*self.r.pick(&FAMILIES), *self.r.pick(&SOCKTYPES), *self.r.pick(&[0u32, 0, 6, 17, 1, 255, 41]))
        };
        let flags = *self.r.pick(&[0, sys::O_NONBLOCK, sys::O_CLOEXEC, sys::O_NONBLOCK | sys::O_CLOEXEC]);
        Some(vec![OpRun::new(Op::Socket { domain, ty, flags, proto }, 0)])
    }

    fn payload(&mut self) -> Vec<Vec<u8>> {
        let n = self.r.range(1, 3) as usize;
        (0..n)
            .map(|_| {
                let l = if self.r.chance(1, 10) { 0 } else { self.r.range(1, 700) as usize };
                self.r.bytes(l)
            })
            .collect()
    }

    fn send_op(&mut self, x: usize) -> Op {
        let unix = self.w.fds[x].domain == 1;
        let scm = if unix && self.r.chance(1, 3) {
            (0..self.r.range(1, 2)).map(|_| self.w.perm[self.r.below(NPERM as u64) as usize]).collect()
        } else {
            Vec::new()
        };
        let mut chunks = self.payload();
        if !scm.is_empty() && chunks.iter().all(Vec::is_empty) {
            chunks = vec![vec![7u8; 3]];
        }
        let flags = *self.r.pick(&[0, 0, 0x40, 0x4000, 0x4040]);
        Op::Sendmsg { f: FdRef::T(x), chunks, scm, flags, raw: self.r.chance(1, 2) }
    }

    fn recv_op(&mut self, y: usize, flags: i32) -> Op {
        let n = self.r.range(1, 3) as usize;
        let lens = (0..n).map(|_| self.r.range(1, 900) as usize).collect();
        let ctrl = *self.r.pick(&[0usize, 0, 24, 32, 64, 16]);
        Op::Recvmsg { f: FdRef::T(y), lens, ctrl, flags }
    }

    /// both twins report the same non-empty readiness for `events` right now
    fn poll_ready(&self, t: usize, events: i16) -> bool {
        let a = sys::poll1(self.w.fds[t].fd[0], events, 0);
        let b = sys::poll1(self.w.fds[t].fd[1], events, 0);
        a.0 > 0 && a == b
    }

    fn unit_pair(&mut self, room: usize, chain_id: usize, b: &mut Batch) -> Option<Vec<Box<OpRun>>> {
        let cands: Vec<usize> = (0..self.w.fds.len())
            .filter(|i| {
                let t = &self.w.fds[*i];
                t.alive && t.kind == FdKind::SockEnd && !self.claimed.contains(&t.group)
            })
            .collect();
        if cands.is_empty() {
            return None;
        }
        let x = *self.r.pick(&cands);
        let y = self.w.fds[x].peer;
        let g = self.w.fds[x].group;
        self.claim(g);
        let peer_alive = y != usize::MAX && self.w.fds[y].alive;
        let tcp = self.w.fds[x].pkind == PairKind::Tcp;
        if !peer_alive {
            // the other end was closed: EPIPE / EOF / POLLHUP classes (unix only: TCP teardown is asynchronous)
            if !tcp && !self.w.sock_state_settled(x) {
                self.skipped_presync += 1;
                return None;
            }
            if tcp {
                return Some(vec![OpRun::new(Op::Close { f: FdRef::T(x) }, 0)]);
            }
            let op = match self.r.below(4) {
                0 => self.send_op(x),
                1 => self.recv_op(x, 0x40),
                2 if self.poll_ready(x, 0x2011) => Op::PollAdd { f: FdRef::T(x), events: 0x2011 },
                _ => Op::Close { f: FdRef::T(x) },
            };
            return Some(vec![OpRun::new(op, 0)]);
        }
        // receiving end y: both twins must hold the same amount of pending data
        let sa = self.w.sock_state(y);
        if sa[0].0 != sa[1].0 {
            self.skipped_presync += 1;
            return None;
        }
        let pending = sa[0].0;
        let stream = self.w.fds[x].ty == 1;
        let pick = self.r.below(100);
        if pick < 6 {
            return Some(vec![OpRun::new(Op::Close { f: FdRef::T(x) }, 0)]);
        }
        if pending > 0 {
            // drain first: keeps socket buffers short
            if pick < 60 {
                let fl = *self.r.pick(&[0, 0, 0x40, 0x2, 0x20]);
                return Some(vec![OpRun::new(self.recv_op(y, fl), 0)]);
            }
            if pick < 70 {
                let ev = *self.r.pick(&[1i16, 5, 0x41]);
                if self.poll_ready(y, ev) {
                    return Some(vec![OpRun::new(Op::PollAdd { f: FdRef::T(y), events: ev }, 0)]);
                }
            }
            if pick < 80 && stream && !tcp {
                let lens = vec![self.r.range(1, 600) as usize];
                return Some(vec![OpRun::new(Op::Readv { f: FdRef::T(y), lens }, 0)]);
            }
            if pending > 60_000 {
                return Some(vec![OpRun::new(self.recv_op(y, 0x40), 0)]);
            }
            return Some(vec![OpRun::new(self.send_op(x), 0)]);
        }
        // nothing pending
        if pick < 25 {
            return Some(vec![OpRun::new(self.send_op(x), 0)]);
        }
        if pick < 35 {
            return Some(vec![OpRun::new(self.recv_op(y, 0x40), 0)]); // MSG_DONTWAIT -> EAGAIN
        }
        if pick < 42 && self.poll_ready(x, 4) {
            return Some(vec![OpRun::new(Op::PollAdd { f: FdRef::T(x), events: 4 }, 0)]);
        }
        if pick < 50 && stream && !tcp {
            let chunks = self.payload();
            return Some(vec![OpRun::new(Op::Writev { f: FdRef::T(x), chunks }, 0)]);
        }
        if room < 2 {
            return Some(vec![OpRun::new(self.send_op(x), 0)]);
        }
        if pick < 70 && !tcp {
            // linked: send, then receive what was sent
            let mut send = self.send_op(x);
            if let Op::Sendmsg { chunks, flags, .. } = &mut send {
                if chunks.iter().all(Vec::is_empty) {
                    *chunks = vec![vec![9u8; 5]];
                }
                *flags &= !0x40;
            }
            let mut s = OpRun::new(send, F_LINK);
            s.chain = Some(chain_id);
            let mut rcv = OpRun::new(self.recv_op(y, 0), 0);
            rcv.chain = Some(chain_id);
            return Some(vec![s, rcv]);
        }
        // wake-up pair: the waiting op is submitted first, the send that wakes it second;
        // the direct side replays them in the order send, wait
        b.has_dep = true;
        let waiter = if self.r.chance(1, 2) { self.recv_op(y, 0) } else { Op::PollAdd { f: FdRef::T(y), events: 1 } };
        let mut send = self.send_op(x);
        if let Op::Sendmsg { chunks, flags, .. } = &mut send {
            if chunks.iter().all(Vec::is_empty) {
                *chunks = vec![vec![9u8; 5]];
            }
            *flags &= !0x40;
        }
        let mut wo = OpRun::new(waiter, 0);
        wo.twin_seq = 1;
        let so = OpRun::new(send, 0);
        Some(vec![wo, so])
    }

    fn free_listener(&mut self, inet: Option<bool>) -> Option<usize> {
        let c: Vec<usize> = (0..self.w.listeners.len())
            .filter(|i| !self.claimed.contains(&self.w.listeners[*i].group) && inet.map_or(true, |v| self.w.listeners[*i].inet == v))
            .collect();
        if c.is_empty() {
            return None;
        }
        let li = *self.r.pick(&c);
        let g = self.w.listeners[li].group;
        self.claim(g);
        Some(li)
    }

    fn unit_accept(&mut self, b: &mut Batch, idx_in_batch: usize) -> Option<Vec<Box<OpRun>>> {
        let li = self.free_listener(None)?;
        self.w.drain_listener(li);
        let inet = self.w.listeners[li].inet;
        let lt = self.w.listeners[li].tfd;
        let flags = *self.r.pick(&[0u32, sys::O_NONBLOCK as u32, sys::O_CLOEXEC as u32, (sys::O_NONBLOCK | sys::O_CLOEXEC) as u32]);
        let want_addr = self.r.chance(1, 2) && !self.disabled.contains("accept_addr");
        let pick = self.r.below(100);
        if pick < 55 {
            let c = self.w.connect_client(li).ok()?;
            let mut o = OpRun::new(Op::Accept { f: FdRef::T(lt), inet, flags, want_addr }, 0);
            o.li = li;
            o.client = Some(c);
            return Some(vec![o]);
        }
        if pick < 80 {
            b.has_dep = true;
            let mut o = OpRun::new(Op::Accept { f: FdRef::T(lt), inet, flags, want_addr }, 0);
            o.li = li;
            b.post.push((idx_in_batch, li));
            return Some(vec![o]);
        }
        // invalid variants
        let op = match self.r.below(3) {
            0 => Op::Accept { f: FdRef::Bad, inet, flags, want_addr },
            1 => Op::Accept { f: FdRef::T(self.w.perm[0]), inet, flags, want_addr: false },
            _ => Op::Accept { f: FdRef::T(lt), inet, flags: 1, want_addr },
        };
        Some(vec![OpRun::new(op, 0)])
    }

    fn unit_connect(&mut self) -> Option<Vec<Box<OpRun>>> {
        if self.disabled.contains("connect_unix") {
            return None;
        }
        let li = self.free_listener(Some(false))?;
        self.w.drain_listener(li);
        // a fresh unix stream socket pair of twins
        let cands: Vec<usize> = (0..self.w.fds.len())
            .filter(|i| {
                let t = &self.w.fds[*i];
                t.alive && t.kind == FdKind::SockFresh && t.domain == 1 && t.ty == 1 && !self.claimed.contains(&t.group)
            })
            .collect();
        let t = if cands.is_empty() || self.r.chance(1, 3) {
            let mut fd = [-1; 2];
            for s in 0..2 {
                fd[s] = sys::socket(1, 1, 0) as i32;
            }
            if fd[0] < 0 || fd[1] < 0 {
                return None;
            }
            let g = self.w.new_group();
            self.w.add(TFd {
                fd,
                kind: FdKind::SockFresh,
                group: g,
                alive: true,
                permanent: false,
                acc: sys::O_RDWR,
                domain: 1,
                ty: 1,
                peer: usize::MAX,
                pkind: PairKind::UnixStream,
            })
        } else {
            *self.r.pick(&cands)
        };
        let g = self.w.fds[t].group;
        self.claim(g);
        let rel = self.w.listeners[li].rel.clone();
        let (f, target) = match self.r.below(10) {
            0 => (FdRef::T(t), String::from("no-such-socket")),
            1 => (FdRef::T(t), String::from("p0")),
            2 => (FdRef::Bad, rel),
            3 => (FdRef::T(self.w.perm[1]), rel),
            _ => (FdRef::T(t), rel),
        };
        let mut o = OpRun::new(Op::ConnectUnix { f, target }, 0);
        o.li = li;
        Some(vec![o])
    }

    fn unit_timeout(&mut self) -> Option<Vec<Box<OpRun>>> {
        if self.timeouts >= 2 {
            return None;
        }
        self.timeouts += 1;
        let (sec, nsec) = match self.r.below(12) {
            // (tv_nsec >= 10^9 is not generated: the kernel validates it for clock_nanosleep but not for IORING_OP_TIMEOUT)
            0 | 1 => (-1, 0),
            2 => (0, 0),
            _ => (0, self.r.below(12_000_000) as i64),
        };
        Some(vec![OpRun::new(Op::Timeout { sec, nsec, relative: self.r.chance(2, 3), count: None }, 0)])
    }

    fn unit_bad(&mut self) -> Option<Vec<Box<OpRun>>> {
        let f = FdRef::Bad;
        let op = match self.r.below(9) {
            0 => Op::Readv { f, lens: vec![10] },
            1 => Op::Writev { f, chunks: vec![vec![1, 2, 3]] },
            2 => Op::Close { f },
            3 => Op::PollAdd { f, events: 1 },
            4 => Op::Sendmsg { f, chunks: vec![vec![1]], scm: vec![], flags: 0, raw: self.r.chance(1, 2) },
            5 => Op::Recvmsg { f, lens: vec![8], ctrl: 0, flags: 0 },
            6 => match self.alloc_region(16) {
                Some((buf, off)) => Op::ReadFixed { f, buf, off, len: 16 },
                None => Op::Close { f: FdRef::Bad },
            },
            7 => Op::Sendmsg { f: FdRef::T(self.w.perm[2]), chunks: vec![vec![1]], scm: vec![], flags: 0, raw: false },
            _ => Op::Recvmsg { f: FdRef::T(self.w.perm[2]), lens: vec![8], ctrl: 0, flags: 0 },
        };
        Some(vec![OpRun::new(op, 0)])
    }

    pub fn batch(&mut self, n: usize) -> Batch {
        let mut b = Batch { ops: Vec::new(), post: Vec::new(), has_dep: false, chains: 0, groups: HashSet::new() };
        // a timeout that completes through its completion count: must see `c` later completions
        if n >= 3 && self.allow_count_timeout && !self.disabled.contains("timeout") && self.r.chance(1, 10) {
            let c = self.r.range(1, (n as u64 - 1).min(5));
            let mut o = OpRun::new(Op::Timeout { sec: 4, nsec: 0, relative: true, count: Some(c) }, 0);
            o.note = "count";
            b.ops.push(o);
            b.has_dep = true;
        }
        let mut guard = 0;
        while b.ops.len() < n && guard < 400 {
            guard += 1;
            let room = n - b.ops.len();
            let base = b.ops.len();
            let cid = b.chains;
            let unit = match self.r.below(100) {
                0..=19 => self.unit_fs_single(),
                20..=34 => self.unit_fs_chain(room, cid),
                35..=49 => self.unit_fd(room, cid),
                50..=57 => self.unit_perm(),
                58..=62 => self.unit_socket(),
                63..=79 => self.unit_pair(room, cid, &mut b),
                80..=86 => self.unit_accept(&mut b, base),
                87..=91 => self.unit_connect(),
                92..=95 => self.unit_timeout(),
                _ => self.unit_bad(),
            };
            let Some(mut unit) = unit else { continue };
            if unit.len() > room {
                // cannot happen for chains (bounded by room); be safe
                unit.truncate(room);
                if let Some(last) = unit.last_mut() {
                    last.fl &= !(F_LINK | F_HARDLINK);
                }
            }
            if unit.iter().any(|o| o.chain.is_some()) {
                b.chains += 1;
            }
            // replay order on the direct side: unit-relative twin_seq (wake pairs are swapped)
            let swap = unit.len() == 2 && unit[0].twin_seq == 1;
            for (j, o) in unit.iter_mut().enumerate() {
                o.twin_seq = base + if swap { 1 - j } else { j };
            }
            b.ops.extend(unit);
        }
        // the counting timeout sees only the completions that follow it, and completions of timeouts do not count
        if !b.ops.is_empty() && b.ops[0].note == "count" {
            let following = b.ops.iter().skip(1).filter(|o| !matches!(o.op, Op::Timeout { .. })).count() as u64;
            if following == 0 {
                b.ops.remove(0);
                for o in b.ops.iter_mut() {
                    o.twin_seq = o.twin_seq.saturating_sub(1);
                }
                for p in b.post.iter_mut() {
                    p.0 -= 1;
                }
            } else if let Op::Timeout { count: Some(c), .. } = &mut b.ops[0].op {
                if *c > following {
                    *c = following;
                }
            }
        }
        // decoration of independent ops
        for o in b.ops.iter_mut() {
            if o.chain.is_none() && o.note != "count" {
                if self.r.chance(1, 10) {
                    o.fl |= F_ASYNC;
                }
                if self.allow_drain && !b.has_dep && self.r.chance(1, 25) {
                    o.fl |= F_DRAIN;
                }
            }
        }
        b.groups = self.claimed.clone();
        b
    }
}
