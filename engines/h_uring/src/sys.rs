//! Direct system calls for the twin side and for harness-side set-up (libc `syscall`, result = value or -errno).
#![allow(dead_code)]
use std::ffi::c_long;

extern "C" {
    fn syscall(nr: c_long, ...) -> c_long;
    fn __errno_location() -> *mut i32;
}

pub const SYS_READ: i64 = 0;
pub const SYS_WRITE: i64 = 1;
pub const SYS_CLOSE: i64 = 3;
pub const SYS_POLL: i64 = 7;
pub const SYS_MMAP: i64 = 9;
pub const SYS_IOCTL: i64 = 16;
pub const SYS_PREAD64: i64 = 17;
pub const SYS_PWRITE64: i64 = 18;
pub const SYS_READV: i64 = 19;
pub const SYS_WRITEV: i64 = 20;
pub const SYS_SOCKET: i64 = 41;
pub const SYS_CONNECT: i64 = 42;
pub const SYS_SENDMSG: i64 = 46;
pub const SYS_RECVMSG: i64 = 47;
pub const SYS_BIND: i64 = 49;
pub const SYS_LISTEN: i64 = 50;
pub const SYS_GETSOCKNAME: i64 = 51;
pub const SYS_SOCKETPAIR: i64 = 53;
pub const SYS_SETSOCKOPT: i64 = 54;
pub const SYS_GETSOCKOPT: i64 = 55;
pub const SYS_FCNTL: i64 = 72;
pub const SYS_FTRUNCATE: i64 = 77;
pub const SYS_CLOCK_GETTIME: i64 = 228;
pub const SYS_CLOCK_NANOSLEEP: i64 = 230;
pub const SYS_OPENAT: i64 = 257;
pub const SYS_MKDIRAT: i64 = 258;
pub const SYS_UNLINKAT: i64 = 263;
pub const SYS_ACCEPT4: i64 = 288;
pub const SYS_PREADV: i64 = 295;
pub const SYS_PWRITEV: i64 = 296;
pub const SYS_RENAMEAT2: i64 = 316;
pub const SYS_STATX: i64 = 332;

pub const AT_FDCWD: i64 = -100;
pub const O_ACCMODE: i32 = 3;
pub const O_RDONLY: i32 = 0;
pub const O_WRONLY: i32 = 1;
pub const O_RDWR: i32 = 2;
pub const O_CREAT: i32 = 0o100;
pub const O_EXCL: i32 = 0o200;
pub const O_TRUNC: i32 = 0o1000;
pub const O_APPEND: i32 = 0o2000;
pub const O_NONBLOCK: i32 = 0o4000;
pub const O_DIRECTORY: i32 = 0o200000;
pub const O_NOFOLLOW: i32 = 0o400000;
pub const O_CLOEXEC: i32 = 0o2000000;
pub const O_PATH: i32 = 0o10000000;
pub const O_TMPFILE: i32 = 0o20200000;

pub const ECANCELED: i64 = 125;
pub const ETIME: i64 = 62;
pub const EBADF: i64 = 9;
pub const EINTR: i64 = 4;

pub fn errno() -> i32 {
    unsafe { *__errno_location() }
}

/// raw system call; returns the kernel's value, or -errno
pub fn sc(nr: i64, a: &[i64]) -> i64 {
    let g = |i: usize| a.get(i).copied().unwrap_or(0);
    let r = unsafe { syscall(nr as c_long, g(0), g(1), g(2), g(3), g(4), g(5)) };
    if r == -1 {
        -i64::from(errno())
    } else {
        r as i64
    }
}

pub fn close(fd: i32) -> i64 {
    sc(SYS_CLOSE, &[i64::from(fd)])
}
/// `path` must be NUL-terminated
pub fn openat(dirfd: i64, path: &[u8], flags: i32, mode: u32) -> i64 {
    debug_assert_eq!(path.last(), Some(&0));
    sc(SYS_OPENAT, &[dirfd, path.as_ptr() as i64, i64::from(flags), i64::from(mode)])
}
pub fn mkdirat(dirfd: i64, path: &[u8], mode: u32) -> i64 {
    sc(SYS_MKDIRAT, &[dirfd, path.as_ptr() as i64, i64::from(mode)])
}
pub fn unlinkat(dirfd: i64, path: &[u8], flags: i32) -> i64 {
    sc(SYS_UNLINKAT, &[dirfd, path.as_ptr() as i64, i64::from(flags)])
}
pub fn renameat2(od: i64, old: &[u8], nd: i64, new: &[u8], flags: u32) -> i64 {
    sc(SYS_RENAMEAT2, &[od, old.as_ptr() as i64, nd, new.as_ptr() as i64, i64::from(flags)])
}
pub fn statx(dirfd: i64, path: &[u8], flags: i32, mask: u32, buf: *mut u8) -> i64 {
    sc(SYS_STATX, &[dirfd, path.as_ptr() as i64, i64::from(flags), i64::from(mask), buf as i64])
}
pub fn pread(fd: i32, buf: &mut [u8], off: i64) -> i64 {
    sc(SYS_PREAD64, &[i64::from(fd), buf.as_mut_ptr() as i64, buf.len() as i64, off])
}
pub fn pwrite(fd: i32, buf: &[u8], off: i64) -> i64 {
    sc(SYS_PWRITE64, &[i64::from(fd), buf.as_ptr() as i64, buf.len() as i64, off])
}
pub fn write(fd: i32, buf: &[u8]) -> i64 {
    sc(SYS_WRITE, &[i64::from(fd), buf.as_ptr() as i64, buf.len() as i64])
}
pub fn read(fd: i32, buf: &mut [u8]) -> i64 {
    sc(SYS_READ, &[i64::from(fd), buf.as_mut_ptr() as i64, buf.len() as i64])
}
pub fn preadv(fd: i32, iov: *const u8, cnt: usize, off: i64) -> i64 {
    sc(SYS_PREADV, &[i64::from(fd), iov as i64, cnt as i64, off, 0])
}
pub fn pwritev(fd: i32, iov: *const u8, cnt: usize, off: i64) -> i64 {
    sc(SYS_PWRITEV, &[i64::from(fd), iov as i64, cnt as i64, off, 0])
}
pub fn readv(fd: i32, iov: *const u8, cnt: usize) -> i64 {
    sc(SYS_READV, &[i64::from(fd), iov as i64, cnt as i64])
}
pub fn writev(fd: i32, iov: *const u8, cnt: usize) -> i64 {
    sc(SYS_WRITEV, &[i64::from(fd), iov as i64, cnt as i64])
}
pub fn ftruncate(fd: i32, len: i64) -> i64 {
    sc(SYS_FTRUNCATE, &[i64::from(fd), len])
}
pub fn fcntl(fd: i32, cmd: i32, arg: i64) -> i64 {
    sc(SYS_FCNTL, &[i64::from(fd), i64::from(cmd), arg])
}
pub fn fionread(fd: i32) -> i64 {
    let mut n: i32 = 0;
    let r = sc(SYS_IOCTL, &[i64::from(fd), 0x541B, std::ptr::addr_of_mut!(n) as i64]);
    if r < 0 {
        r
    } else {
        i64::from(n)
    }
}
pub fn socket(domain: i32, ty: i32, proto: i32) -> i64 {
    sc(SYS_SOCKET, &[i64::from(domain), i64::from(ty), i64::from(proto)])
}
pub fn socketpair(domain: i32, ty: i32, proto: i32) -> Result<[i32; 2], i64> {
    let mut sv = [0i32; 2];
    let r = sc(SYS_SOCKETPAIR, &[i64::from(domain), i64::from(ty), i64::from(proto), sv.as_mut_ptr() as i64]);
    if r < 0 {
        Err(r)
    } else {
        Ok(sv)
    }
}
pub fn bind(fd: i32, addr: &[u8]) -> i64 {
    sc(SYS_BIND, &[i64::from(fd), addr.as_ptr() as i64, addr.len() as i64])
}
pub fn listen(fd: i32, backlog: i32) -> i64 {
    sc(SYS_LISTEN, &[i64::from(fd), i64::from(backlog)])
}
pub fn connect(fd: i32, addr: &[u8]) -> i64 {
    sc(SYS_CONNECT, &[i64::from(fd), addr.as_ptr() as i64, addr.len() as i64])
}
pub fn accept4(fd: i32, addr: *mut u8, len: *mut u32, flags: u32) -> i64 {
    sc(SYS_ACCEPT4, &[i64::from(fd), addr as i64, len as i64, i64::from(flags)])
}
pub fn getsockname(fd: i32) -> Vec<u8> {
    let mut buf = [0u8; 128];
    let mut len: u32 = 128;
    let r = sc(SYS_GETSOCKNAME, &[i64::from(fd), buf.as_mut_ptr() as i64, std::ptr::addr_of_mut!(len) as i64]);
    if r < 0 {
        return Vec::new();
    }
    buf[..(len as usize).min(128)].to_vec()
}
pub fn getsockopt_int(fd: i32, level: i32, name: i32) -> i64 {
    let mut v: i32 = 0;
    let mut len: u32 = 4;
    let r = sc(
        SYS_GETSOCKOPT,
        &[i64::from(fd), i64::from(level), i64::from(name), std::ptr::addr_of_mut!(v) as i64, std::ptr::addr_of_mut!(len) as i64],
    );
    if r < 0 {
        r
    } else {
        i64::from(v)
    }
}
pub fn setsockopt_int(fd: i32, level: i32, name: i32, v: i32) -> i64 {
    sc(SYS_SETSOCKOPT, &[i64::from(fd), i64::from(level), i64::from(name), std::ptr::addr_of!(v) as i64, 4])
}
pub fn sendmsg(fd: i32, mh: *const u8, flags: i32) -> i64 {
    sc(SYS_SENDMSG, &[i64::from(fd), mh as i64, i64::from(flags)])
}
pub fn recvmsg(fd: i32, mh: *mut u8, flags: i32) -> i64 {
    sc(SYS_RECVMSG, &[i64::from(fd), mh as i64, i64::from(flags)])
}
/// poll one descriptor; returns (poll's return value or -errno, revents)
pub fn poll1(fd: i32, events: i16, timeout_ms: i32) -> (i64, i16) {
    #[repr(C)]
    struct P {
        fd: i32,
        ev: i16,
        rev: i16,
    }
    let mut p = P { fd, ev: events, rev: 0 };
    let r = sc(SYS_POLL, &[std::ptr::addr_of_mut!(p) as i64, 1, i64::from(timeout_ms)]);
    (r, p.rev)
}
pub fn mono_now() -> (i64, i64) {
    let mut ts = [0i64; 2];
    sc(SYS_CLOCK_GETTIME, &[1, ts.as_mut_ptr() as i64]);
    (ts[0], ts[1])
}
pub fn mono_ns() -> i128 {
    let (s, n) = mono_now();
    i128::from(s) * 1_000_000_000 + i128::from(n)
}
/// clock_nanosleep(CLOCK_MONOTONIC); returns 0 or -errno
pub fn clock_nanosleep(abs: bool, sec: i64, nsec: i64) -> i64 {
    let ts = [sec, nsec];
    loop {
        let r = sc(SYS_CLOCK_NANOSLEEP, &[1, i64::from(abs), ts.as_ptr() as i64, 0]);
        if r != -EINTR {
            return r;
        }
    }
}

pub fn errname(e: i64) -> String {
    let n = match -e {
        1 => "EPERM",
        2 => "ENOENT",
        9 => "EBADF",
        11 => "EAGAIN",
        13 => "EACCES",
        14 => "EFAULT",
        16 => "EBUSY",
        17 => "EEXIST",
        18 => "EXDEV",
        20 => "ENOTDIR",
        21 => "EISDIR",
        22 => "EINVAL",
        24 => "EMFILE",
        29 => "ESPIPE",
        32 => "EPIPE",
        36 => "ENAMETOOLONG",
        39 => "ENOTEMPTY",
        40 => "ELOOP",
        62 => "ETIME",
        88 => "ENOTSOCK",
        89 => "EDESTADDRREQ",
        90 => "EMSGSIZE",
        91 => "EPROTOTYPE",
        93 => "EPROTONOSUPPORT",
        94 => "ESOCKTNOSUPPORT",
        95 => "EOPNOTSUPP",
        97 => "EAFNOSUPPORT",
        104 => "ECONNRESET",
        106 => "EISCONN",
        107 => "ENOTCONN",
        111 => "ECONNREFUSED",
        125 => "ECANCELED",
        _ => return format!("E{}", -e),
    };
    n.to_string()
}
