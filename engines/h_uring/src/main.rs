//! C18 harness: io_uring operations through rusl's wrapper vs. the equivalent direct system calls
//! on a twin world; exactly-once completion bookkeeping; set-up/drop cycles for the sysmon tracer.
//!
//! modes:
//!   probe <seed> <entries>                       print the set-up flag sets the kernel accepts
//!   twin  <seed> <batches> <flagbits> <entries>  batches on ONE ring, twin execution
//!   cycle <seed> <cycles> <flagbits,...>         set-up + use + drop cycles with markers (run under sysmon)
//!   sqpoll <seed> <rounds> <flagbits> <entries>  SQPOLL wake-up protocol: idle poller, overflowed CQ, submit, require completion
mod gen;
mod kview;
mod ops;
mod sys;
mod world;
#[path = "/verif/engines/sysmon/marker.rs"]
mod marker;

use gen::{Batch, Gen, BUFSZ, NBUF};
use ops::{show, FdRef, Op, RingInfo, Sever, F_HARDLINK, F_LINK};
use rusl::io_uring::{io_uring_enter, io_uring_register_buffers, io_uring_register_files, setup_io_uring};
use rusl::platform::{Fd, IoSliceMut, IoUring, IoUringEnterFlags, IoUringParamFlags};
use std::collections::{BTreeMap, HashMap, HashSet};
use vh::Rng;
use world::{FdKind, PairKind, TFd, World, NPERM};

const FLAG_NAMES: [&str; 14] = [
    "IOPOLL",
    "SQPOLL",
    "SQ_AFF",
    "CQSIZE",
    "CLAMP",
    "ATTACH_WQ",
    "R_DISABLED",
    "SUBMIT_ALL",
    "COOP_TASKRUN",
    "TASKRUN_FLAG",
    "SQE128",
    "CQE32",
    "SINGLE_ISSUER",
    "DEFER_TASKRUN",
];
const B_IOPOLL: u32 = 1;
const B_SQPOLL: u32 = 2;
const B_R_DISABLED: u32 = 1 << 6;
const B_SQE128: u32 = 1 << 10;
const B_CQE32: u32 = 1 << 11;
const B_DEFER: u32 = 1 << 13;

fn flag_names(bits: u32) -> String {
    let v: Vec<&str> = (0..14).filter(|i| bits & (1 << i) != 0).map(|i| FLAG_NAMES[i]).collect();
    if v.is_empty() {
        "none".into()
    } else {
        v.join("|")
    }
}
fn flag_class(bits: u32) -> String {
    let mut v = Vec::new();
    for (b, n) in [(B_SQPOLL, "sqpoll"), (B_SQE128, "sqe128"), (B_CQE32, "cqe32"), (B_DEFER, "defer")] {
        if bits & b != 0 {
            v.push(n);
        }
    }
    if v.is_empty() {
        "plain".into()
    } else {
        v.join("+")
    }
}
fn pflags(bits: u32) -> IoUringParamFlags {
    unsafe { core::mem::transmute::<u32, IoUringParamFlags>(bits) }
}

struct Ring {
    u: IoUring,
    bits: u32,
    sq_entries: u32,
    sqpoll: bool,
    info: RingInfo,
    _bufs: Vec<Vec<u8>>,
    kview: Option<kview::KView>,
    use_drain: bool,
}

fn setup_ring(bits: u32, entries: u32, w: &World) -> Result<Ring, String> {
    let u = vh::catch(|| setup_io_uring(entries, pflags(bits), 0, 2)).map_err(|p| format!("panic: {p}"))?.map_err(|e| format!("{e}"))?;
    let mut bufs: Vec<Vec<u8>> = (0..NBUF).map(|_| vec![0u8; BUFSZ]).collect();
    let info = RingInfo { bufs: bufs.iter_mut().map(|b| (b.as_mut_ptr() as usize, b.len())).collect() };
    {
        let slices: Vec<IoSliceMut> = bufs.iter_mut().map(|b| IoSliceMut::new(&mut b[..])).collect();
        unsafe { io_uring_register_buffers(u.fd, &slices) }.map_err(|e| format!("register buffers: {e}"))?;
    }
    let files: Vec<Fd> = (0..NPERM).map(|i| Fd::try_new(w.fds[w.perm[i]].fd[0]).unwrap()).collect();
    io_uring_register_files(u.fd, &files).map_err(|e| format!("register files: {e}"))?;
    let kview = kview::KView::new(u.fd.value(), bits, entries, 2).ok();
    Ok(Ring { u, bits, sq_entries: entries.next_power_of_two(), sqpoll: bits & B_SQPOLL != 0, info, _bufs: bufs, kview, use_drain: false })
}

fn enter(fd: Fd, to_submit: u32, min_complete: u32, flags: IoUringEnterFlags) -> Result<usize, i64> {
    loop {
        match io_uring_enter(fd, to_submit, min_complete, flags) {
            Ok(n) => return Ok(n),
            Err(e) => {
                let c = e.code.map_or(0, |c| i64::from(c.raw()));
                if c == sys::EINTR {
                    continue;
                }
                return Err(-c);
            }
        }
    }
}

#[derive(Default)]
struct Stats {
    batches: u64,
    sqes: u64,
    per_op: BTreeMap<&'static str, u64>,
    neg_cmp: u64,
    cancelled: u64,
    chains: u64,
    rewaits: u64,
    resubmits: u64,
    resets: u64,
    full_ring_batches: u64,
    async_ops: u64,
    drain_ops: u64,
    fixed_file_ops: u64,
    viols: HashMap<String, u32>,
    disabled: HashSet<String>,
    poll_not_ready: u64,
    wakeups: u64,
    slot_waits: u64,
    tmpfiles: u64,
    tmpfile_unsupported: u64,
    extra_flushes: u64,
    partial_enters: u64,
    kernel_dependent_links: u64,
    t_ring: i128,
    t_twin: i128,
    t_cmp: i128,
}

fn viol(st: &mut Stats, sig: &str, detail: String) {
    let n = st.viols.entry(sig.to_string()).or_insert(0);
    *n += 1;
    if *n <= 2 {
        vh::viol(sig, &detail);
    }
}

fn res_class(op: &Op, r: i64) -> String {
    if r == -sys::ECANCELED {
        "cancelled".into()
    } else if r < 0 {
        sys::errname(r)
    } else if op.fails_link(r) {
        "short".into()
    } else {
        "ok".into()
    }
}

enum Fatal {
    Inconclusive(String),
}

/// One batch: submit through the ring, reap, replay on the direct side, compare, fix the world up.
#[allow(clippy::too_many_lines)]
fn run_batch(ring: &mut Ring, w: &mut World, b: &mut Batch, serial: &mut u64, salt: u64, st: &mut Stats, r: &mut Rng) -> Result<bool, Fatal> {
    let n = b.ops.len();
    if n == 0 {
        return Ok(true);
    }
    let first_serial = *serial;
    let ring_desc = format!("{{\"entries\":{},\"flags\":{}}}", ring.sq_entries, vh::js(&flag_names(ring.bits)));
    // ---- how a user of the wrapper publishes and submits this batch (from the seed):
    //   0: write all, one flush, io_uring_enter(to_submit = what flush returned)
    //   1: write in chunks with a flush after each chunk, io_uring_enter(to_submit = what the LAST flush returned)
    //   2: one flush, a first io_uring_enter that takes only part (cut between units), then flush + enter again
    // (SQPOLL rings: always 0, the poller would otherwise pick up half a chain)
    // (rings that decorate with IOSQE_IO_DRAIN keep to style 0 as well: the kernel's drain bookkeeping and
    //  a submission split over several io_uring_enter calls is kernel territory, seen to park requests)
    let style = if ring.sqpoll || ring.use_drain || n < 2 { 0 } else { [0, 0, 0, 1, 1, 2][r.below(6) as usize] };
    let mut flush_after: HashSet<usize> = HashSet::new();
    if style == 1 {
        for _ in 0..r.range(1, 2) {
            flush_after.insert(r.below(n as u64 - 1) as usize);
        }
    }
    let unit_cuts: Vec<usize> = (1..n).filter(|i| b.ops[*i].chain.is_none() || b.ops[*i].chain != b.ops[*i - 1].chain).collect();
    let mut last_flush: u32 = 0;
    // ---- fill the submission queue
    for i in 0..n {
        b.ops[i].ud = salt ^ *serial;
        *serial += 1;
        let sqe = {
            let op = &mut b.ops[i];
            vh::catch(|| unsafe { op.build(w, &ring.info) })
        };
        let sqe = match sqe {
            Ok(s) => s,
            Err(p) => {
                viol(st, &format!("C18/{}/constructor-panic", b.ops[i].op.name()), format!("{{\"panic\":{},\"op\":{}}}", vh::js(&p), vh::js(&b.ops[i].describe())));
                return Err(Fatal::Inconclusive("constructor panicked; ring state unknown".into()));
            }
        };
        let mut slot = vh::catch(|| ring.u.get_next_sqe_slot());
        if ring.sqpoll {
            // the poller publishes its head after posting completions: wait for it (bounded), no verdict on delay
            let t0 = std::time::Instant::now();
            while matches!(slot, Ok(None)) && t0.elapsed().as_secs() < 5 {
                st.slot_waits += 1;
                std::thread::yield_now();
                slot = vh::catch(|| ring.u.get_next_sqe_slot());
            }
            if matches!(slot, Ok(None)) {
                return Err(Fatal::Inconclusive("SQPOLL ring: no free submission slot within 5 s".into()));
            }
        }
        match slot {
            Ok(Some(p)) => unsafe {
                if ring.bits & B_SQE128 != 0 {
                    core::ptr::write_bytes(p.cast::<u8>(), 0, 128);
                }
                p.write(sqe);
            },
            Ok(None) => {
                viol(
                    st,
                    "C18/sqe-slot/none-although-all-completed",
                    format!("{{\"batch_size\":{n},\"index\":{i},\"ring\":{ring_desc},\"sqes_so_far\":{}}}", st.sqes),
                );
                return Err(Fatal::Inconclusive("no submission slot".into()));
            }
            Err(p) => {
                viol(st, "C18/sqe-slot/panic", format!("{{\"panic\":{},\"sqes_so_far\":{}}}", vh::js(&p), st.sqes));
                return Err(Fatal::Inconclusive("get_next_sqe_slot panicked".into()));
            }
        }
        if flush_after.contains(&i) {
            st.extra_flushes += 1;
            match vh::catch(|| ring.u.flush_submission_queue()) {
                Ok(v) => last_flush = v,
                Err(p) => {
                    viol(st, "C18/flush/panic", format!("{{\"panic\":{}}}", vh::js(&p)));
                    return Err(Fatal::Inconclusive("flush panicked".into()));
                }
            }
        }
    }
    let _ = last_flush;
    let t_submit = sys::mono_ns();
    let flushed = match vh::catch(|| ring.u.flush_submission_queue()) {
        Ok(v) => v,
        Err(p) => {
            viol(st, "C18/flush/panic", format!("{{\"panic\":{}}}", vh::js(&p)));
            return Err(Fatal::Inconclusive("flush panicked".into()));
        }
    };
    if !ring.sqpoll && flushed as usize != n {
        viol(st, "C18/flush/wrong-pending-count", format!("{{\"returned\":{flushed},\"queued\":{n},\"ring\":{ring_desc}}}"));
    }
    // ---- submit
    let mut accepted = 0usize;
    if ring.sqpoll {
        // the documented protocol, deciding with the wrapper's needs_wakeup() only
        let (wake, refuted) = wakeup_decision(&ring.u, ring.kview.as_ref());
        if let Some(word) = refuted {
            viol(st, SIG_WAKEUP, format!("{{\"kernel_sq_flags\":{word},\"needs_wakeup\":false,\"ring\":{ring_desc},\"where\":\"twin batch {}\"}}", st.batches));
        }
        if wake || refuted.is_some() {
            st.wakeups += 1;
            if let Err(e) = enter(ring.u.fd, 0, 0, IoUringEnterFlags::IORING_ENTER_SQ_WAKEUP) {
                return Err(Fatal::Inconclusive(format!("io_uring_enter(SQ_WAKEUP) failed {e}")));
            }
        }
    } else {
        // to_submit is what the wrapper's flush reported, never the harness' own count
        let mut to_submit = flushed;
        let mut rounds = 0;
        if style == 2 && !unit_cuts.is_empty() {
            let k = unit_cuts[r.below(unit_cuts.len() as u64) as usize] as u32;
            to_submit = to_submit.min(k);
            st.partial_enters += 1;
        }
        while to_submit > 0 {
            match enter(ring.u.fd, to_submit, 0, IoUringEnterFlags::empty()) {
                Ok(0) => {
                    viol(
                        st,
                        "C18/submit/entries-not-seen-by-kernel",
                        format!("{{\"to_submit\":{to_submit},\"batch\":{n},\"ring\":{ring_desc}}}"),
                    );
                    return Err(Fatal::Inconclusive("kernel consumed nothing".into()));
                }
                Ok(s) => {
                    accepted += s;
                    if (s as u32) < to_submit {
                        st.resubmits += 1;
                    }
                }
                Err(e) => return Err(Fatal::Inconclusive(format!("io_uring_enter(submit) failed {}", show(e)))),
            }
            // what is still to be submitted? ask the wrapper again, as a user would
            to_submit = match vh::catch(|| ring.u.flush_submission_queue()) {
                Ok(v) => v,
                Err(p) => {
                    viol(st, "C18/flush/panic", format!("{{\"panic\":{}}}", vh::js(&p)));
                    return Err(Fatal::Inconclusive("flush panicked".into()));
                }
            };
            rounds += 1;
            if rounds > 2 * n + 4 {
                return Err(Fatal::Inconclusive("submission did not finish".into()));
            }
        }
    }
    // the kernel's own count of published-but-unconsumed entries (independent mapping), for the certificate below
    let kernel_pending = if ring.sqpoll { 0 } else { ring.kview.as_ref().map_or(0, kview::KView::sq_pending) };
    let expect = if ring.sqpoll { n } else { accepted.min(n) };
    // ---- actions that make waiting operations complete
    for (oi, li) in b.post.clone() {
        match w.connect_client(li) {
            Ok(c) => b.ops[oi].client = Some(c),
            Err(e) => return Err(Fatal::Inconclusive(format!("client connect: {e}"))),
        }
    }
    // ---- reap
    let by_ud: HashMap<u64, usize> = b.ops.iter().enumerate().map(|(i, o)| (o.ud, i)).collect();
    let mut reaped = 0usize;
    let mut rounds = 0;
    let mut problems: Vec<(String, String)> = Vec::new();
    loop {
        let missing = expect - reaped.min(expect);
        if missing == 0 {
            break;
        }
        // when io_uring_enter took fewer entries than the batch has, a taken operation may wait for one that was
        // never submitted: do not block then, collect what completes within a bounded number of looks
        let min_complete = if expect < n { 0 } else { missing as u32 };
        if expect < n {
            if rounds >= 150 {
                break;
            }
            std::thread::sleep(std::time::Duration::from_millis(2));
        }
        if let Err(e) = enter(ring.u.fd, 0, min_complete, IoUringEnterFlags::IORING_ENTER_GETEVENTS) {
            return Err(Fatal::Inconclusive(format!("io_uring_enter(wait {missing}) failed {}", show(e))));
        }
        let before = reaped;
        if std::env::var_os("C18_TRACE").is_some() {
            eprintln!("TRACE batch {} n {n} accepted {accepted} expect {expect} style {style} reaped {reaped} kview pending {:?}", st.batches, ring.kview.as_ref().map(kview::KView::sq_pending));
        }
        loop {
            let c = match vh::catch(|| ring.u.get_next_cqe().map(|c| (c.0.user_data, c.0.res, c.0.flags))) {
                Ok(c) => c,
                Err(p) => {
                    viol(st, "C18/get_next_cqe/panic", format!("{{\"panic\":{}}}", vh::js(&p)));
                    return Err(Fatal::Inconclusive("get_next_cqe panicked".into()));
                }
            };
            let Some((ud, res, _fl)) = c else { break };
            reaped += 1;
            if std::env::var_os("C18_TRACE").is_some() {
                eprintln!("TRACE   cqe ud {} -> op {:?} res {res}", ud ^ salt, by_ud.get(&ud));
            }
            match by_ud.get(&ud) {
                Some(i) => {
                    b.ops[*i].ncqe += 1;
                    if b.ops[*i].ncqe == 1 {
                        b.ops[*i].res_a = Some(res);
                    } else {
                        problems.push((
                            "C18/completion/duplicate".into(),
                            format!("{{\"op\":{},\"first_res\":{},\"again_res\":{res}}}", vh::js(&b.ops[*i].describe()), b.ops[*i].res_a.unwrap_or(0)),
                        ));
                    }
                }
                None => {
                    let s = ud ^ salt;
                    let what = if s < first_serial { "C18/completion/duplicate-late" } else { "C18/completion/unknown-user-data" };
                    problems.push((what.into(), format!("{{\"user_data\":{ud},\"res\":{res},\"decoded_serial\":{s},\"batch_first_serial\":{first_serial}}}")));
                }
            }
        }
        rounds += 1;
        if reaped == before && expect == n {
            // the kernel reported `missing` completions available, the wrapper hands out none
            if rounds >= 3 {
                break;
            }
            st.rewaits += 1;
        }
    }
    let t_reap = sys::mono_ns();
    for o in b.ops.iter_mut() {
        o.t_submit = t_submit;
        o.t_reap = t_reap;
    }
    st.t_ring += t_reap - t_submit;
    for (sig, det) in problems {
        viol(st, &sig, det);
    }
    let mut ok = true;
    for o in &b.ops {
        if o.ncqe == 0 {
            viol(
                st,
                "C18/completion/missing",
                format!(
                    "{{\"op\":{},\"batch_size\":{n},\"reaped\":{reaped},\"taken_by_io_uring_enter\":{accepted},\"submission_style\":{style},\"kernel_sq_entries_published_but_never_submitted\":{kernel_pending},\"ring\":{ring_desc}}}",
                    vh::js(&o.describe())
                ),
            );
            ok = false;
        }
    }
    if !ok {
        return Err(Fatal::Inconclusive("completions missing; operations may still be in flight".into()));
    }

    // ---- replay on the direct side
    let mut order: Vec<usize> = (0..n).collect();
    order.sort_by_key(|i| b.ops[*i].twin_seq);
    let mut broken: HashSet<usize> = HashSet::new();
    for i in order {
        let (chain, fl) = (b.ops[i].chain, b.ops[i].fl);
        if let Some(c) = chain {
            if broken.contains(&c) {
                b.ops[i].res_b = Some(-sys::ECANCELED);
                st.cancelled += 1;
                continue;
            }
        }
        let rb = b.ops[i].direct(w);
        b.ops[i].res_b = Some(rb);
        if let Some(c) = chain {
            if fl & F_LINK != 0 && fl & F_HARDLINK == 0 {
                let sever = match b.ops[i].op.link_effect(rb) {
                    Sever::Yes => true,
                    Sever::No => false,
                    // kernel-version dependent: follow what the kernel did with the next member
                    Sever::Maybe => {
                        st.kernel_dependent_links += 1;
                        i + 1 < n && b.ops[i + 1].chain == Some(c) && b.ops[i + 1].res_a == Some(-(sys::ECANCELED as i32))
                    }
                };
                if sever {
                    broken.insert(c);
                }
            }
        }
    }
    st.chains += b.chains as u64;
    if let Some(range) = std::env::var_os("C18_DUMP") {
        let range = range.to_string_lossy().to_string();
        let mut it = range.split('-').filter_map(|x| x.parse::<u64>().ok());
        let (lo, hi) = (it.next().unwrap_or(0), it.next().unwrap_or(u64::MAX));
        if st.batches >= lo && st.batches <= hi {
            for x in &b.ops {
                eprintln!("DUMP batch {} op {} -> {} / {}", st.batches, x.describe(), show(i64::from(x.res_a.unwrap_or(0))), show(x.res_b.unwrap_or(0)));
            }
        }
    }
    let t_twin_end = sys::mono_ns();
    st.t_twin += t_twin_end - t_reap;

    // ---- compare
    let mut mismatch = false;
    let mut bad_chains: HashSet<usize> = HashSet::new();
    for i in 0..n {
        let o = &b.ops[i];
        *st.per_op.entry(o.op.name()).or_insert(0) += 1;
        if o.fl & ops::F_ASYNC != 0 {
            st.async_ops += 1;
        }
        if o.fl & ops::F_DRAIN != 0 {
            st.drain_ops += 1;
        }
        if matches!(&o.op, Op::Readv { f: FdRef::Fixed(_), .. } | Op::Writev { f: FdRef::Fixed(_), .. } | Op::ReadFixed { f: FdRef::Fixed(_), .. } | Op::WriteFixed { f: FdRef::Fixed(_), .. } | Op::PollAdd { f: FdRef::Fixed(_), .. }) {
            st.fixed_file_ops += 1;
        }
        let rb = o.res_b.unwrap_or(0);
        if rb == i64::MIN {
            st.poll_not_ready += 1;
            continue;
        }
        if rb < 0 {
            st.neg_cmp += 1;
        }
        if let Some(c) = o.chain {
            if bad_chains.contains(&c) {
                continue; // follow-up differences of an already reported chain
            }
        }
        let diffs = o.compare(w, &ring.info);
        let linked = if o.chain.is_some() { "chain" } else { "indep" };
        let rc = res_class(&o.op, rb);
        let sizec = match ring.sq_entries {
            1 => "1",
            2..=8 => "2-8",
            _ => "16-64",
        };
        vh::distinct(&format!("{}/{}/{}/ring{}/{}", o.op.name(), rc, linked, sizec, flag_class(ring.bits)));
        if rb < 0 && rb != -sys::ECANCELED && st.batches % 7 == 0 {
            vh::sample(
                &format!(
                    "{{\"op\":{},\"io_uring_res\":{},\"direct_res\":{},\"linked\":{},\"ring\":{ring_desc}}}",
                    vh::js(&o.describe()),
                    vh::js(&show(i64::from(o.res_a.unwrap_or(0)))),
                    vh::js(&show(rb)),
                    o.chain.is_some()
                ),
                3,
            );
        }
        for (what, det) in diffs {
            mismatch = true;
            if std::env::var_os("C18_DEBUG").is_some() {
                for x in &b.ops {
                    eprintln!("DEBUG batch {} op {} twin_seq {} -> {} / {}", st.batches, x.describe(), x.twin_seq, show(i64::from(x.res_a.unwrap_or(0))), show(x.res_b.unwrap_or(0)));
                }
            }
            if let Some(c) = o.chain {
                bad_chains.insert(c);
            }
            let sig = format!("C18/{}/{}", o.op.name(), what);
            let chain_txt: Vec<String> = match o.chain {
                Some(c) => b.ops.iter().filter(|x| x.chain == Some(c)).map(|x| format!("{} -> io_uring {} / direct {}", x.describe(), show(i64::from(x.res_a.unwrap_or(0))), show(x.res_b.unwrap_or(0)))).collect(),
                None => Vec::new(),
            };
            viol(
                st,
                &sig,
                format!(
                    "{{\"op\":{},\"difference\":{},\"linked_chain\":{},\"batch_size\":{n},\"ring\":{ring_desc},\"batch_no\":{},\"batch\":{}}}",
                    vh::js(&o.describe()),
                    vh::js(&det),
                    vh::js(&chain_txt.join(" ; ")),
                    st.batches,
                    vh::js(&{
                        let mut t: String = b.ops.iter().map(|x| format!("{}[{}] -> {}", x.op.name(), x.fl, show(i64::from(x.res_a.unwrap_or(0))))).collect::<Vec<_>>().join(" ; ");
                        t.truncate(1200);
                        t
                    })
                ),
            );
            let e = st.viols.get(&sig).copied().unwrap_or(0);
            if e >= 3 {
                // stop generating an operation variant whose defect is established, so that the rest keeps running
                if matches!(o.op, Op::Accept { .. }) && (what.contains("addr")) {
                    st.disabled.insert("accept_addr".to_string());
                } else {
                    st.disabled.insert(o.op.name().to_string());
                }
            }
        }
    }

    // ---- bring the world model up to date
    let mut scm_close: Vec<[Vec<i32>; 2]> = Vec::new();
    for i in 0..n {
        let (ra, rb) = (i64::from(b.ops[i].res_a.unwrap_or(-1)), b.ops[i].res_b.unwrap_or(-1));
        let o = &b.ops[i];
        match &o.op {
            Op::Openat { flags, .. } => {
                if *flags & sys::O_TMPFILE == sys::O_TMPFILE {
                    if ra >= 0 && rb >= 0 {
                        st.tmpfiles += 1;
                    } else if rb == -95 {
                        st.tmpfile_unsupported += 1;
                    }
                }
                if ra >= 0 && rb >= 0 && !mismatch {
                    let isdir = std::fs::metadata(format!("/proc/self/fd/{ra}")).map(|m| m.is_dir()).unwrap_or(false);
                    w.add(TFd {
                        fd: [ra as i32, rb as i32],
                        kind: if isdir { FdKind::Dir } else { FdKind::File },
                        group: o.li as u32,
                        alive: true,
                        permanent: false,
                        acc: *flags & sys::O_ACCMODE,
                        domain: 0,
                        ty: 0,
                        peer: usize::MAX,
                        pkind: PairKind::UnixStream,
                    });
                } else {
                    if ra >= 0 {
                        sys::close(ra as i32);
                    }
                    if rb >= 0 {
                        sys::close(rb as i32);
                    }
                }
            }
            Op::Close { f: FdRef::T(t) } => {
                if ra == 0 && rb == 0 {
                    w.fds[*t].alive = false;
                } else if ra == 0 || rb == 0 {
                    // one side closed only: close the other as well
                    w.close_direct(*t);
                }
            }
            Op::Socket { domain, ty, .. } => {
                let fresh = w.fds.iter().filter(|t| t.alive && t.kind == FdKind::SockFresh).count();
                if ra >= 0 && rb >= 0 && !mismatch && *domain == 1 && *ty == 1 && fresh < 6 {
                    let g = w.new_group();
                    w.add(TFd {
                        fd: [ra as i32, rb as i32],
                        kind: FdKind::SockFresh,
                        group: g,
                        alive: true,
                        permanent: false,
                        acc: sys::O_RDWR,
                        domain: 1,
                        ty: 1,
                        peer: usize::MAX,
                        pkind: PairKind::UnixStream,
                    });
                } else {
                    if ra >= 0 {
                        sys::close(ra as i32);
                    }
                    if rb >= 0 {
                        sys::close(rb as i32);
                    }
                }
            }
            Op::Accept { inet, .. } => {
                if ra >= 0 && rb >= 0 && !mismatch && o.client.is_some() {
                    if *inet {
                        sys::setsockopt_int(ra as i32, 6, 1, 1);
                        sys::setsockopt_int(rb as i32, 6, 1, 1);
                    }
                    let g = w.new_group();
                    w.add_pair(o.client.unwrap(), [ra as i32, rb as i32], if *inet { PairKind::Tcp } else { PairKind::UnixStream }, g);
                } else {
                    if ra >= 0 {
                        sys::close(ra as i32);
                    }
                    if rb >= 0 {
                        sys::close(rb as i32);
                    }
                    if let Some(c) = o.client {
                        sys::close(c[0]);
                        sys::close(c[1]);
                    }
                }
            }
            Op::ConnectUnix { f: FdRef::T(t), .. } => {
                let t = *t;
                if w.fds[t].kind == FdKind::SockFresh {
                    if ra == 0 && rb == 0 {
                        let lt = w.listeners[o.li].tfd;
                        let a0 = sys::accept4(w.fds[lt].fd[0], std::ptr::null_mut(), std::ptr::null_mut(), 0);
                        let a1 = sys::accept4(w.fds[lt].fd[1], std::ptr::null_mut(), std::ptr::null_mut(), 0);
                        if a0 >= 0 && a1 >= 0 {
                            let g = w.fds[t].group;
                            let mut y = w.fds[t].clone();
                            y.fd = [a0 as i32, a1 as i32];
                            y.kind = FdKind::SockEnd;
                            y.peer = t;
                            let yi = w.add(y);
                            w.fds[t].kind = FdKind::SockEnd;
                            w.fds[t].peer = yi;
                            w.fds[t].group = g;
                        } else {
                            w.close_direct(t);
                        }
                    } else if ra == 0 || rb == 0 {
                        w.close_direct(t);
                    }
                }
            }
            Op::Recvmsg { ctrl, .. } if *ctrl > 0 && ra >= 0 => {
                let fa = ops::parse_scm(&o.st.ctrl[0], o.st.mh_a.as_ref().map_or(0, |m| m.msg_controllen));
                let fb = if rb >= 0 { ops::parse_scm(&o.st.ctrl[1], o.st.mh_b.as_ref().map_or(0, |m| m.controllen)) } else { Vec::new() };
                scm_close.push([fa, fb]);
            }
            _ => {}
        }
    }
    for pair in scm_close {
        for side in pair {
            for f in side {
                if f > 2 {
                    sys::close(f);
                }
            }
        }
    }

    // ---- side effects: directory trees, unlinked-but-open files, socket state
    if !mismatch {
        if let Some(d) = w.tree_diff() {
            mismatch = true;
            let ops_txt: Vec<String> = b.ops.iter().map(|x| format!("{} -> {}", x.describe(), show(i64::from(x.res_a.unwrap_or(0))))).collect();
            let mut t = ops_txt.join(" ; ");
            t.truncate(3000);
            viol(st, "C18/batch/tree-differs-from-direct-twin", format!("{{\"difference\":{},\"batch\":{},\"ring\":{ring_desc}}}", vh::js(&d), vh::js(&t)));
        }
    }
    if !mismatch {
        for i in 0..w.fds.len() {
            let t = &w.fds[i];
            if !t.alive || !b.groups.contains(&t.group) {
                continue;
            }
            match t.kind {
                FdKind::File if t.acc != sys::O_WRONLY => {
                    let mut ba = vec![0u8; 16384];
                    let mut bb = vec![0u8; 16384];
                    let na = sys::pread(t.fd[0], &mut ba, 0);
                    let nb = sys::pread(t.fd[1], &mut bb, 0);
                    if na != nb || (na > 0 && ba[..na as usize] != bb[..nb as usize]) {
                        mismatch = true;
                        viol(st, "C18/batch/open-file-content-differs", format!("{{\"identity\":{},\"len\":[{na},{nb}]}}", vh::js(&w.identity(t.fd[0]))));
                        break;
                    }
                }
                FdKind::SockEnd if t.pkind != PairKind::Tcp => {
                    if !w.sock_state_settled(i) {
                        let s = w.sock_state(i);
                        mismatch = true;
                        viol(
                            st,
                            "C18/batch/socket-state-differs",
                            format!("{{\"pending_bytes\":[{},{}],\"poll\":[{},{}],\"kind\":{}}}", s[0].0, s[1].0, s[0].1, s[1].1, vh::js(&format!("{:?}", t.pkind))),
                        );
                        break;
                    }
                }
                _ => {}
            }
        }
    }
    st.t_cmp += sys::mono_ns() - t_twin_end;
    if mismatch {
        st.resets += 1;
        if let Err(e) = w.reset(r) {
            return Err(Fatal::Inconclusive(format!("world reset failed: {e}")));
        }
    }
    if std::env::var_os("C18_CHECK_PAIRS").is_some() {
        for i in 0..w.fds.len() {
            let t = &w.fds[i];
            if t.alive && t.kind == FdKind::SockEnd && t.pkind == PairKind::UnixStream && t.peer != usize::MAX && w.fds[t.peer].alive {
                for s in 0..2 {
                    let y = w.fds[t.peer].fd[s];
                    if sys::fionread(y) == 0 && sys::fionread(t.fd[s]) == 0 {
                        let r = sys::sc(44, &[i64::from(t.fd[s]), b"z".as_ptr() as i64, 1, 0x4040, 0, 0]);
                        let got = sys::fionread(y);
                        if r == 1 && got == 1 {
                            let mut b1 = [0u8; 1];
                            sys::read(y, &mut b1);
                        } else {
                            eprintln!("PAIRCHECK batch {} side {s}: T({i}) fd {} -> peer T({}) fd {}: send {r}, peer pending {got}", st.batches, t.fd[s], t.peer, y);
                            for x in &b.ops {
                                eprintln!("   op {} -> {} / {} client {:?}", x.describe(), show(i64::from(x.res_a.unwrap_or(0))), show(x.res_b.unwrap_or(0)), x.client);
                            }
                        }
                    }
                }
            }
        }
    }
    st.batches += 1;
    st.sqes += n as u64;
    if n as u32 == ring.sq_entries {
        st.full_ring_batches += 1;
    }
    Ok(!mismatch)
}

fn maintain(w: &mut World, r: &mut Rng) -> Result<(), String> {
    // keep the twin world lively and bounded (direct calls on both sides, not under test)
    if r.chance(1, 3) {
        let k = r.below(world::NENT as u64) as usize;
        w.seed_entry(k, r);
    }
    if w.alive_count() > 220 {
        for i in 0..w.fds.len() {
            if w.fds[i].alive && !w.fds[i].permanent && r.chance(1, 2) {
                w.close_direct(i);
            }
        }
    }
    let pairs = (0..w.fds.len())
        .filter(|i| {
            let t = &w.fds[*i];
            t.alive && t.kind == FdKind::SockEnd && t.peer != usize::MAX && w.fds[t.peer].alive
        })
        .count()
        / 2;
    if pairs < 5 {
        let pk = *r.pick(&[PairKind::UnixStream, PairKind::UnixStream, PairKind::UnixDgram, PairKind::UnixSeq, PairKind::Tcp]);
        w.make_pair(pk)?;
    }
    // forget dead table entries now and then (indices are only used within a batch)
    if w.fds.len() > 4000 {
        compact(w);
    }
    Ok(())
}

fn compact(w: &mut World) {
    let mut map: HashMap<usize, usize> = HashMap::new();
    let mut nf = Vec::new();
    for (i, t) in w.fds.iter().enumerate() {
        if t.alive {
            map.insert(i, nf.len());
            nf.push(t.clone());
        }
    }
    for t in nf.iter_mut() {
        t.peer = map.get(&t.peer).copied().unwrap_or(usize::MAX);
    }
    for p in w.perm.iter_mut() {
        *p = map[p];
    }
    for l in w.listeners.iter_mut() {
        l.tfd = map[&l.tfd];
    }
    w.fds = nf;
}

fn twin(seed: u64, batches: u64, bits: u32, entries: u32) {
    let mut r = Rng::new(seed ^ (u64::from(bits) << 20) ^ u64::from(entries));
    let mut w = match World::new(&format!("{seed}-{bits:x}-{entries}")) {
        Ok(w) => w,
        Err(e) => {
            vh::inconclusive(&format!("world: {e}"));
            return;
        }
    };
    // Everything relative resolves inside the sandbox: if the code under test loses a directory descriptor
    // (AT_FDCWD instead of the twin's dirfd) the stray files land in a directory that is removed afterwards.
    let stray = format!("{}/cwd", w.root);
    if std::fs::create_dir(&stray).and_then(|()| std::env::set_current_dir(&stray)).is_err() {
        vh::inconclusive("cannot enter the sandbox directory");
        return;
    }
    if let Err(e) = w.populate(&mut r) {
        vh::inconclusive(&format!("populate: {e}"));
        return;
    }
    let mut ring = match setup_ring(bits, entries, &w) {
        Ok(x) => x,
        Err(e) => {
            vh::inconclusive(&format!("ring set-up with flags {} entries {entries}: {e}", flag_names(bits)));
            return;
        }
    };
    let salt = r.next() | 1 << 63;
    let mut serial = 0u64;
    let mut st = Stats::default();
    let mut clean = 0u64;
    let use_drain = seed & 1 == 1;
    ring.use_drain = use_drain;
    let mut t_phase = [0u128; 3];
    // watchdog: a batch that does not finish is reported as inconclusive (never as a violation)
    let progress = std::sync::Arc::new(std::sync::Mutex::new((0u64, std::time::Instant::now(), String::new())));
    {
        let progress = progress.clone();
        std::thread::spawn(move || loop {
            std::thread::sleep(std::time::Duration::from_millis(500));
            let g = progress.lock().unwrap();
            if g.1.elapsed().as_secs() >= 60 {
                vh::inconclusive(&format!("twin {seed} {batches} {bits:x} {entries}: batch {} did not finish within 60 s: {}", g.0, g.2));
                std::process::exit(3);
            }
        });
    }
    for bn in 0..batches {
        let n = match r.below(10) {
            0 => 1,
            1 | 2 => ring.sq_entries as usize,
            _ => r.range(1, u64::from(ring.sq_entries)) as usize,
        };
        let mut b = {
            let mut g = Gen {
                w: &mut w,
                r: &mut r,
                claimed: HashSet::new(),
                region: [0; NBUF],
                disabled: &st.disabled,
                timeouts: 0,
                skipped_presync: 0,
                // IOSQE_IO_DRAIN leaves state in the kernel that makes it issue the first request of a later
                // submission from task work, i.e. after the others; a counting timeout would then start counting
                // too late. A ring therefore uses either drain flags or counting timeouts (chosen from the seed).
                // On SQPOLL rings the poller thread's issue order is not ours to know: no counting timeouts there.
                allow_count_timeout: !use_drain && !ring.sqpoll,
                allow_drain: use_drain,
            };
            g.batch(n)
        };

        let t_gen = std::time::Instant::now();
        {
            let mut g = progress.lock().unwrap();
            let mut d: String = b.ops.iter().map(|o| o.describe()).collect::<Vec<_>>().join(" ; ");
            d.truncate(1500);
            *g = (bn, std::time::Instant::now(), d);
        }
        match run_batch(&mut ring, &mut w, &mut b, &mut serial, salt, &mut st, &mut r) {
            Ok(true) => clean += 1,
            Ok(false) => {}
            Err(Fatal::Inconclusive(t)) => {
                if st.viols.is_empty() {
                    vh::inconclusive(&format!("twin run (flags {}, entries {entries}) stopped after {} batches: {t}", flag_names(bits), st.batches));
                }
                break;
            }
        }
        drop(b);
        t_phase[0] += t_gen.elapsed().as_micros();
        let t_m = std::time::Instant::now();
        let me = maintain(&mut w, &mut r);
        t_phase[1] += t_m.elapsed().as_micros();
        if let Err(e) = me {
            vh::inconclusive(&format!("world maintenance: {e}"));
            break;
        }
    }
    // nothing may be left in the completion queue
    if st.batches > 0 {
        let _ = enter(ring.u.fd, 0, 0, IoUringEnterFlags::IORING_ENTER_GETEVENTS);
        if let Ok(Some((ud, res))) = vh::catch(|| ring.u.get_next_cqe().map(|c| (c.0.user_data, c.0.res))) {
            viol(&mut st, "C18/completion/duplicate-late", format!("{{\"user_data\":{ud},\"res\":{res},\"at\":\"end of run\"}}"));
        }
    }
    let sq = ring.sq_entries;
    drop(ring);
    vh::eval(st.sqes + st.batches);
    vh::count("batches", st.batches);
    vh::count("batches_all_equal", clean);
    vh::count("operations_submitted", st.sqes);
    for (k, v) in &st.per_op {
        vh::count(&format!("op_{k}"), *v);
    }
    vh::count("negative_result_comparisons", st.neg_cmp);
    vh::count("linked_chains", st.chains);
    vh::count("ops_expected_cancelled", st.cancelled);
    vh::count("slot_reuse_cycles", st.sqes / u64::from(sq));
    vh::count("full_ring_batches", st.full_ring_batches);
    vh::count("ops_with_IOSQE_ASYNC", st.async_ops);
    vh::count("ops_with_IOSQE_IO_DRAIN", st.drain_ops);
    vh::count("ops_on_registered_files", st.fixed_file_ops);
    vh::count("submission_split_over_several_enter_calls", st.resubmits);
    vh::count("sqpoll_wakeups", st.wakeups);
    vh::count("o_tmpfile_files_created_and_compared", st.tmpfiles);
    vh::count("o_tmpfile_skipped_fs_does_not_support_it", st.tmpfile_unsupported);
    vh::count("intermediate_flushes_within_a_batch", st.extra_flushes);
    vh::count("batches_with_partial_first_enter", st.partial_enters);
    vh::count("world_resets_after_mismatch", st.resets);
    vh::count("poll_not_ready_on_direct_side_skipped", st.poll_not_ready);
    vh::count("link_severing_left_to_kernel", st.kernel_dependent_links);
    vh::count("rings_run", 1);
    vh::count("wall_ms_batches", (t_phase[0] / 1000) as u64);
    vh::count("wall_ms_world_maintenance", (t_phase[1] / 1000) as u64);
    vh::count("wall_ms_uring_submit_to_reap", (st.t_ring / 1_000_000) as u64);
    vh::count("wall_ms_direct_replay", (st.t_twin / 1_000_000) as u64);
    vh::count("wall_ms_side_effect_compare", (st.t_cmp / 1_000_000) as u64);
    vh::sample(
        &format!(
            "{{\"ring\":{{\"entries\":{sq},\"flags\":{}}},\"batches\":{},\"operations\":{},\"slot_reuse_cycles\":{},\"chains\":{},\"negative_results_compared\":{}}}",
            vh::js(&flag_names(bits)),
            st.batches,
            st.sqes,
            st.sqes / u64::from(sq),
            st.chains,
            st.neg_cmp
        ),
        8,
    );
}


const SIG_WAKEUP: &str = "C18/sqpoll/needs_wakeup-false-while-need-wakeup-bit-set";

/// The wrapper's answer, sandwiched between two independent reads of the kernel's SQ flags word.
/// The poller clears IORING_SQ_NEED_WAKEUP only when somebody wakes it; if the bit is set before and after
/// the call, it was set during the call, and an answer `false` is the refuting event (returns the word).
fn wakeup_decision(u: &IoUring, kv: Option<&kview::KView>) -> (bool, Option<u32>) {
    let k1 = kv.map(kview::KView::word);
    let w = u.needs_wakeup();
    let k2 = kv.map(kview::KView::word);
    match (k1, k2) {
        (Some(a), Some(b)) if a & kview::SQ_NEED_WAKEUP != 0 && b & kview::SQ_NEED_WAKEUP != 0 && !w => (w, Some(a & b)),
        _ => (w, None),
    }
}

/// SQPOLL wake-up protocol workload. The submit path is the documented one (flush; if needs_wakeup() then
/// io_uring_enter(SQ_WAKEUP)) and uses only the wrapper to decide. Phases per round: idle poller; submit;
/// overflow the completion queue (more completions than CQ entries left unreaped); idle poller again;
/// submit; every operation must produce exactly one completion.
#[allow(clippy::too_many_lines)]
fn sqpoll(seed: u64, rounds: u64, bits: u32, entries: u32) {
    let _ = std::env::set_current_dir("/");
    let mut r = Rng::new(seed ^ u64::from(bits) << 8);
    let desc = format!("{{\"entries\":{entries},\"flags\":{}}}", vh::js(&flag_names(bits)));
    let mut u = match vh::catch(|| setup_io_uring(entries, pflags(bits), 0, 2)) {
        Ok(Ok(u)) => u,
        Ok(Err(_)) => {
            vh::count("sqpoll_flag_sets_skipped_rejected_by_kernel", 1);
            vh::distinct(&format!("sqpoll-protocol/skipped/{}", flag_names(bits)));
            return;
        }
        Err(p) => {
            vh::viol("C18/setup/panic", &format!("{{\"panic\":{}}}", vh::js(&p)));
            return;
        }
    };
    let kv = match kview::KView::new(u.fd.value(), bits, entries, 2) {
        Ok(k) => k,
        Err(e) => {
            vh::inconclusive(&format!("sqpoll protocol: no independent view of the ring: {e}"));
            return;
        }
    };
    let path = rusl::unix_lit!("/");
    let mut stx = Box::new(ops::StxBuf([0; 256]));
    let ts0 = rusl::platform::TimeSpec::new(0, 0);
    let mut serial = 1u64;
    let mut evals = 0u64;
    let mut refuted = 0u64;
    let mut nviol = 0u32;
    let (mut idle_seen, mut overflow_seen, mut both_seen, mut submitted, mut wakeups) = (0u64, 0u64, 0u64, 0u64, 0u64);
    // outstanding: user_data -> (wrapper said no wake-up although the kernel's bit was set)
    let mut outstanding: BTreeMap<u64, bool> = BTreeMap::new();

    // wait (bounded) until the poller sleeps: the kernel's word shows NEED_WAKEUP
    let wait_idle = |kv: &kview::KView| -> bool {
        let t0 = std::time::Instant::now();
        while t0.elapsed().as_millis() < 1500 {
            if kv.word() & kview::SQ_NEED_WAKEUP != 0 {
                return true;
            }
            std::thread::sleep(std::time::Duration::from_millis(1));
        }
        false
    };
    macro_rules! submit_one {
        () => {{
            let ud = serial;
            serial += 1;
            let t0 = std::time::Instant::now();
            let mut slot = u.get_next_sqe_slot();
            while slot.is_none() && t0.elapsed().as_secs() < 3 {
                std::thread::yield_now();
                slot = u.get_next_sqe_slot();
            }
            match slot {
                None => None,
                Some(p) => {
                    unsafe {
                        if bits & B_SQE128 != 0 {
                            core::ptr::write_bytes(p.cast::<u8>(), 0, 128);
                        }
                        if r.chance(1, 3) {
                            p.write(rusl::platform::IoUringSubmissionQueueEntry::new_timeout(&ts0, true, None, ud, rusl::platform::IoUringSQEFlags::empty()));
                        } else {
                            p.write(rusl::platform::IoUringSubmissionQueueEntry::new_statx(
                                None,
                                path,
                                rusl::platform::StatxFlags::empty(),
                                rusl::platform::StatxMask::STATX_SIZE,
                                stx.0.as_mut_ptr().cast(),
                                ud,
                                rusl::platform::IoUringSQEFlags::empty(),
                            ));
                        }
                    }
                    u.flush_submission_queue();
                    let (wake, refut) = wakeup_decision(&u, Some(&kv));
                    evals += 1;
                    vh::distinct(&format!("sqpoll-protocol/{}/kernel-word-{}/wrapper-{}", flag_class(bits), kv.word() & 7, wake));
                    if let Some(word) = refut {
                        refuted += 1;
                        nviol += 1;
                        if nviol <= 2 {
                            vh::viol(SIG_WAKEUP, &format!("{{\"kernel_sq_flags\":{word},\"needs_wakeup\":false,\"ring\":{desc},\"cq_entries\":{},\"unreaped\":{}}}", kv.cq_entries, outstanding.len()));
                        }
                    }
                    if wake {
                        wakeups += 1;
                        let _ = enter(u.fd, 0, 0, IoUringEnterFlags::IORING_ENTER_SQ_WAKEUP);
                    }
                    submitted += 1;
                    outstanding.insert(ud, refut.is_some());
                    Some(ud)
                }
            }
        }};
    }
    // reap what is there without ever blocking and without waking the poller; flushes overflowed completions
    macro_rules! reap {
        () => {{
            let _ = enter(u.fd, 0, 0, IoUringEnterFlags::IORING_ENTER_GETEVENTS);
            let mut bad = None;
            while let Some(c) = u.get_next_cqe() {
                let ud = c.0.user_data;
                if outstanding.remove(&ud).is_none() {
                    bad = Some(ud);
                }
            }
            if let Some(ud) = bad {
                vh::viol(if ud < serial { "C18/completion/duplicate" } else { "C18/completion/unknown-user-data" }, &format!("{{\"user_data\":{ud},\"ring\":{desc},\"where\":\"sqpoll protocol\"}}"));
            }
        }};
    }
    // everything outstanding must complete; a missing completion is reported only with the certificate
    macro_rules! settle {
        ($what:expr) => {{
            // with a refuted wake-up decision on record a short wait is enough (the certificate is checked below);
            // without one only a generous watchdog applies (a starved poller thread is not a finding)
            let t0 = std::time::Instant::now();
            let limit = if outstanding.values().any(|c| *c) { 1500 } else { 20_000 };
            while !outstanding.is_empty() && t0.elapsed().as_millis() < limit {
                reap!();
                if !outstanding.is_empty() {
                    std::thread::sleep(std::time::Duration::from_micros(300));
                }
            }
            evals += 1;
            let mut ok = true;
            if !outstanding.is_empty() {
                ok = false;
                let certified = outstanding.values().any(|c| *c) && kv.sq_pending() > 0 && kv.word() & kview::SQ_NEED_WAKEUP != 0;
                if certified {
                    vh::viol(
                        "C18/completion/missing",
                        &format!(
                            "{{\"phase\":{},\"never_completed\":{},\"certificate\":\"entries published but not consumed ({} pending), poller asleep (kernel SQ flags {}), needs_wakeup() answered false at submission\",\"ring\":{desc}}}",
                            vh::js($what),
                            outstanding.len(),
                            kv.sq_pending(),
                            kv.word()
                        ),
                    );
                } else {
                    vh::inconclusive(&format!("sqpoll protocol ({}): {} completions outstanding after 20 s without a certificate (kernel SQ flags {}, pending {})", $what, outstanding.len(), kv.word(), kv.sq_pending()));
                }
                // recover: wake the poller unconditionally and drain
                let _ = enter(u.fd, 0, 0, IoUringEnterFlags::IORING_ENTER_SQ_WAKEUP);
                let t1 = std::time::Instant::now();
                while !outstanding.is_empty() && t1.elapsed().as_secs() < 5 {
                    reap!();
                    std::thread::sleep(std::time::Duration::from_micros(300));
                }
            }
            ok && outstanding.is_empty()
        }};
    }
    for round in 0..rounds {
        // (a) idle poller, nothing unreaped
        if wait_idle(&kv) {
            idle_seen += 1;
        }
        if submit_one!().is_none() {
            vh::inconclusive("sqpoll protocol: no submission slot");
            break;
        }
        if !settle!("idle poller") && nviol == 0 {
            break;
        }
        // (b) overflow the completion queue: leave more completions unreaped than it has entries
        let extra = r.range(1, 3) as u32;
        let want = kv.cq_entries + extra;
        let mut failed = false;
        for i in 0..want {
            // now and then let the poller fall asleep in the middle of the burst as well
            if i > 0 && r.chance(1, 4) {
                wait_idle(&kv);
            }
            if submit_one!().is_none() {
                failed = true;
                break;
            }
            // consumed by the kernel? (bounded; with a refuted wake-up decision it will not be)
            let t0 = std::time::Instant::now();
            while kv.sq_pending() > 0 && t0.elapsed().as_millis() < 300 {
                std::thread::yield_now();
            }
            if kv.sq_pending() > 0 {
                break;
            }
        }
        if failed {
            vh::inconclusive("sqpoll protocol: no submission slot during the burst");
            break;
        }
        // give the completions time to be posted (bounded), then look at the kernel's word
        let t0 = std::time::Instant::now();
        while kv.word() & kview::SQ_CQ_OVERFLOW == 0 && t0.elapsed().as_millis() < 200 {
            std::thread::yield_now();
        }
        let over = kv.word() & kview::SQ_CQ_OVERFLOW != 0;
        if over {
            overflow_seen += 1;
        }
        // (c) the poller goes to sleep with the overflow still standing, then the next submission
        let slept = wait_idle(&kv);
        if slept && kv.word() & kview::SQ_CQ_OVERFLOW != 0 {
            both_seen += 1;
        }
        if round % 2 == 1 {
            // variant: poller still awake (or just woken) while the overflow stands
            let _ = enter(u.fd, 0, 0, IoUringEnterFlags::IORING_ENTER_SQ_WAKEUP);
        }
        if submit_one!().is_none() && !outstanding.values().any(|c| *c) {
            vh::inconclusive("sqpoll protocol: no submission slot after the overflow");
            break;
        }
        // (without a free slot because an earlier entry was never consumed, settle reports that entry with its certificate)
        if !settle!("overflowed completion queue, sleeping poller") && nviol == 0 {
            break;
        }
    }
    drop(kv);
    drop(u);
    vh::eval(evals);
    vh::count("sqpoll_protocol_rings", 1);
    vh::count("sqpoll_protocol_submissions", submitted);
    vh::count("sqpoll_protocol_wakeups_issued", wakeups);
    vh::count("sqpoll_protocol_poller_seen_asleep", idle_seen);
    vh::count("sqpoll_protocol_cq_overflow_seen", overflow_seen);
    vh::count("sqpoll_protocol_asleep_with_overflow_standing", both_seen);
    vh::count("sqpoll_protocol_wakeup_decisions_refuted", refuted);
    vh::sample(
        &format!(
            "{{\"sqpoll_protocol\":{desc},\"rounds\":{rounds},\"submissions\":{submitted},\"poller_asleep_with_cq_overflow\":{both_seen},\"wakeups_issued\":{wakeups},\"refuted_decisions\":{refuted}}}"
        ),
        2,
    );
}

fn probe(entries: u32) {
    let mut acc = Vec::new();
    let mut rej = 0u32;
    for bits in 0u32..(1 << 14) {
        match vh::catch(|| setup_io_uring(entries, pflags(bits), 0, 2).map(drop)) {
            Ok(Ok(())) => acc.push(bits),
            Ok(Err(_)) => rej += 1,
            Err(p) => {
                vh::viol("C18/setup/panic", &format!("{{\"flags\":{},\"panic\":{}}}", vh::js(&flag_names(bits)), vh::js(&p)));
                return;
            }
        }
    }
    let single: Vec<String> = (0..14)
        .map(|i| format!("{}={}", FLAG_NAMES[i], if acc.contains(&(1u32 << i)) { "accepted" } else { "rejected-alone" }))
        .collect();
    println!("ACCEPTED {}", acc.iter().map(|b| format!("{b:x}")).collect::<Vec<_>>().join(" "));
    vh::count("flag_sets_probed", 1 << 14);
    vh::count("flag_sets_accepted", acc.len() as u64);
    vh::count("flag_sets_skipped_rejected_by_kernel", u64::from(rej));
    vh::sample(&format!("{{\"single_flag_probe\":{}}}", vh::js(&single.join(" "))), 1);
}

/// set-up + use + drop cycles; markers bracket set-up (scenario 1) and drop (scenario 2)
fn cycle(seed: u64, cycles: u64, sets: &[u32]) {
    let _ = std::env::set_current_dir("/");
    let mut r = Rng::new(seed);
    let traced = marker::traced();
    if !traced {
        vh::inconclusive("cycle mode is meant to run under sysmon");
    }
    let mut used = 0u64;
    for c in 0..cycles {
        let bits = sets[(c as usize) % sets.len()];
        let entries = match r.below(4) {
            0 => 1,
            1 => 64,
            _ => r.range(1, 64) as u32,
        };
        // every third cycle: make the k-th mmap of the set-up fail
        let inject = if c % 3 == 2 { Some(((c / 3) % 3) as i64) } else { None };
        marker::begin(1, c as i64, i64::from(bits) | i64::from(entries) << 16);
        if let Some(k) = inject {
            marker::inject(marker::SCOPE_THREAD, 9, k, -12, 1);
        }
        let res = vh::catch(|| setup_io_uring(entries, pflags(bits), 0, 2));
        marker::disarm();
        let (ok, fd) = match &res {
            Ok(Ok(u)) => (1, i64::from(u.fd.value())),
            Ok(Err(_)) => (0, -1),
            Err(_) => (-1, -1),
        };
        marker::end(1, c as i64, ok, fd, inject.unwrap_or(-1));
        if let Err(p) = &res {
            vh::viol("C18/setup/panic", &format!("{{\"flags\":{},\"panic\":{}}}", vh::js(&flag_names(bits)), vh::js(p)));
            continue;
        }
        let Ok(Ok(mut u)) = res else { continue };
        if bits & (B_IOPOLL | B_R_DISABLED) == 0 {
            // use it: a few statx of "/" and one zero timeout, then everything must have completed
            let n = r.range(1, u64::from(entries.next_power_of_two()).min(4)) as usize;
            let mut bufs: Vec<Box<ops::StxBuf>> = (0..n).map(|_| Box::new(ops::StxBuf([0; 256]))).collect();
            let path = rusl::unix_lit!("/");
            for (i, bf) in bufs.iter_mut().enumerate() {
                if let Some(slot) = u.get_next_sqe_slot() {
                    unsafe {
                        if bits & B_SQE128 != 0 {
                            core::ptr::write_bytes(slot.cast::<u8>(), 0, 128);
                        }
                        slot.write(rusl::platform::IoUringSubmissionQueueEntry::new_statx(
                            None,
                            path,
                            rusl::platform::StatxFlags::empty(),
                            rusl::platform::StatxMask::STATX_SIZE,
                            bf.0.as_mut_ptr().cast(),
                            1000 + i as u64,
                            rusl::platform::IoUringSQEFlags::empty(),
                        ));
                    }
                }
            }
            u.flush_submission_queue();
            let sub = if bits & B_SQPOLL != 0 {
                if u.needs_wakeup() {
                    let _ = enter(u.fd, 0, 0, IoUringEnterFlags::IORING_ENTER_SQ_WAKEUP);
                }
                Ok(n)
            } else {
                enter(u.fd, n as u32, 0, IoUringEnterFlags::empty())
            };
            let wait = if sub == Ok(n) { enter(u.fd, 0, n as u32, IoUringEnterFlags::IORING_ENTER_GETEVENTS) } else { Err(0) };
            let mut got = 0;
            while let Some(c) = u.get_next_cqe() {
                if c.0.res == 0 {
                    got += 1;
                }
            }
            if sub.is_ok() && wait.is_ok() && got == n {
                used += 1;
            } else {
                vh::inconclusive(&format!("cycle {c}: use phase incomplete (submit {sub:?}, wait {wait:?}, completions {got}/{n})"));
            }
        }
        marker::begin(2, c as i64, fd);
        let d = vh::catch(move || drop(u));
        marker::end(2, c as i64, i64::from(d.is_ok()), i64::from(entries), 0);
        if let Err(p) = d {
            vh::viol("C18/drop/panic", &format!("{{\"flags\":{},\"panic\":{}}}", vh::js(&flag_names(bits)), vh::js(&p)));
        }
    }
    vh::count("cycles_with_use_phase", used);
}

fn main() {
    let a = vh::args();
    match a.mode.as_str() {
        "probe" => probe(a.budget.max(1) as u32),
        "twin" => {
            let bits = a.rest.first().and_then(|s| u32::from_str_radix(s, 16).ok()).unwrap_or(0);
            let entries = a.rest.get(1).and_then(|s| s.parse().ok()).unwrap_or(8);
            twin(a.seed, a.budget, bits, entries);
        }
        "sqpoll" => {
            let bits = a.rest.first().and_then(|s| u32::from_str_radix(s, 16).ok()).unwrap_or(2);
            let entries = a.rest.get(1).and_then(|s| s.parse().ok()).unwrap_or(1);
            sqpoll(a.seed, a.budget, bits, entries);
        }
        "cycle" => {
            let sets: Vec<u32> = a.rest.first().map_or(vec![0], |s| s.split(',').filter_map(|x| u32::from_str_radix(x, 16).ok()).collect());
            cycle(a.seed, a.budget, &sets);
        }
        m => vh::inconclusive(&format!("unknown mode {m}")),
    }
}
