//! Twin world: two directory trees, two sets of descriptors and sockets kept identical.
//! Side 0 (A) is driven through io_uring, side 1 (B) through direct system calls.
#![allow(dead_code)]
use crate::sys;
use std::collections::BTreeMap;
use vh::Rng;

pub const NENT: usize = 96;
pub const NPERM: usize = 3;
pub const G_PERM: u32 = 1000;
pub const BADFD: i32 = 1_000_000;

#[derive(Clone, Copy, PartialEq, Eq, Debug)]
pub enum FdKind {
    File,
    Dir,
    SockFresh,
    SockEnd,
    Listener,
}

#[derive(Clone, Copy, PartialEq, Eq, Debug)]
pub enum PairKind {
    UnixStream,
    UnixDgram,
    UnixSeq,
    Tcp,
}

#[derive(Clone, Debug)]
pub struct TFd {
    pub fd: [i32; 2],
    pub kind: FdKind,
    pub group: u32,
    pub alive: bool,
    pub permanent: bool,
    pub acc: i32,
    pub domain: i32,
    pub ty: i32,
    pub peer: usize,
    pub pkind: PairKind,
}

#[derive(Clone, Debug)]
pub struct Listener {
    pub tfd: usize,
    pub inet: bool,
    pub group: u32,
    /// sockaddr bytes per side
    pub addr: [Vec<u8>; 2],
    /// path relative to the side root (unix)
    pub rel: String,
}

pub struct World {
    pub root: String,
    pub dir: [String; 2],
    pub dirfd: [i32; 2],
    pub fds: Vec<TFd>,
    pub listeners: Vec<Listener>,
    pub next_group: u32,
    pub perm: Vec<usize>,
}

#[derive(Debug, Clone, PartialEq, Eq)]
pub struct Node {
    pub ty: &'static str,
    pub perm: u32,
    pub nlink: u64,
    pub size: u64,
    pub content: Vec<u8>,
}

fn cpath(s: &str) -> Vec<u8> {
    let mut v = s.as_bytes().to_vec();
    v.push(0);
    v
}

pub fn sockaddr_un(path: &str) -> Vec<u8> {
    let mut v = vec![1u8, 0u8];
    v.extend_from_slice(path.as_bytes());
    v.push(0);
    v
}

impl World {
    pub fn new(tag: &str) -> Result<World, String> {
        let base = std::env::var("C18_TMP").unwrap_or_else(|_| "/tmp".into());
        let root = format!("{base}/c18-{}-{}", std::process::id(), tag);
        let _ = std::fs::remove_dir_all(&root);
        std::fs::create_dir_all(&root).map_err(|e| format!("mkdir {root}: {e}"))?;
        let dir = [format!("{root}/A"), format!("{root}/B")];
        let mut dirfd = [-1; 2];
        for s in 0..2 {
            std::fs::create_dir(&dir[s]).map_err(|e| format!("mkdir: {e}"))?;
            let r = sys::openat(sys::AT_FDCWD, &cpath(&dir[s]), sys::O_RDONLY | sys::O_DIRECTORY | sys::O_CLOEXEC, 0);
            if r < 0 {
                return Err(format!("open dir: {r}"));
            }
            dirfd[s] = r as i32;
        }
        let mut w = World {
            root,
            dir,
            dirfd,
            fds: Vec::new(),
            listeners: Vec::new(),
            next_group: 2000,
            perm: Vec::new(),
        };
        // permanent files (also registered as fixed files by the ring owner)
        for i in 0..NPERM {
            let mut fd = [-1; 2];
            for s in 0..2 {
                let p = cpath(&format!("{}/p{}", w.dir[s], i));
                let r = sys::openat(sys::AT_FDCWD, &p, sys::O_RDWR | sys::O_CREAT | sys::O_CLOEXEC, 0o644);
                if r < 0 {
                    return Err(format!("perm file: {r}"));
                }
                fd[s] = r as i32;
            }
            let idx = w.add(TFd {
                fd,
                kind: FdKind::File,
                group: G_PERM + i as u32,
                alive: true,
                permanent: true,
                acc: sys::O_RDWR,
                domain: 0,
                ty: 0,
                peer: usize::MAX,
                pkind: PairKind::UnixStream,
            });
            w.perm.push(idx);
        }
        Ok(w)
    }

    pub fn add(&mut self, t: TFd) -> usize {
        self.fds.push(t);
        self.fds.len() - 1
    }
    pub fn new_group(&mut self) -> u32 {
        self.next_group += 1;
        self.next_group
    }
    pub fn abs(&self, side: usize, rel: &str) -> String {
        if rel.is_empty() {
            self.dir[side].clone()
        } else {
            format!("{}/{}", self.dir[side], rel)
        }
    }

    /// populate everything (entries, permanent file contents, sockets) identically on both sides
    pub fn populate(&mut self, r: &mut Rng) -> Result<(), String> {
        for k in 0..NENT {
            self.seed_entry(k, r);
        }
        for i in 0..NPERM {
            let len = r.below(3000) as usize + 64;
            let data = r.bytes(len);
            let t = self.fds[self.perm[i]].clone();
            for s in 0..2 {
                sys::ftruncate(t.fd[s], 0);
                sys::pwrite(t.fd[s], &data, 0);
            }
        }
        for (pk, n) in [(PairKind::UnixStream, 3), (PairKind::UnixDgram, 1), (PairKind::UnixSeq, 1), (PairKind::Tcp, 1)] {
            for _ in 0..n {
                self.make_pair(pk)?;
            }
        }
        if self.listeners.is_empty() {
            self.make_listener(false)?;
            self.make_listener(false)?;
            self.make_listener(true)?;
        }
        Ok(())
    }

    fn rm_rf(&self, rel: &str) {
        for s in 0..2 {
            let p = self.abs(s, rel);
            match std::fs::symlink_metadata(&p) {
                Ok(m) if m.is_dir() => {
                    let _ = std::fs::remove_dir_all(&p);
                }
                Ok(_) => {
                    let _ = std::fs::remove_file(&p);
                }
                Err(_) => {}
            }
        }
    }

    /// bring entry k (names e<k>, f<k>) into a fresh random state, closing the descriptors attached to it
    pub fn seed_entry(&mut self, k: usize, r: &mut Rng) {
        for i in 0..self.fds.len() {
            if self.fds[i].alive && self.fds[i].group == k as u32 && !self.fds[i].permanent {
                self.close_direct(i);
            }
        }
        self.rm_rf(&format!("e{k}"));
        self.rm_rf(&format!("f{k}"));
        let what = r.below(100);
        let name = format!("e{k}");
        if what < 25 {
            // absent
        } else if what < 60 {
            let len = match r.below(4) {
                0 => 0,
                1 => r.below(64) as usize,
                _ => r.below(5000) as usize,
            };
            let data = r.bytes(len);
            for s in 0..2 {
                let _ = std::fs::write(self.abs(s, &name), &data);
            }
        } else {
            for s in 0..2 {
                let _ = std::fs::create_dir(self.abs(s, &name));
            }
            if what >= 72 {
                for j in 0..3 {
                    if r.chance(1, 2) {
                        let len = r.below(900) as usize;
                        let data = r.bytes(len);
                        for s in 0..2 {
                            let _ = std::fs::write(self.abs(s, &format!("{name}/c{j}")), &data);
                        }
                    }
                }
            }
        }
    }

    pub fn close_direct(&mut self, idx: usize) {
        if self.fds[idx].alive {
            for s in 0..2 {
                sys::close(self.fds[idx].fd[s]);
            }
            self.fds[idx].alive = false;
        }
    }

    pub fn make_pair(&mut self, pk: PairKind) -> Result<(usize, usize), String> {
        let g = self.new_group();
        let mut x = [-1; 2];
        let mut y = [-1; 2];
        for s in 0..2 {
            match pk {
                PairKind::Tcp => {
                    let l = sys::socket(2, 1 | sys::O_CLOEXEC, 0);
                    if l < 0 {
                        return Err(format!("tcp socket {l}"));
                    }
                    let mut sa = vec![0u8; 16];
                    sa[0] = 2;
                    sa[4..8].copy_from_slice(&[127, 0, 0, 1]);
                    if sys::bind(l as i32, &sa) < 0 || sys::listen(l as i32, 4) < 0 {
                        return Err("tcp bind/listen".into());
                    }
                    let name = sys::getsockname(l as i32);
                    let c = sys::socket(2, 1 | sys::O_CLOEXEC, 0);
                    let rc = sys::connect(c as i32, &name);
                    let a = sys::accept4(l as i32, std::ptr::null_mut(), std::ptr::null_mut(), sys::O_CLOEXEC as u32);
                    sys::close(l as i32);
                    if c < 0 || rc < 0 || a < 0 {
                        return Err(format!("tcp pair {c} {rc} {a}"));
                    }
                    sys::setsockopt_int(c as i32, 6, 1, 1);
                    sys::setsockopt_int(a as i32, 6, 1, 1);
                    x[s] = c as i32;
                    y[s] = a as i32;
                }
                _ => {
                    let ty = match pk {
                        PairKind::UnixStream => 1,
                        PairKind::UnixDgram => 2,
                        _ => 5,
                    };
                    let sv = sys::socketpair(1, ty | sys::O_CLOEXEC, 0).map_err(|e| format!("socketpair {e}"))?;
                    x[s] = sv[0];
                    y[s] = sv[1];
                }
            }
        }
        Ok(self.add_pair(x, y, pk, g))
    }

    pub fn add_pair(&mut self, x: [i32; 2], y: [i32; 2], pk: PairKind, g: u32) -> (usize, usize) {
        let (domain, ty) = match pk {
            PairKind::UnixStream => (1, 1),
            PairKind::UnixDgram => (1, 2),
            PairKind::UnixSeq => (1, 5),
            PairKind::Tcp => (2, 1),
        };
        let base = TFd {
            fd: x,
            kind: FdKind::SockEnd,
            group: g,
            alive: true,
            permanent: false,
            acc: sys::O_RDWR,
            domain,
            ty,
            peer: usize::MAX,
            pkind: pk,
        };
        let ix = self.add(base.clone());
        let iy = self.add(TFd { fd: y, ..base });
        self.fds[ix].peer = iy;
        self.fds[iy].peer = ix;
        (ix, iy)
    }

    pub fn make_listener(&mut self, inet: bool) -> Result<usize, String> {
        let g = self.new_group();
        let n = self.listeners.len();
        let rel = format!("L{n}");
        let mut fd = [-1; 2];
        let mut addr = [Vec::new(), Vec::new()];
        for s in 0..2 {
            if inet {
                let l = sys::socket(2, 1 | sys::O_CLOEXEC, 0);
                let mut sa = vec![0u8; 16];
                sa[0] = 2;
                sa[4..8].copy_from_slice(&[127, 0, 0, 1]);
                if l < 0 || sys::bind(l as i32, &sa) < 0 || sys::listen(l as i32, 64) < 0 {
                    return Err("inet listener".into());
                }
                addr[s] = sys::getsockname(l as i32);
                fd[s] = l as i32;
            } else {
                let p = self.abs(s, &rel);
                let _ = std::fs::remove_file(&p);
                let l = sys::socket(1, 1 | sys::O_CLOEXEC, 0);
                let sa = sockaddr_un(&p);
                if l < 0 || sys::bind(l as i32, &sa) < 0 || sys::listen(l as i32, 64) < 0 {
                    return Err(format!("unix listener {p}"));
                }
                addr[s] = sa;
                fd[s] = l as i32;
            }
        }
        let tfd = self.add(TFd {
            fd,
            kind: FdKind::Listener,
            group: g,
            alive: true,
            permanent: true,
            acc: sys::O_RDWR,
            domain: if inet { 2 } else { 1 },
            ty: 1,
            peer: usize::MAX,
            pkind: if inet { PairKind::Tcp } else { PairKind::UnixStream },
        });
        self.listeners.push(Listener { tfd, inet, group: g, addr, rel });
        Ok(n)
    }

    /// a client socket connected (directly) to listener `li` on both sides; returns descriptors per side
    pub fn connect_client(&self, li: usize) -> Result<[i32; 2], String> {
        let l = &self.listeners[li];
        let mut c = [-1; 2];
        for s in 0..2 {
            let fd = sys::socket(if l.inet { 2 } else { 1 }, 1 | sys::O_CLOEXEC, 0);
            if fd < 0 {
                return Err(format!("client socket {fd}"));
            }
            let r = sys::connect(fd as i32, &l.addr[s]);
            if r < 0 {
                return Err(format!("client connect {r}"));
            }
            if l.inet {
                sys::setsockopt_int(fd as i32, 6, 1, 1);
            }
            c[s] = fd as i32;
        }
        Ok(c)
    }

    /// number of connections waiting on the listener per side (by trying a non-blocking poll)
    pub fn listener_pending(&self, li: usize) -> [bool; 2] {
        let t = &self.fds[self.listeners[li].tfd];
        [sys::poll1(t.fd[0], 1, 0).1 & 1 != 0, sys::poll1(t.fd[1], 1, 0).1 & 1 != 0]
    }

    /// accept and close everything pending on a listener (keeps the twins in the same state)
    pub fn drain_listener(&self, li: usize) {
        let t = &self.fds[self.listeners[li].tfd];
        for s in 0..2 {
            while sys::poll1(t.fd[s], 1, 0).1 & 1 != 0 {
                let a = sys::accept4(t.fd[s], std::ptr::null_mut(), std::ptr::null_mut(), 0);
                if a < 0 {
                    break;
                }
                sys::close(a as i32);
            }
        }
    }

    /// what a descriptor designates, with the side prefix removed: link target (unnamed files without their
    /// inode number), file type and permission bits, "no name left" (nlink == 0), status and descriptor flags
    pub fn identity(&self, fd: i32) -> String {
        let link = std::fs::read_link(format!("/proc/self/fd/{fd}"))
            .map(|p| p.to_string_lossy().to_string())
            .unwrap_or_else(|_| "?".into());
        let mut l = link.clone();
        for s in 0..2 {
            if let Some(rest) = link.strip_prefix(&self.dir[s]) {
                l = format!("<side>{rest}");
            }
        }
        // O_TMPFILE files show as ".../#<inode> (deleted)"
        if let Some(p) = l.find("/#") {
            let digits: String = l[p + 2..].chars().take_while(char::is_ascii_digit).collect();
            if !digits.is_empty() {
                l = format!("{}/#<ino>{}", &l[..p], &l[p + 2 + digits.len()..]);
            }
        }
        let fl = sys::fcntl(fd, 3, 0);
        let fdfl = sys::fcntl(fd, 1, 0);
        let mut stx = [0u64; 32];
        let r = sys::statx(i64::from(fd), b"\0", 0x1000, 0x7ff, stx.as_mut_ptr().cast());
        let (mode, nlink) = if r == 0 {
            let b = unsafe { core::slice::from_raw_parts(stx.as_ptr().cast::<u8>(), 256) };
            (u32::from(u16::from_ne_bytes([b[28], b[29]])), u32::from_ne_bytes([b[16], b[17], b[18], b[19]]))
        } else {
            (0, 0)
        };
        let st = format!("mode={mode:o} unnamed={}", nlink == 0);
        if l.starts_with("socket:") {
            let d = sys::getsockopt_int(fd, 1, 39);
            let t = sys::getsockopt_int(fd, 1, 3);
            let p = sys::getsockopt_int(fd, 1, 38);
            let acc = sys::getsockopt_int(fd, 1, 30);
            format!("socket dom={d} type={t} proto={p} listening={acc} {st} fl={fl:o} fdfl={fdfl}")
        } else {
            format!("{l} {st} fl={fl:o} fdfl={fdfl}")
        }
    }

    pub fn snapshot(&self, side: usize) -> BTreeMap<String, Node> {
        let mut out = BTreeMap::new();
        fn walk(base: &str, rel: &str, out: &mut BTreeMap<String, Node>) {
            use std::os::unix::fs::{FileTypeExt, MetadataExt};
            let p = if rel.is_empty() { base.to_string() } else { format!("{base}/{rel}") };
            let Ok(rd) = std::fs::read_dir(&p) else { return };
            for e in rd.flatten() {
                let name = e.file_name().to_string_lossy().to_string();
                let r = if rel.is_empty() { name.clone() } else { format!("{rel}/{name}") };
                let Ok(m) = std::fs::symlink_metadata(e.path()) else { continue };
                let ft = m.file_type();
                let ty = if ft.is_dir() {
                    "dir"
                } else if ft.is_file() {
                    "file"
                } else if ft.is_socket() {
                    "sock"
                } else if ft.is_symlink() {
                    "link"
                } else {
                    "other"
                };
                let content = if ft.is_file() { std::fs::read(e.path()).unwrap_or_default() } else { Vec::new() };
                out.insert(
                    r.clone(),
                    Node {
                        ty,
                        perm: m.mode() & 0o7777,
                        nlink: m.nlink(),
                        size: if ft.is_file() { m.size() } else { 0 },
                        content,
                    },
                );
                if ft.is_dir() {
                    walk(base, &r, out);
                }
            }
        }
        walk(&self.dir[side], "", &mut out);
        out
    }

    /// first difference between the two trees, if any
    pub fn tree_diff(&self) -> Option<String> {
        let a = self.snapshot(0);
        let b = self.snapshot(1);
        for (k, va) in &a {
            match b.get(k) {
                None => return Some(format!("{k}: present on the io_uring side ({}), absent on the direct side", va.ty)),
                Some(vb) if va != vb => {
                    return Some(format!(
                        "{k}: io_uring side {{{} perm {:o} nlink {} size {}}} direct side {{{} perm {:o} nlink {} size {}}} content_equal={}",
                        va.ty,
                        va.perm,
                        va.nlink,
                        va.size,
                        vb.ty,
                        vb.perm,
                        vb.nlink,
                        vb.size,
                        va.content == vb.content
                    ))
                }
                _ => {}
            }
        }
        for (k, vb) in &b {
            if !a.contains_key(k) {
                return Some(format!("{k}: absent on the io_uring side, present on the direct side ({})", vb.ty));
            }
        }
        None
    }

    /// socket state of a twin descriptor on both sides: (pending bytes, poll revents)
    pub fn sock_state(&self, idx: usize) -> [(i64, i16); 2] {
        let t = &self.fds[idx];
        let f = |s: usize| (sys::fionread(t.fd[s]), sys::poll1(t.fd[s], 0x1 | 0x4 | 0x2000, 0).1);
        [f(0), f(1)]
    }

    /// socket state equal on both sides, waiting a little for asynchronous release of a closed peer
    /// (a descriptor closed through the ring is released by the kernel after the completion is posted)
    pub fn sock_state_settled(&self, idx: usize) -> bool {
        for _ in 0..100 {
            let s = self.sock_state(idx);
            if s[0] == s[1] {
                return true;
            }
            std::thread::sleep(std::time::Duration::from_millis(2));
        }
        false
    }

    /// throw away all mutable state and rebuild it (after a mismatch the twins may have diverged)
    pub fn reset(&mut self, r: &mut Rng) -> Result<(), String> {
        for i in 0..self.fds.len() {
            if self.fds[i].alive && !self.fds[i].permanent {
                self.close_direct(i);
            }
        }
        for li in 0..self.listeners.len() {
            self.drain_listener(li);
        }
        self.populate(r)
    }

    pub fn alive_count(&self) -> usize {
        self.fds.iter().filter(|t| t.alive).count()
    }
}

impl Drop for World {
    fn drop(&mut self) {
        let _ = std::env::set_current_dir("/");
        for t in &self.fds {
            if t.alive {
                for s in 0..2 {
                    sys::close(t.fd[s]);
                }
            }
        }
        for s in 0..2 {
            sys::close(self.dirfd[s]);
        }
        let _ = std::fs::remove_dir_all(&self.root);
    }
}
