//! C08 very large sizes (no_std, shared by `h_mem` and `mem_probe`; x86_64 only).
//!
//! n around every power of two from 1 MiB to 64 MiB (plus / minus 0..32, chosen so that every
//! start misalignment 0..15 and every end alignment 0..15 occurs) and a seeded sample of odd sizes
//! in between: implementations switch strategy at size thresholds we do not know (non-temporal
//! stores, vector loops, ...). The host maps the arenas once.
//!
//! The references are `rep movsb` / `rep stosb` (inline asm: independent of the functions under
//! test and fast enough for hundreds of calls of tens of MiB); checks are full-length:
//!   memset   every destination byte == (unsigned char)c, 128-byte canaries on both sides that
//!            differ from the fill byte in every position, return pointer;
//!   memcpy / memmove (separate buffers)   destination pre-filled with junk, afterwards equal to the
//!            source range, canaries, source sampled, return pointer;
//!   memmove (overlapping, small and n/2 distances, both directions)   region restored from a
//!            pristine copy, destination == pristine source bytes, 128 bytes around untouched;
//!   memcmp / bcmp   second operand made equal by the reference copy, first difference placed in
//!            the last 40 bytes (or at 0, or none), bytes after it ordered the other way round.
#![allow(clippy::missing_safety_doc, dead_code)]
use crate::sweep::*;
use core::arch::asm;
use core::ptr::{read_volatile as rv, write_volatile as wv};

pub const MARGIN: usize = 512;
pub const CANARY: usize = 128;
pub const P_MIN: u32 = 20;
pub const P_MAX: u32 = 26;

#[inline(never)]
pub unsafe fn ref_copy(d: *mut u8, s: *const u8, n: usize) {
    // cld: a routine under test that returned with the direction flag set must not turn the reference around
    asm!("cld", "rep movsb", inout("rcx") n => _, inout("rdi") d => _, inout("rsi") s => _, options(nostack));
}
#[inline(never)]
pub unsafe fn ref_fill(d: *mut u8, c: u8, n: usize) {
    asm!("cld", "rep stosb", inout("rcx") n => _, inout("rdi") d => _, in("al") c, options(nostack));
}

/// position pattern, one multiplication per 8 bytes
#[inline(always)]
fn pword(salt: u64, k: usize) -> u64 {
    ((k as u64).wrapping_add(salt)).wrapping_mul(0x9E37_79B9_7F4A_7C15) ^ salt.rotate_left(17)
}
#[inline(always)]
pub fn pbyte(salt: u64, i: usize) -> u8 {
    (pword(salt, i / 8) >> (8 * (i % 8))) as u8
}
pub unsafe fn pfill(p: *mut u8, len: usize, salt: u64) {
    let w = p.cast::<u64>();
    let mut k = 0;
    while k < len / 8 {
        wv(w.add(k), pword(salt, k));
        k += 1;
    }
}
pub const SALT_P: u64 = 0x1111_2222_3333_4444;
pub const SALT_S: u64 = 0xABCD_EF01_2345_6789;

/// arenas: d = destination / scratch, s = source (pattern SALT_S), p = pristine (pattern SALT_P),
/// all `cap` bytes, page aligned
#[derive(Clone, Copy)]
pub struct Arenas {
    pub d: *mut u8,
    pub s: *mut u8,
    pub p: *mut u8,
    pub cap: usize,
}
impl Arenas {
    pub unsafe fn init(&self) {
        pfill(self.p, self.cap, SALT_P);
        pfill(self.d, self.cap, SALT_P);
        pfill(self.s, self.cap, SALT_S);
    }
    /// largest n that fits
    pub fn max_n(&self) -> usize {
        self.cap - 2 * MARGIN - 128
    }
}

pub const N_HCELL: usize = 5 * 8 * 2 * 3;

pub struct HCtx {
    pub ops: Ops,
    pub out: fn(&[u8]),
    pub via: &'static str,
    pub check_ret: bool,
    pub ar: Arenas,
    pub cases: [u64; 5],
    pub bytes: u64,
    pub viols: u64,
    pub per_kind: [[u32; 5]; 5],
    pub cells: [u8; N_HCELL],
    pub samples: u32,
    pub rng: u64,
}

impl HCtx {
    pub fn new(ops: Ops, out: fn(&[u8]), via: &'static str, ar: Arenas, seed: u64) -> HCtx {
        HCtx {
            ops,
            out,
            via,
            check_ret: true,
            ar,
            cases: [0; 5],
            bytes: 0,
            viols: 0,
            per_kind: [[0; 5]; 5],
            cells: [0; N_HCELL],
            samples: 0,
            rng: seed | 1,
        }
    }
    fn next(&mut self) -> u64 {
        self.rng ^= self.rng << 13;
        self.rng ^= self.rng >> 7;
        self.rng ^= self.rng << 17;
        self.rng
    }
    fn viol(&mut self, kind: u8, c: &Case, at: i64, got: i64, want: i64) {
        self.viols += 1;
        let k = &mut self.per_kind[c.f as usize][kind as usize];
        *k += 1;
        if *k > 3 {
            return;
        }
        let mut w = W::new();
        w.s("@@VIOL C08/").s(FN_NAMES[c.f as usize]).s("/").s(KIND_NAMES[kind as usize]).s(" {\"case\":");
        w.case_json(c).s("},\"via\":\"").s(self.via).s("\",\"offset_from_dst\":").i(at);
        w.s(",\"offset_from_end\":").i(at - c.n as i64);
        w.s(",\"got\":").i(got).s(",\"want\":").i(want).s("}\n");
        (self.out)(w.bytes());
    }
    fn done(&mut self, c: &Case, start: usize, ok: bool) {
        self.cases[c.f as usize] += 1;
        self.bytes += c.n as u64;
        let mut p = 0;
        while (1usize << (p + 1)) <= c.n + 64 && p < 30 {
            p += 1;
        }
        let pc = if p < P_MIN as usize { 0 } else { (p - P_MIN as usize).min(7) };
        let end = (start + c.n) & 15;
        let ec = if end == 0 {
            0
        } else if end == 8 {
            1
        } else {
            2
        };
        self.cells[((c.f as usize * 8 + pc) * 2 + usize::from(start & 15 != 0)) * 3 + ec] = 1;
        if ok && self.samples < 2 && c.dmis != 0 && self.next() % 5 == 0 {
            self.samples += 1;
            let mut w = W::new();
            w.s("@@SAMPLE {\"case\":");
            w.case_json(c).s("},\"via\":\"").s(self.via).s("\",\"outcome\":\"matches reference over the full length, canaries intact\"}\n");
            (self.out)(w.bytes());
        }
    }

    /// canary byte at arena offset i: the pristine pattern, bent away from the fill byte
    #[inline(always)]
    fn canary(i: usize, avoid: i32) -> u8 {
        let b = pbyte(SALT_P, i);
        if avoid >= 0 && b == avoid as u8 {
            !b
        } else {
            b
        }
    }
    unsafe fn write_canaries(&self, off: usize, n: usize, avoid: i32) {
        let mut i = off - CANARY;
        while i < off {
            wv(self.ar.d.add(i), Self::canary(i, avoid));
            i += 1;
        }
        let mut i = off + n;
        while i < off + n + CANARY {
            wv(self.ar.d.add(i), Self::canary(i, avoid));
            i += 1;
        }
    }
    /// first damaged canary byte as offset relative to dst, or None
    unsafe fn check_canaries(&self, off: usize, n: usize, avoid: i32) -> Option<(i64, u8, u8)> {
        let mut i = off - CANARY;
        while i < off {
            let g = rv(self.ar.d.add(i));
            if g != Self::canary(i, avoid) {
                return Some((i as i64 - off as i64, g, Self::canary(i, avoid)));
            }
            i += 1;
        }
        let mut i = off + n;
        while i < off + n + CANARY {
            let g = rv(self.ar.d.add(i));
            if g != Self::canary(i, avoid) {
                return Some((i as i64 - off as i64, g, Self::canary(i, avoid)));
            }
            i += 1;
        }
        None
    }
    /// first index where a[i] != b[i] (any alignment), or n
    unsafe fn first_diff(a: *const u8, b: *const u8, n: usize) -> usize {
        let mut i = 0;
        while i + 8 <= n {
            if a.add(i).cast::<u64>().read_unaligned() != b.add(i).cast::<u64>().read_unaligned() {
                break;
            }
            i += 8;
        }
        while i < n && rv(a.add(i)) == rv(b.add(i)) {
            i += 1;
        }
        i
    }

    pub unsafe fn one_set(&mut self, n: usize, mis: usize, cint: i32) {
        let off = MARGIN + mis;
        let d = self.ar.d.add(off);
        let byte = cint as u8;
        let c = Case {
            f: F_MEMSET,
            n,
            dmis: d as usize & 15,
            aux: i64::from(cint),
            ..Case::ZERO
        };
        // the interior still holds the previous call's fill byte: make it differ from this one's
        self.write_canaries(off, n, i32::from(byte));
        enter(&c);
        let r = (self.ops.memset)(d, cint, n);
        leave();
        let mut ok = true;
        if self.check_ret && r != d {
            self.viol(K_RETURN, &c, 0, r as i64 - d as i64, 0);
            ok = false;
        }
        if let Some((at, g, w)) = self.check_canaries(off, n, i32::from(byte)) {
            self.viol(K_OUTSIDE, &c, at, i64::from(g), i64::from(w));
            ok = false;
        }
        // every destination byte
        let bc = u64::from(byte) * 0x0101_0101_0101_0101;
        let mut i = 0;
        let mut bad = n;
        while i < n && (d as usize + i) & 7 != 0 {
            if rv(d.add(i)) != byte {
                bad = i;
                break;
            }
            i += 1;
        }
        if bad == n {
            while i + 8 <= n {
                if rv(d.add(i).cast::<u64>()) != bc {
                    break;
                }
                i += 8;
            }
            while i < n {
                if rv(d.add(i)) != byte {
                    bad = i;
                    break;
                }
                i += 1;
            }
        }
        if bad != n {
            self.viol(K_WRONG_BYTES, &c, bad as i64, i64::from(rv(d.add(bad))), i64::from(byte));
            ok = false;
        }
        self.done(&c, d as usize, ok);
    }

    /// memcpy / memmove from the source arena into the destination arena
    pub unsafe fn one_copy(&mut self, f: u8, n: usize, dmis: usize, smis: usize) {
        let (doff, soff) = (MARGIN + dmis, MARGIN + smis);
        let (d, s) = (self.ar.d.add(doff), self.ar.s.add(soff));
        let c = Case {
            f,
            n,
            dmis: d as usize & 15,
            smis: s as usize & 15,
            ..Case::ZERO
        };
        let junk = (self.next() >> 11) as u8;
        ref_fill(d, junk, n);
        self.write_canaries(doff, n, -1);
        let fun = if f == F_MEMCPY { self.ops.memcpy } else { self.ops.memmove };
        enter(&c);
        let r = fun(d, s, n);
        leave();
        let mut ok = true;
        if self.check_ret && r != d {
            self.viol(K_RETURN, &c, 0, r as i64 - d as i64, 0);
            ok = false;
        }
        if let Some((at, g, w)) = self.check_canaries(doff, n, -1) {
            self.viol(K_OUTSIDE, &c, at, i64::from(g), i64::from(w));
            ok = false;
        }
        let at = Self::first_diff(d, s, n);
        if at != n {
            self.viol(K_WRONG_BYTES, &c, at as i64, i64::from(rv(d.add(at))), i64::from(rv(s.add(at))));
            ok = false;
        }
        // source: margins and a sparse sample still carry the pattern
        let mut i = 0;
        while i < soff + n + CANARY {
            if rv(self.ar.s.add(i)) != pbyte(SALT_S, i) {
                self.viol(K_SOURCE, &c, i as i64 - soff as i64, i64::from(rv(self.ar.s.add(i))), i64::from(pbyte(SALT_S, i)));
                pfill(self.ar.s, self.ar.cap, SALT_S);
                ok = false;
                break;
            }
            i += if i < soff + 64 || i + 4200 > soff + n { 1 } else { 4099 };
        }
        self.done(&c, d as usize, ok);
    }

    /// overlapping memmove inside the destination arena: dst = src + dist
    pub unsafe fn one_move(&mut self, n: usize, smis: usize, dist: isize) {
        let room = dist.unsigned_abs();
        let soff = MARGIN + smis + if dist < 0 { room } else { 0 };
        let doff = (soff as isize + dist) as usize;
        let lo = soff.min(doff) - CANARY;
        let hi = soff.max(doff) + n + CANARY;
        let (d, s) = (self.ar.d.add(doff), self.ar.d.add(soff).cast_const());
        let c = Case {
            f: F_MEMMOVE,
            n,
            dmis: d as usize & 15,
            smis: s as usize & 15,
            dist,
            ..Case::ZERO
        };
        ref_copy(self.ar.d.add(lo), self.ar.p.add(lo), hi - lo);
        enter(&c);
        let r = (self.ops.memmove)(d, s, n);
        leave();
        let mut ok = true;
        if self.check_ret && r != d {
            self.viol(K_RETURN, &c, 0, r as i64 - d as i64, 0);
            ok = false;
        }
        let at = Self::first_diff(d, self.ar.p.add(soff), n);
        if at != n {
            self.viol(K_WRONG_BYTES, &c, at as i64, i64::from(rv(d.add(at))), i64::from(rv(self.ar.p.add(soff + at))));
            ok = false;
        }
        // everything in the region that is not destination is untouched (the part of the source
        // that the destination does not cover, and the canaries)
        for (from, to) in [(lo, doff), (doff + n, hi)] {
            let len = to - from;
            let at = Self::first_diff(self.ar.d.add(from), self.ar.p.add(from), len);
            if at != len {
                let i = from + at;
                self.viol(K_OUTSIDE, &c, i as i64 - doff as i64, i64::from(rv(self.ar.d.add(i))), i64::from(rv(self.ar.p.add(i))));
                ok = false;
            }
        }
        self.done(&c, d as usize, ok);
    }

    /// memcmp / bcmp: a in the pristine arena, b in the destination arena made equal by the reference copy
    pub unsafe fn one_cmp(&mut self, f: u8, n: usize, amis: usize, bmis: usize, p: usize, gt: bool) {
        let (a, b) = (self.ar.p.add(MARGIN + amis).cast_const(), self.ar.d.add(MARGIN + bmis));
        ref_copy(b, a, n);
        let mut var = 0u8;
        if p < n {
            let av = rv(a.add(p));
            let gt = if av == 0 {
                false
            } else if av == 0xff {
                true
            } else {
                gt
            };
            wv(b.add(p), if gt { av - 1 - (av - 1) / 2 } else { av + 1 + (0xfe - av) / 2 });
            var = if gt { 2 } else { 1 };
            let mut q = p + 1;
            while q < n {
                // the other way round after the first difference (equal where that is impossible)
                let aq = rv(a.add(q));
                wv(b.add(q), if gt { if aq == 0xff { aq } else { 0xff } } else if aq == 0 { aq } else { 0 });
                q += 1;
            }
        }
        let c = Case {
            f,
            n,
            dmis: a as usize & 15,
            smis: b as usize & 15,
            aux: if p < n { p as i64 } else { -1 },
            var,
            ..Case::ZERO
        };
        let fun = if f == F_MEMCMP { self.ops.memcmp } else { self.ops.bcmp };
        enter(&c);
        let r = fun(a, b, n);
        leave();
        let good = match (f, var) {
            (_, 0) => r == 0,
            (F_MEMCMP, 1) => r < 0,
            (F_MEMCMP, _) => r > 0,
            (_, _) => r != 0,
        };
        if !good {
            self.viol(K_SIGN, &c, p as i64, i64::from(r), [0, -1, 1][var as usize]);
        }
        self.done(&c, a as usize, good);
    }

    /// `calls` cases per function around 2^p (and, unless `p` is the top power, a fifth as many odd
    /// sizes between 2^p and 2^(p+1)); `only_fn` = 255 for all five functions
    pub unsafe fn sweep_power(&mut self, p: u32, calls: usize, only_fn: u8, progress: fn(u8, usize)) {
        let pw = 1usize << p;
        let max_n = self.ar.max_n();
        let between = if max_n >= 2 * pw - 64 { calls / 5 } else { 0 };
        for j in 0..calls + between {
            let r = self.next();
            let mis = j % 16;
            let n = if j < calls {
                // end alignment class cycles independently of the start misalignment
                let e = (j * 7 + j / 16) % 16;
                let d0 = (e + 32 * 16 - mis - pw % 16) % 16; // (mis + pw + d) % 16 == e
                let cands = [d0 as isize - 32, d0 as isize - 16, d0 as isize, d0 as isize + 16];
                (pw as isize + cands[(r % 4) as usize]) as usize
            } else {
                pw + 1 + (r >> 8) as usize % (pw - 1)
            };
            let n = n.min(max_n);
            let r2 = self.next();
            let smis = (r2 % 16) as usize;
            for f in 0..5u8 {
                if only_fn != 255 && only_fn != f {
                    continue;
                }
                progress(f, n);
                match f {
                    F_MEMSET => {
                        const FILLS: [i32; 6] = [0, 0xff, 0x80, 0x5a, 0x7f, 1];
                        let c = FILLS[j % 6] | if j % 3 == 0 { 0x4200 } else { 0 };
                        self.one_set(n, mis, c);
                    }
                    F_MEMCPY => self.one_copy(F_MEMCPY, n, mis, smis),
                    F_MEMMOVE => {
                        if j % 3 == 0 {
                            self.one_copy(F_MEMMOVE, n, mis, smis);
                        } else {
                            const DISTS: [isize; 10] = [1, -1, 7, -8, 9, -16, 33, -63, 64, -4097];
                            let dist = if j % 3 == 1 {
                                DISTS[(r2 >> 8) as usize % 10]
                            } else {
                                let h = (n / 2) as isize - (r2 >> 8) as isize % 17;
                                if r2 & 1 == 0 {
                                    h
                                } else {
                                    -h
                                }
                            };
                            // room: src and dst both inside the arena
                            let n2 = n.min(max_n - dist.unsigned_abs().min(max_n / 2));
                            let dist = if dist.unsigned_abs() >= n2 { dist.signum() } else { dist };
                            self.one_move(n2, mis, dist);
                        }
                    }
                    _ => {
                        let p = match j % 4 {
                            0 => n,
                            1 => 0,
                            _ => n - 1 - (r2 >> 16) as usize % 40,
                        };
                        self.one_cmp(f, n, mis, smis, p, r2 & 2 != 0);
                    }
                }
            }
        }
    }
}

pub fn hcell_name(id: usize, w: &mut W) {
    let ec = id % 3;
    let st = (id / 3) % 2;
    let pc = (id / 6) % 8;
    let f = id / 48;
    w.s(FN_NAMES[f]).s("/2^").u((P_MIN as usize + pc) as u64).s(["/start-16-aligned", "/start-misaligned"][st]);
    w.s(["/end%16=0", "/end%16=8", "/end-other"][ec]);
}
