//! C08 case engine, `no_std`-compatible (only `core`): shared by the std harness `h_mem`
//! (layer 1: calls `tiny_start::symbols::mem::*`) and by the no-libc `mem_probe` (layer 2:
//! reaches the *linked* symbols through `core::ptr::copy*`, `write_bytes`, slice compares and
//! direct `extern "C"` calls).
//!
//! Everything the oracle itself does to memory goes through volatile loads/stores, so the
//! compiler cannot turn the reference into a call to the very functions under test and a broken
//! function cannot damage the bookkeeping. No allocation, no `core::fmt`.
#![allow(clippy::missing_safety_doc, dead_code)]
use core::ptr::{addr_of, addr_of_mut, read_volatile as rv, write_volatile as wv};

pub type Cpy = unsafe extern "C" fn(*mut u8, *const u8, usize) -> *mut u8;
pub type Set = unsafe extern "C" fn(*mut u8, i32, usize) -> *mut u8;
pub type Cmp = unsafe extern "C" fn(*const u8, *const u8, usize) -> i32;

#[derive(Clone, Copy)]
pub struct Ops {
    pub memcpy: Cpy,
    pub memmove: Cpy,
    pub memset: Set,
    pub memcmp: Cmp,
    pub bcmp: Cmp,
}

/// mirrors the private constants of tiny-start/src/symbols/mem.rs
pub const WORD: usize = core::mem::size_of::<usize>();
pub const THRESHOLD: usize = if 2 * WORD > 16 { 2 * WORD } else { 16 };
/// exhaustive small-n domain: 0..=2*threshold+word
pub const NMAX: usize = 2 * THRESHOLD + WORD;

pub const F_MEMCPY: u8 = 0;
pub const F_MEMMOVE: u8 = 1;
pub const F_MEMSET: u8 = 2;
pub const F_MEMCMP: u8 = 3;
pub const F_BCMP: u8 = 4;
pub const FN_NAMES: [&str; 5] = ["memcpy", "memmove", "memset", "memcmp", "bcmp"];

pub const K_WRONG_BYTES: u8 = 0;
pub const K_OUTSIDE: u8 = 1;
pub const K_RETURN: u8 = 2;
pub const K_SOURCE: u8 = 3;
pub const K_SIGN: u8 = 4;
pub const KIND_NAMES: [&str; 5] = [
    "wrong-bytes",
    "write-outside-destination",
    "wrong-return-pointer",
    "source-modified",
    "wrong-result",
];

/// offset of the "misalignment 0" position inside an arena; red zones of at least 32 bytes
/// remain on both sides for every small case (checked by content, whole arena compared)
pub const OFF: usize = 128;
pub const SMALL: usize = 448;

#[derive(Clone, Copy)]
pub struct Case {
    pub f: u8,
    pub n: usize,
    pub dmis: usize,
    pub smis: usize,
    /// memmove/memcpy in one arena: dst - src; otherwise 0
    pub dist: isize,
    /// memset: the int passed; cmp: position of first difference (-1 = equal)
    pub aux: i64,
    /// cmp: 0 equal, 1 a<b, 2 a>b
    pub var: u8,
    /// 0 inside arena with red zones, 1 end at guard page, 2 start at guard page
    pub place: u8,
    /// placement cross product (place.rs): placement code of operand 1 / operand 2, -1 = not used
    pub pl1: i8,
    pub pl2: i8,
}
impl Case {
    pub const ZERO: Case = Case {
        f: 0,
        n: 0,
        dmis: 0,
        smis: 0,
        dist: 0,
        aux: 0,
        var: 0,
        place: 0,
        pl1: -1,
        pl2: -1,
    };
}

/// what is executing right now, for a fault handler / post-mortem (volatile access only)
pub static mut CURRENT: Case = Case::ZERO;
pub static mut IN_CALL: bool = false;

#[inline(always)]
pub unsafe fn enter(c: &Case) {
    wv(addr_of_mut!(CURRENT), *c);
    wv(addr_of_mut!(IN_CALL), true);
}
#[inline(always)]
pub unsafe fn leave() {
    wv(addr_of_mut!(IN_CALL), false);
}
pub fn current() -> (Case, bool) {
    unsafe { (rv(addr_of!(CURRENT)), rv(addr_of!(IN_CALL))) }
}

// ------------------------------------------------------------------ tiny writer
pub struct W {
    b: [u8; 1024],
    n: usize,
}
impl W {
    pub const fn new() -> Self {
        W { b: [0; 1024], n: 0 }
    }
    #[inline]
    pub fn c(&mut self, c: u8) -> &mut Self {
        if self.n < 1024 {
            unsafe { wv(self.b.as_mut_ptr().add(self.n), c) };
            self.n += 1;
        }
        self
    }
    pub fn s(&mut self, s: &str) -> &mut Self {
        let p = s.as_ptr();
        let mut i = 0;
        while i < s.len() {
            let ch = unsafe { rv(p.add(i)) };
            self.c(ch);
            i += 1;
        }
        self
    }
    pub fn u(&mut self, mut v: u64) -> &mut Self {
        let mut tmp = [0u8; 20];
        let mut k = 0;
        loop {
            unsafe { wv(tmp.as_mut_ptr().add(k), b'0' + (v % 10) as u8) };
            k += 1;
            v /= 10;
            if v == 0 {
                break;
            }
        }
        while k > 0 {
            k -= 1;
            let ch = unsafe { rv(tmp.as_ptr().add(k)) };
            self.c(ch);
        }
        self
    }
    pub fn i(&mut self, v: i64) -> &mut Self {
        if v < 0 {
            self.c(b'-');
            self.u(v.unsigned_abs())
        } else {
            self.u(v as u64)
        }
    }
    pub fn case_json(&mut self, c: &Case) -> &mut Self {
        self.s("{\"fn\":\"").s(FN_NAMES[c.f as usize]).s("\",\"n\":").u(c.n as u64);
        self.s(",\"dst_mis\":").u(c.dmis as u64);
        if c.f != F_MEMSET {
            self.s(",\"src_mis\":").u(c.smis as u64);
        }
        if (c.f == F_MEMMOVE || c.f == F_MEMCPY) && c.place == 0 && c.pl1 < 0 {
            if c.dist != 0 {
                self.s(",\"buffers\":\"one\",\"dst_minus_src\":").i(c.dist as i64);
            } else {
                self.s(",\"buffers\":\"separate\"");
            }
        } else if c.dist != 0 {
            self.s(",\"dst_minus_src\":").i(c.dist as i64);
        }
        if c.f == F_MEMSET {
            self.s(",\"c\":").i(c.aux);
        }
        if c.f == F_MEMCMP || c.f == F_BCMP {
            self.s(",\"first_diff\":").i(c.aux).s(",\"relation\":\"");
            self.s(["equal", "a<b", "a>b"][c.var as usize]).s("\"");
        }
        if c.pl1 >= 0 {
            let names = if c.f == F_MEMCMP || c.f == F_BCMP { ["s1", "s2"] } else { ["dst", "src"] };
            self.s(",\"").s(names[0]).s("\":\"");
            pl_describe(c.pl1 as u8, self);
            if c.pl2 >= 0 {
                self.s("\",\"").s(names[1]).s("\":\"");
                pl_describe(c.pl2 as u8, self);
            }
            return self.s("\"");
        }
        self.s(",\"placement\":\"");
        self.s(["red-zones", "ends-at-guard-page", "starts-at-guard-page"][c.place as usize]);
        self.s("\"")
    }
    pub fn bytes(&self) -> &[u8] {
        &self.b[..self.n]
    }
}

/// placement codes of place.rs: 0..8 = ends k bytes before an inaccessible page, 8..16 = starts
/// k bytes after one, 16..32 = interior with misalignment m
pub fn pl_describe(pl: u8, w: &mut W) {
    if pl < 8 {
        w.s("ends ").u(u64::from(pl)).s(" bytes before an inaccessible page");
    } else if pl < 16 {
        w.s("starts ").u(u64::from(pl - 8)).s(" bytes after an inaccessible page");
    } else {
        w.s("interior, address % 16 = ").u(u64::from(pl - 16));
    }
}

// ------------------------------------------------------------------ volatile helpers
#[inline]
pub unsafe fn vcopy_b(d: *mut u8, s: *const u8, n: usize) {
    let mut i = 0;
    while i < n {
        wv(d.add(i), rv(s.add(i)));
        i += 1;
    }
}
/// word copy; both 8-aligned, len % 8 == 0
#[inline]
pub unsafe fn vcopy_w(d: *mut u8, s: *const u8, len: usize) {
    let (d, s) = (d.cast::<u64>(), s.cast::<u64>());
    let mut i = 0;
    while i < len / 8 {
        wv(d.add(i), rv(s.add(i)));
        i += 1;
    }
}
/// first differing byte index or usize::MAX; both 8-aligned, len % 8 == 0
#[inline]
pub unsafe fn vdiff(a: *const u8, b: *const u8, len: usize) -> usize {
    let (aw, bw) = (a.cast::<u64>(), b.cast::<u64>());
    let mut i = 0;
    while i < len / 8 {
        if rv(aw.add(i)) != rv(bw.add(i)) {
            let mut j = i * 8;
            while rv(a.add(j)) == rv(b.add(j)) {
                j += 1;
            }
            return j;
        }
        i += 1;
    }
    usize::MAX
}
/// position-dependent byte patterns; `pat_s(i) != pat_d(i)` for every i
#[inline]
pub fn pat_s(i: usize) -> u8 {
    ((i as u32).wrapping_mul(37).wrapping_add(11) ^ ((i as u32) >> 8).wrapping_mul(101)) as u8
}
#[inline]
pub fn pat_d(i: usize) -> u8 {
    !pat_s(i)
}
pub unsafe fn vfill(p: *mut u8, len: usize, f: fn(usize) -> u8) {
    let mut i = 0;
    while i < len {
        wv(p.add(i), f(i));
        i += 1;
    }
}

#[repr(align(64))]
pub struct Arena(pub [u8; SMALL]);
pub static mut A_D: Arena = Arena([0; SMALL]);
pub static mut A_S: Arena = Arena([0; SMALL]);
pub static mut A_E: Arena = Arena([0; SMALL]);
pub static mut A_OD: Arena = Arena([0; SMALL]);
pub static mut A_OS: Arena = Arena([0; SMALL]);
pub static mut A_T: Arena = Arena([0; SMALL]);

/// six equally sized, 64-aligned buffers: destination, source, expected destination,
/// pristine destination pattern, pristine source pattern, scratch
#[derive(Clone, Copy)]
pub struct Bufs {
    pub d: *mut u8,
    pub s: *mut u8,
    pub e: *mut u8,
    pub od: *mut u8,
    pub os: *mut u8,
    pub t: *mut u8,
    pub cap: usize,
}
impl Bufs {
    pub unsafe fn small() -> Bufs {
        let b = Bufs {
            d: addr_of_mut!(A_D).cast(),
            s: addr_of_mut!(A_S).cast(),
            e: addr_of_mut!(A_E).cast(),
            od: addr_of_mut!(A_OD).cast(),
            os: addr_of_mut!(A_OS).cast(),
            t: addr_of_mut!(A_T).cast(),
            cap: SMALL,
        };
        b.init();
        b
    }
    pub unsafe fn init(&self) {
        vfill(self.od, self.cap, pat_d);
        vfill(self.os, self.cap, pat_s);
        vcopy_w(self.d, self.od, self.cap);
        vcopy_w(self.s, self.os, self.cap);
        vcopy_w(self.e, self.od, self.cap);
    }
}

pub const N_NCLASS: usize = 9;
pub const N_PATH: usize = 9;
pub const NCELL: usize = 5 * N_NCLASS * N_PATH * 2;

pub fn nclass(n: usize) -> usize {
    if n == 0 {
        0
    } else if n < WORD {
        1
    } else if n < THRESHOLD {
        2
    } else if n == THRESHOLD {
        3
    } else if n < 2 * THRESHOLD {
        4
    } else if n <= NMAX {
        5
    } else if n < 4096 {
        6
    } else if n <= 65536 {
        7
    } else {
        8
    }
}
pub const NCLASS_NAMES: [&str; 9] = [
    "n=0",
    "n<word",
    "word<=n<thr",
    "n=thr",
    "thr<n<2thr",
    "2thr<=n<=2thr+word",
    "n<4096",
    "n<=64K",
    "n<=1M",
];
pub const PATH_NAMES: [&str; 9] = [
    "bytes-only",
    "body-misaligned",
    "body-misaligned+tail",
    "head+body-misaligned",
    "head+body-misaligned+tail",
    "body-aligned",
    "body-aligned+tail",
    "head+body-aligned",
    "head+body-aligned+tail",
];
/// which of the head / word body (aligned or misaligned source) / tail parts of the word-wise
/// algorithm a case drives (computed from the addresses the way the algorithm partitions them)
pub fn path_of(dst: usize, src: usize, n: usize, backward: bool) -> usize {
    if n < THRESHOLD {
        return 0;
    }
    let head = if backward {
        (dst + n) & (WORD - 1)
    } else {
        dst.wrapping_neg() & (WORD - 1)
    };
    let src_al = if backward {
        (src + n - head) & (WORD - 1) == 0
    } else {
        (src + head) & (WORD - 1) == 0
    };
    let tail = (n - head) & (WORD - 1);
    1 + usize::from(tail != 0) + 2 * usize::from(head != 0) + 4 * usize::from(src_al)
}
pub fn cell_id(f: u8, n: usize, path: usize, dir: usize) -> usize {
    ((f as usize * N_NCLASS + nclass(n)) * N_PATH + path) * 2 + dir
}
pub fn cell_name(id: usize, w: &mut W) {
    let dir = id % 2;
    let path = (id / 2) % N_PATH;
    let nc = (id / 2 / N_PATH) % N_NCLASS;
    let f = id / 2 / N_PATH / N_NCLASS;
    w.s(FN_NAMES[f]).s("/").s(NCLASS_NAMES[nc]).s("/");
    if f as u8 == F_MEMCMP || f as u8 == F_BCMP {
        w.s(["equal", "diff-at-0", "diff-in-middle", "diff-at-last", "", "", "", "", ""][path]);
        w.s(["/lt-or-eq", "/gt"][dir]);
    } else {
        w.s(PATH_NAMES[path]).s(["/forward", "/backward"][dir]);
    }
}

pub struct Ctx {
    pub ops: Ops,
    pub out: fn(&[u8]),
    /// label of the route by which the symbol is reached ("tiny_start::symbols::mem", "core::ptr", "extern C")
    pub via: &'static str,
    pub cases: [u64; 5],
    pub viols: u64,
    pub per_kind: [[u32; 5]; 5],
    pub cells: [u8; NCELL],
    pub samples: [u32; 5],
    pub eligible: [u64; 5],
    pub sample_every: u64,
    /// the copy/set intrinsics have no return value: skip the return-pointer check
    pub check_ret: bool,
}
impl Ctx {
    pub fn new(ops: Ops, out: fn(&[u8]), via: &'static str) -> Ctx {
        Ctx {
            ops,
            out,
            via,
            cases: [0; 5],
            viols: 0,
            per_kind: [[0; 5]; 5],
            cells: [0; NCELL],
            samples: [0; 5],
            eligible: [0; 5],
            sample_every: 1_009,
            check_ret: true,
        }
    }
    pub fn viol(&mut self, kind: u8, c: &Case, at: i64, got: i64, want: i64) {
        self.viols += 1;
        let k = &mut self.per_kind[c.f as usize][kind as usize];
        *k += 1;
        if *k > 3 {
            return;
        }
        let mut w = W::new();
        w.s("@@VIOL C08/").s(FN_NAMES[c.f as usize]).s("/").s(KIND_NAMES[kind as usize]).s(" {\"case\":");
        w.case_json(c).s("}");
        w.s(",\"via\":\"").s(self.via).s("\",\"offset_from_dst\":").i(at);
        w.s(",\"got\":").i(got).s(",\"want\":").i(want).s("}\n");
        (self.out)(w.bytes());
    }
    fn done(&mut self, c: &Case, cell: usize, ok: bool) {
        self.cases[c.f as usize] += 1;
        self.cells[cell] = 1;
        // samples: non-trivial cases only (word-wise path, unaligned, first difference inside)
        if !(ok && c.n > THRESHOLD && c.dmis != 0 && (c.f == F_MEMSET || c.smis != c.dmis)) {
            return;
        }
        self.eligible[c.f as usize] += 1;
        let k = self.eligible[c.f as usize];
        if k % self.sample_every == self.sample_every / 3 && self.samples[c.f as usize] < 2 {
            self.samples[c.f as usize] += 1;
            let mut w = W::new();
            w.s("@@SAMPLE {\"case\":");
            w.case_json(c).s("},\"via\":\"").s(self.via).s("\",\"outcome\":\"matches reference\"}\n");
            (self.out)(w.bytes());
        }
    }

    /// after a copy/set: destination arena against expected, source arena against pristine
    unsafe fn judge(&mut self, b: &Bufs, len: usize, c: &Case, dst_off: usize, ret: *mut u8, src_arena: Option<*const u8>) -> bool {
        let mut ok = true;
        if self.check_ret && ret != b.d.add(dst_off) {
            self.viol(K_RETURN, c, 0, ret as i64 - b.d.add(dst_off) as i64, 0);
            ok = false;
        }
        let at = vdiff(b.d, b.e, len);
        if at != usize::MAX {
            let inside = at >= dst_off && at < dst_off + c.n;
            self.viol(
                if inside { K_WRONG_BYTES } else { K_OUTSIDE },
                c,
                at as i64 - dst_off as i64,
                i64::from(rv(b.d.add(at))),
                i64::from(rv(b.e.add(at))),
            );
            ok = false;
        }
        if let Some(sa) = src_arena {
            let at = vdiff(sa, b.os, len);
            if at != usize::MAX {
                self.viol(K_SOURCE, c, at as i64, i64::from(rv(sa.add(at))), i64::from(rv(b.os.add(at))));
                vcopy_w(sa.cast_mut(), b.os, len);
                ok = false;
            }
        }
        ok
    }

    /// memcpy or memmove between two arenas
    pub unsafe fn one_copy(&mut self, b: &Bufs, f: u8, n: usize, dmis: usize, smis: usize) {
        let len = (2 * OFF + 16 + n + 7) & !7;
        debug_assert!(len <= b.cap);
        let c = Case {
            f,
            n,
            dmis,
            smis,
            ..Case::ZERO
        };
        vcopy_w(b.d, b.od, len);
        vcopy_w(b.e, b.od, len);
        vcopy_b(b.e.add(OFF + dmis), b.os.add(OFF + smis), n);
        let fun = if f == F_MEMCPY { self.ops.memcpy } else { self.ops.memmove };
        let (dp, sp) = (b.d.add(OFF + dmis), b.s.add(OFF + smis));
        enter(&c);
        let r = fun(dp, sp, n);
        leave();
        let ok = self.judge(b, len, &c, OFF + dmis, r, Some(b.s));
        // forward unless the destination lies inside (src, src+n)
        let back = f == F_MEMMOVE && (dp as usize).wrapping_sub(sp as usize) < n;
        let cell = cell_id(f, n, path_of(dp as usize, sp as usize, n, back), usize::from(back));
        self.done(&c, cell, ok);
    }

    /// memmove (or memcpy for |dist| >= n) inside one arena: src = dst - dist
    pub unsafe fn one_move(&mut self, b: &Bufs, f: u8, n: usize, dmis: usize, dist: isize) {
        let room = n + 16 + dist.unsigned_abs();
        let base = (OFF + dist.unsigned_abs() + 7) & !7;
        let len = (base + room + OFF + 7) & !7;
        debug_assert!(len <= b.cap);
        let dst_off = base + dmis;
        let src_off = (dst_off as isize - dist) as usize;
        let c = Case {
            f,
            n,
            dmis: (b.d as usize + dst_off) & 15,
            smis: (b.d as usize + src_off) & 15,
            dist,
            ..Case::ZERO
        };
        vcopy_w(b.d, b.od, len);
        vcopy_w(b.e, b.od, len);
        vcopy_b(b.t, b.od.add(src_off), n);
        vcopy_b(b.e.add(dst_off), b.t, n);
        let fun = if f == F_MEMCPY { self.ops.memcpy } else { self.ops.memmove };
        let (dp, sp) = (b.d.add(dst_off), b.d.add(src_off).cast_const());
        enter(&c);
        let r = fun(dp, sp, n);
        leave();
        let ok = self.judge(b, len, &c, dst_off, r, None);
        let back = f == F_MEMMOVE && dist > 0 && (dist as usize) < n;
        let cell = cell_id(f, n, path_of(dp as usize, sp as usize, n, back), usize::from(back));
        self.done(&c, cell, ok);
    }

    pub unsafe fn one_set(&mut self, b: &Bufs, n: usize, dmis: usize, cint: i32) {
        let len = (2 * OFF + 16 + n + 7) & !7;
        debug_assert!(len <= b.cap);
        let c = Case {
            f: F_MEMSET,
            n,
            dmis,
            aux: i64::from(cint),
            ..Case::ZERO
        };
        vcopy_w(b.d, b.od, len);
        vcopy_w(b.e, b.od, len);
        let byte = cint as u8; // C: converted to unsigned char
        let mut i = 0;
        while i < n {
            wv(b.e.add(OFF + dmis + i), byte);
            i += 1;
        }
        let dp = b.d.add(OFF + dmis);
        enter(&c);
        let r = (self.ops.memset)(dp, cint, n);
        leave();
        let ok = self.judge(b, len, &c, OFF + dmis, r, None);
        let cell = cell_id(F_MEMSET, n, path_of(dp as usize, dp as usize, n, false), 0);
        self.done(&c, cell, ok);
    }

    /// memcmp / bcmp: equal prefix of length `p`, first difference at `p` (p == n: equal),
    /// bytes after `p` differ the other way round, bytes outside [0,n) differ too
    pub unsafe fn one_cmp(&mut self, b: &Bufs, f: u8, n: usize, amis: usize, bmis: usize, p: usize, gt: bool, pair: usize) {
        let (a, bb) = (b.d.add(OFF + amis), b.s.add(OFF + bmis));
        let len = (2 * OFF + 16 + n + 7) & !7;
        debug_assert!(len <= b.cap);
        // both arenas pristine (an earlier copy/set case leaves its result behind)
        vcopy_w(b.d, b.od, len);
        vcopy_w(b.s, b.os, len);
        // common content, then the crafted difference
        let mut i = 0;
        while i < n {
            let v = 0x20 + (pat_s(i + 3 * n) % 0xB0);
            wv(a.add(i), v);
            wv(bb.add(i), v);
            i += 1;
        }
        let var = if p >= n { 0 } else if gt { 2 } else { 1 };
        if p < n {
            const PAIRS: [(u8, u8); 4] = [(0x41, 0x42), (0x7f, 0x80), (0x00, 0xff), (0x01, 0x81)];
            let (lo, hi) = PAIRS[pair % 4];
            let (x, y) = if gt { (hi, lo) } else { (lo, hi) };
            wv(a.add(p), x);
            wv(bb.add(p), y);
            let mut q = p + 1;
            while q < n {
                // opposite relation after the first difference
                wv(a.add(q), if gt { 0x11 } else { 0xEE });
                wv(bb.add(q), if gt { 0xEE } else { 0x11 });
                q += 1;
            }
        }
        let c = Case {
            f,
            n,
            dmis: amis,
            smis: bmis,
            aux: if p < n { p as i64 } else { -1 },
            var,
            ..Case::ZERO
        };
        let fun = if f == F_MEMCMP { self.ops.memcmp } else { self.ops.bcmp };
        enter(&c);
        let r = fun(a, bb, n);
        leave();
        let mut ok = true;
        let good = match (f, var) {
            (_, 0) => r == 0,
            (F_MEMCMP, 1) => r < 0,
            (F_MEMCMP, _) => r > 0,
            (_, _) => r != 0, // bcmp: only zero / non-zero is specified
        };
        if !good {
            self.viol(K_SIGN, &c, p as i64, i64::from(r), [0, -1, 1][var as usize]);
            ok = false;
        }
        // restore the two ranges, then both arenas must be pristine (compares must not write)
        vcopy_b(a, b.od.add(OFF + amis), n);
        vcopy_b(bb, b.os.add(OFF + bmis), n);
        let at = vdiff(b.d, b.od, len);
        let at2 = vdiff(b.s, b.os, len);
        if at != usize::MAX || at2 != usize::MAX {
            self.viol(K_OUTSIDE, &c, if at != usize::MAX { at as i64 - (OFF + amis) as i64 } else { at2 as i64 - (OFF + bmis) as i64 }, 0, 0);
            vcopy_w(b.d, b.od, len);
            vcopy_w(b.s, b.os, len);
            ok = false;
        }
        let path = if p >= n {
            0
        } else if p == 0 {
            1
        } else if p == n - 1 {
            3
        } else {
            2
        };
        self.done(&c, cell_id(f, n, path, usize::from(gt && p < n)), ok);
    }

    // ------------------------------------------------------------------ exhaustive small-n domain
    /// progress callback gets (function id, n) before each n
    pub unsafe fn sweep_small(&mut self, b: &Bufs, shard: usize, nshards: usize, progress: fn(u8, usize)) {
        const FILLS: [i32; 5] = [0, 1, 0x7f, 0x80, 0xff];
        for f in [F_MEMCPY, F_MEMMOVE] {
            let mut n = shard;
            while n <= NMAX {
                progress(f, n);
                for dmis in 0..16 {
                    for smis in 0..16 {
                        self.one_copy(b, f, n, dmis, smis);
                    }
                    // one arena: every overlap distance for memmove, the legal (non-overlapping)
                    // distances for memcpy
                    let lim = (n + 8) as isize;
                    let mut d = -lim;
                    while d <= lim {
                        if f == F_MEMMOVE || d.unsigned_abs() >= n {
                            self.one_move(b, f, n, dmis, d);
                        }
                        d += 1;
                    }
                }
                n += nshards;
            }
        }
        let mut n = shard;
        while n <= NMAX {
            progress(F_MEMSET, n);
            for dmis in 0..16 {
                for c in FILLS {
                    self.one_set(b, n, dmis, c);
                    // the int argument is converted to unsigned char
                    self.one_set(b, n, dmis, c | 0x5A00);
                    self.one_set(b, n, dmis, c - 0x100);
                }
            }
            n += nshards;
        }
        for f in [F_MEMCMP, F_BCMP] {
            let mut n = shard;
            while n <= NMAX {
                progress(f, n);
                for amis in 0..16 {
                    for bmis in 0..16 {
                        self.one_cmp(b, f, n, amis, bmis, n, false, 0);
                        for p in 0..n {
                            self.one_cmp(b, f, n, amis, bmis, p, false, p + amis + n);
                            self.one_cmp(b, f, n, amis, bmis, p, true, p + bmis + n + 1);
                        }
                    }
                }
                n += nshards;
            }
        }
    }
}
