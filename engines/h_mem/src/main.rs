//! C08 layer 1: std harness calling `tiny_start::symbols::mem::{memcpy,memmove,memset,memcmp,bcmp}`
//! by path (through opaque function pointers, so the out-of-line symbols compiled inside
//! tiny-start -- with its `#![no_builtins]` -- are what runs).
//!
//! modes (argv: <mode> <seed> <budget> rest...):
//!   small <seed> 0 <shard> <nshards>   exhaustive n in 0..=2*threshold+word (see sweep.rs)
//!   large <seed> <cases>               sampled n up to 1 MiB around page / word multiples
//!   guard <seed> <cases>               buffers ending / starting right at PROT_NONE pages
//!   sample <seed> <cases>              stratified random sample of the same cases (Miri)
mod huge;
mod place;
mod sweep;
mod watch;
use std::hint::black_box;
use sweep::*;
use vh::Rng;

extern "C" {
    fn write(fd: i32, buf: *const u8, n: usize) -> isize;
}
fn raw_out(b: &[u8]) {
    let mut off = 0;
    while off < b.len() {
        let r = unsafe { write(1, b.as_ptr().add(off), b.len() - off) };
        if r <= 0 {
            break;
        }
        off += r as usize;
    }
}

fn ops() -> Ops {
    use tiny_start::symbols::mem as m;
    Ops {
        memcpy: black_box(m::memcpy as Cpy),
        memmove: black_box(m::memmove as Cpy),
        memset: black_box(m::memset as Set),
        memcmp: black_box(m::memcmp as Cmp),
        bcmp: black_box(m::bcmp as Cmp),
    }
}

fn profile() -> &'static str {
    if vh::IS_MIRI {
        "miri"
    } else if cfg!(debug_assertions) {
        "debug"
    } else {
        "release"
    }
}

fn finish(ctx: &Ctx, label: &str) {
    let total: u64 = ctx.cases.iter().sum();
    vh::eval(total);
    for (i, name) in FN_NAMES.iter().enumerate() {
        vh::count(&format!("cases_{name}"), ctx.cases[i]);
        for (k, kn) in KIND_NAMES.iter().enumerate() {
            if ctx.per_kind[i][k] > 0 {
                vh::count(&format!("violating_cases[C08/{name}/{kn}]"), u64::from(ctx.per_kind[i][k]));
            }
        }
    }
    vh::count(&format!("cases_{label}_{}", profile()), total);
    for (id, &hit) in ctx.cells.iter().enumerate() {
        if hit != 0 {
            let mut w = W::new();
            cell_name(id, &mut w);
            vh::distinct(&format!("{label}/{}", String::from_utf8_lossy(w.bytes())));
        }
    }
}

// --------------------------------------------------------------------------------- fault handler
#[cfg(not(miri))]
mod fault {
    use super::sweep::{current, FN_NAMES, W};
    use std::sync::atomic::{AtomicUsize, Ordering};

    /// glibc's userspace `struct sigaction` on x86_64 (mask before flags; not the kernel layout)
    #[repr(C)]
    struct SigAction {
        handler: usize,
        mask: [u64; 16],
        flags: i32,
        restorer: usize,
    }
    extern "C" {
        fn sigaction(sig: i32, act: *const SigAction, old: *mut SigAction) -> i32;
        fn _exit(code: i32) -> !;
        fn sigaltstack(ss: *const [usize; 3], old: *mut [usize; 3]) -> i32;
    }
    /// guard ranges registered by the `guard` mode: [lo, hi) pairs
    pub static GUARDS: [AtomicUsize; 8] = [const { AtomicUsize::new(0) }; 8];

    extern "C" fn on_fault(sig: i32, info: *const u8, uctx: *const u8) {
        // x86_64 linux: si_addr at offset 16 of siginfo_t; gregs[REG_ERR = 19] at 40 + 19*8 of ucontext
        let addr = unsafe { info.add(16).cast::<usize>().read_unaligned() };
        let err = unsafe { uctx.add(40 + 19 * 8).cast::<u64>().read_unaligned() };
        let (c, in_call) = current();
        if c.pl1 >= 0 {
            // placement cross product: operand and side are named from the operands in flight
            let mut w = W::new();
            let attributable = crate::place::fault_line(addr, err & 2 != 0, sig, "tiny_start::symbols::mem", &mut w);
            super::raw_out(w.bytes());
            unsafe { _exit(if attributable { 0 } else { 70 }) }
        }
        let mut in_guard = false;
        for g in GUARDS.chunks(2) {
            let (lo, hi) = (g[0].load(Ordering::Relaxed), g[1].load(Ordering::Relaxed));
            if lo != 0 && addr >= lo && addr < hi {
                in_guard = true;
            }
        }
        let is_write = err & 2 != 0;
        let mut w = W::new();
        if in_call {
            let what = if in_guard && is_write {
                "write-past-destination-fault"
            } else if in_guard {
                "read-past-buffer-fault"
            } else {
                "fault-in-call"
            };
            w.s("@@VIOL C08/").s(FN_NAMES[c.f as usize]).s("/").s(what).s(" {\"case\":");
            w.case_json(&c).s("},\"via\":\"tiny_start::symbols::mem\",\"signal\":").i(i64::from(sig));
            w.s(",\"access\":\"").s(if is_write { "write" } else { "read" });
            w.s("\",\"fault_in_guard_page\":").s(if in_guard { "true" } else { "false" }).s("}\n");
        } else {
            w.s("@@INCONCLUSIVE harness took signal ").i(i64::from(sig)).s(" outside a call of the functions under test (last case ");
            w.case_json(&c).s("})\n");
        }
        super::raw_out(w.bytes());
        unsafe { _exit(if in_call { 0 } else { 70 }) }
    }

    pub fn install() {
        unsafe {
            // alternate stack: a runaway recursion must still be reportable
            let stack = Box::leak(vec![0u8; 65536].into_boxed_slice());
            let ss = [stack.as_mut_ptr() as usize, 0, stack.len()];
            sigaltstack(&ss, std::ptr::null_mut());
            for sig in [11, 7] {
                let act = SigAction {
                    handler: on_fault as *const () as usize,
                    mask: [0; 16],
                    flags: 4 /* SA_SIGINFO */ | 0x0800_0000, /* SA_ONSTACK */
                    restorer: 0,
                };
                sigaction(sig, &act, std::ptr::null_mut());
            }
        }
    }
}

// --------------------------------------------------------------------------------- buffers
struct Big {
    _keep: Vec<Vec<u8>>,
    bufs: Bufs,
}
fn big(cap: usize) -> Big {
    let cap = (cap + 63) & !63;
    let mut keep = Vec::new();
    let mut p = [std::ptr::null_mut::<u8>(); 6];
    for slot in &mut p {
        let mut v = vec![0u8; cap + 64];
        let a = v.as_mut_ptr();
        let off = a.align_offset(64);
        *slot = unsafe { a.add(off) };
        keep.push(v);
    }
    let bufs = Bufs {
        d: p[0],
        s: p[1],
        e: p[2],
        od: p[3],
        os: p[4],
        t: p[5],
        cap,
    };
    unsafe { bufs.init() };
    Big { _keep: keep, bufs }
}

fn interesting_n(r: &mut Rng, max: usize) -> usize {
    const D: [i64; 9] = [0, 1, -1, 7, 8, 9, -8, 15, 16];
    let n = match r.below(8) {
        0 => 4096 * r.range(1, 16) as i64 + *r.pick(&D),
        1 => 8 * r.range(5, 4096) as i64 + *r.pick(&D[..3]),
        2 => (1i64 << r.range(6, 20)) + *r.pick(&D),
        3 => 65536 * r.range(1, 16) as i64 + *r.pick(&D),
        4 => r.range(41, 600) as i64,
        5 => r.range(600, 70_000) as i64,
        6 => 1_048_576 - r.below(18) as i64,
        _ => r.range(41, 1_048_576) as i64,
    };
    (n.max(NMAX as i64 + 1) as usize).min(max)
}

fn mode_large(seed: u64, cases: u64) {
    let max = 1usize << 20;
    let bg = big(3 * max + 4 * OFF + 256);
    let b = bg.bufs;
    let mut ctx = Ctx::new(ops(), raw_out, "tiny_start::symbols::mem");
    ctx.sample_every = 37;
    let mut r = Rng::new(seed);
    // 1 MiB itself, every function, once
    unsafe {
        ctx.one_copy(&b, F_MEMCPY, max, 3, 5);
        ctx.one_move(&b, F_MEMMOVE, max, 1, 8);
        ctx.one_move(&b, F_MEMMOVE, max, 9, -7);
        ctx.one_set(&b, max, 7, 0xA7);
        ctx.one_cmp(&b, F_MEMCMP, max, 3, 6, max - 1, true, 1);
        ctx.one_cmp(&b, F_BCMP, max, 0, 0, max, false, 0);
    }
    for i in 0..cases {
        // bias towards cheap sizes so that the budget buys many cases; big ones every 8th
        let cap_n = if i % 8 == 0 { max } else { 70_000 };
        let n = interesting_n(&mut r, cap_n);
        let (dm, sm) = (r.below(16) as usize, r.below(16) as usize);
        unsafe {
            match r.below(10) {
                0 | 1 => ctx.one_copy(&b, F_MEMCPY, n, dm, sm),
                2 => ctx.one_copy(&b, F_MEMMOVE, n, dm, sm),
                3..=5 => {
                    let lim = n as i64 + 8;
                    let d = match r.below(6) {
                        0 => *r.pick(&[1i64, -1, 7, -7, 8, -8, 9, -9, 16, -16]),
                        1 => (n as i64 / 2) * if r.chance(1, 2) { 1 } else { -1 },
                        2 => (n as i64 - r.below(3) as i64) * if r.chance(1, 2) { 1 } else { -1 },
                        3 => lim * if r.chance(1, 2) { 1 } else { -1 },
                        _ => r.below(2 * lim as u64 + 1) as i64 - lim,
                    };
                    ctx.one_move(&b, F_MEMMOVE, n, dm, d as isize);
                }
                6 | 7 => ctx.one_set(&b, n, dm, *r.pick(&[0, 1, 0x7f, 0x80, 0xff, 0x1_5A, -1])),
                _ => {
                    let f = if r.chance(1, 2) { F_MEMCMP } else { F_BCMP };
                    let p = match r.below(5) {
                        0 => n,
                        1 => 0,
                        2 => n - 1,
                        3 => n - 1 - r.below(17.min(n as u64)) as usize,
                        _ => r.below(n as u64) as usize,
                    };
                    ctx.one_cmp(&b, f, n, dm, sm, p, r.chance(1, 2), r.below(4) as usize);
                }
            }
        }
    }
    finish(&ctx, "L1-large");
}

fn mode_sample(seed: u64, cases: u64) {
    // same padding as the native runs (reads inside the padded buffers are not judged)
    let bg = big(3 * 320 + 4 * OFF + 256);
    let b = bg.bufs;
    let mut ctx = Ctx::new(ops(), raw_out, "tiny_start::symbols::mem");
    ctx.sample_every = 7;
    let mut r = Rng::new(seed);
    for i in 0..cases {
        // strata: below threshold, around threshold, two-word body, a few hundred bytes
        let n = match i % 5 {
            0 => r.below(THRESHOLD as u64) as usize,
            1 => THRESHOLD - 1 + r.below(3) as usize,
            2 => r.range(THRESHOLD as u64, NMAX as u64) as usize,
            3 => r.range(NMAX as u64, 96) as usize,
            _ => r.range(97, 320) as usize,
        };
        let (dm, sm) = (r.below(16) as usize, r.below(16) as usize);
        unsafe {
            match r.below(8) {
                0 => ctx.one_copy(&b, F_MEMCPY, n, dm, sm),
                1 => ctx.one_copy(&b, F_MEMMOVE, n, dm, sm),
                2..=4 => {
                    let lim = n as i64 + 8;
                    let d = r.below(2 * lim as u64 + 1) as i64 - lim;
                    ctx.one_move(&b, F_MEMMOVE, n, dm, d as isize);
                }
                5 => ctx.one_set(&b, n, dm, *r.pick(&[0, 1, 0x7f, 0x80, 0xff, -1])),
                _ => {
                    let f = if r.chance(1, 2) { F_MEMCMP } else { F_BCMP };
                    let p = if n == 0 { 0 } else { r.below(n as u64 + 1) as usize };
                    ctx.one_cmp(&b, f, n, dm, sm, p, r.chance(1, 2), r.below(4) as usize);
                }
            }
        }
    }
    finish(&ctx, "L1-sample");
}

/// Exactly-sized allocations with alignment 1 (made for Miri, whose allocator hands out odd
/// addresses for them): every operand is a whole allocation of exactly the bytes the call may
/// touch, so any access outside [p, p+n) -- including a masked read-modify-write of the aligned
/// word around the first / last byte -- is out of bounds for Miri.
fn mode_exact(seed: u64, cases: u64) {
    use std::alloc::{alloc, dealloc, Layout};
    let o = ops();
    let mut r = Rng::new(seed ^ 0xE8AC7);
    let mut counts = [0u64; 5];
    let mut phases_hit = [[false; 16]; 5];
    // allocate `len` bytes, align 1, preferably at address % 16 == want
    let exact = |len: usize, want: usize, held: &mut Vec<(*mut u8, Layout)>| -> *mut u8 {
        let l = Layout::from_size_align(len.max(1), 1).unwrap();
        let mut last = std::ptr::null_mut();
        for _ in 0..24 {
            let p = unsafe { alloc(l) };
            held.push((p, l));
            last = p;
            if p as usize % 16 == want {
                break;
            }
        }
        last
    };
    let mut viols = 0;
    for i in 0..cases {
        let f = (i % 5) as u8;
        let n = match (i / 5) % 4 {
            0 => r.range(1, THRESHOLD as u64 - 1) as usize,
            1 => r.range(THRESHOLD as u64, 2 * THRESHOLD as u64) as usize,
            2 => r.range(2 * THRESHOLD as u64 + 1, 96) as usize,
            _ => r.range(97, 300) as usize,
        };
        let (w1, w2) = (r.below(16) as usize, r.below(16) as usize);
        let mut held = Vec::new();
        let fill = |p: *mut u8, len: usize, salt: usize| {
            for k in 0..len {
                unsafe { std::ptr::write_volatile(p.add(k), pat_s(k + salt)) };
            }
        };
        let mut bad: Option<String> = None;
        unsafe {
            match f {
                F_MEMSET => {
                    let d = exact(n, w1, &mut held);
                    let c = *r.pick(&[0i32, 0xff, 0x5a, 0x180]);
                    let ret = (o.memset)(d, c, n);
                    phases_hit[f as usize][d as usize % 16] = true;
                    if ret != d {
                        bad = Some("wrong-return-pointer".into());
                    }
                    for k in 0..n {
                        if std::ptr::read_volatile(d.add(k)) != c as u8 {
                            bad = Some(format!("wrong-bytes at {k}"));
                            break;
                        }
                    }
                }
                F_MEMCPY => {
                    let (d, s) = (exact(n, w1, &mut held), exact(n, w2, &mut held));
                    fill(s, n, i as usize);
                    let ret = (o.memcpy)(d, s, n);
                    phases_hit[f as usize][d as usize % 16] = true;
                    if ret != d {
                        bad = Some("wrong-return-pointer".into());
                    }
                    for k in 0..n {
                        if std::ptr::read_volatile(d.add(k)) != pat_s(k + i as usize) {
                            bad = Some(format!("wrong-bytes at {k}"));
                            break;
                        }
                    }
                }
                F_MEMMOVE => {
                    // one allocation that is exactly the union of source and destination
                    let dist = r.range(1, (n as u64 + 8).min(40)) as usize;
                    let span = n + dist;
                    let base = exact(span, w1, &mut held);
                    fill(base, span, i as usize);
                    let backward = r.chance(1, 2);
                    let (d, s, soff) = if backward { (base.add(dist), base, 0) } else { (base, base.add(dist), dist) };
                    let ret = (o.memmove)(d, s, n);
                    phases_hit[f as usize][d as usize % 16] = true;
                    if ret != d {
                        bad = Some("wrong-return-pointer".into());
                    }
                    for k in 0..n {
                        if std::ptr::read_volatile(d.add(k)) != pat_s(soff + k + i as usize) {
                            bad = Some(format!("wrong-bytes at {k}"));
                            break;
                        }
                    }
                }
                _ => {
                    let (a, b) = (exact(n, w1, &mut held), exact(n, w2, &mut held));
                    fill(a, n, 7);
                    fill(b, n, 7);
                    let p = if r.chance(1, 3) { n } else { r.below(n as u64) as usize };
                    let mut want = 0;
                    if p < n {
                        let av = std::ptr::read_volatile(a.add(p));
                        let bv = if av < 0x80 { av + 1 } else { av - 1 };
                        std::ptr::write_volatile(b.add(p), bv);
                        want = if av < bv { -1 } else { 1 };
                    }
                    let fun = if f == F_MEMCMP { o.memcmp } else { o.bcmp };
                    let res = fun(a, b, n);
                    phases_hit[f as usize][a as usize % 16] = true;
                    let good = if f == F_MEMCMP { res.signum() == want } else { (res != 0) == (want != 0) };
                    if !good {
                        bad = Some(format!("wrong-result {res}"));
                    }
                }
            }
            for (p, l) in held {
                dealloc(p, l);
            }
        }
        counts[f as usize] += 1;
        if let Some(b) = bad {
            viols += 1;
            if viols <= 3 {
                let kind = b.split(' ').next().unwrap_or("wrong-bytes").to_string();
                vh::viol(
                    &format!("C08/{}/{kind}", FN_NAMES[f as usize]),
                    &format!("{{\"fn\":{},\"n\":{n},\"operands\":\"exactly-sized allocations, alignment 1\",\"what\":{}}}", vh::js(FN_NAMES[f as usize]), vh::js(&b)),
                );
            }
        }
    }
    let total: u64 = counts.iter().sum();
    vh::eval(total);
    vh::count(&format!("cases_L1-exact-alloc_{}", profile()), total);
    for (i, name) in FN_NAMES.iter().enumerate() {
        vh::count(&format!("cases_{name}"), counts[i]);
        let odd = phases_hit[i].iter().enumerate().filter(|(k, h)| **h && k % 8 != 0).count();
        vh::distinct(&format!("L1-exact-alloc/{}/{name}/{}", profile(), if odd >= 4 { "unaligned-starts>=4" } else { "few-unaligned-starts" }));
        vh::count(&format!("exact_alloc_distinct_start_phases_{name}"), phases_hit[i].iter().filter(|h| **h).count() as u64);
    }
    vh::sample(
        &format!("{{\"mode\":\"exactly-sized align-1 allocations\",\"profile\":{},\"cases\":{total},\"outcome\":\"no out-of-bounds access reported, results match\"}}", vh::js(profile())),
        1,
    );
}

fn mode_small(shard: usize, nshards: usize) {
    let b = unsafe { Bufs::small() };
    let mut ctx = Ctx::new(ops(), raw_out, "tiny_start::symbols::mem");
    fn quiet(_: u8, _: usize) {}
    unsafe { ctx.sweep_small(&b, shard, nshards.max(1), quiet) };
    finish(&ctx, "L1-small");
    vh::count("small_domain_shards_completed", 1);
}

// --------------------------------------------------------------------------------- guard pages
#[cfg(not(miri))]
mod guard {
    use super::*;
    extern "C" {
        fn mmap(addr: *mut u8, len: usize, prot: i32, flags: i32, fd: i32, off: i64) -> *mut u8;
        fn mprotect(addr: *mut u8, len: usize, prot: i32) -> i32;
    }
    const PAGE: usize = 4096;
    const DATA: usize = 4 * PAGE;

    /// [PROT_NONE page][DATA read-write][PROT_NONE page]; returns start of DATA
    unsafe fn region(slot: usize) -> Option<*mut u8> {
        let p = mmap(std::ptr::null_mut(), DATA + 2 * PAGE, 3, 0x22 /* PRIVATE|ANONYMOUS */, -1, 0);
        if p as isize == -1 {
            return None;
        }
        if mprotect(p, PAGE, 0) != 0 || mprotect(p.add(PAGE + DATA), PAGE, 0) != 0 {
            return None;
        }
        use std::sync::atomic::Ordering::Relaxed;
        fault::GUARDS[slot * 4].store(p as usize, Relaxed);
        fault::GUARDS[slot * 4 + 1].store(p as usize + PAGE, Relaxed);
        fault::GUARDS[slot * 4 + 2].store(p as usize + PAGE + DATA, Relaxed);
        fault::GUARDS[slot * 4 + 3].store(p as usize + 2 * PAGE + DATA, Relaxed);
        Some(p.add(PAGE))
    }

    struct G {
        d: *mut u8, // data region holding destinations
        s: *mut u8, // data region holding sources
        e: Vec<u8>, // expected image of d
        cases: [u64; 5],
        viols: u64,
        /// (function, n class, placement) cells; plain flags, named only at the very end
        cells: [bool; 5 * 9 * 3],
        /// scratch for the overlapping-memmove snapshot (allocated once)
        tmp: Vec<u8>,
    }

    impl G {
        unsafe fn reset(&mut self) {
            vfill(self.d, DATA, pat_d);
            vfill(self.s, DATA, pat_s);
            vfill(self.e.as_mut_ptr(), DATA, pat_d);
        }
        unsafe fn check(&mut self, c: &Case, dst_off: usize, ret: *mut u8, src_must_be_pristine: bool) {
            self.cases[c.f as usize] += 1;
            let mut bad: Option<(&str, i64)> = None;
            if ret != self.d.add(dst_off) {
                bad = Some(("wrong-return-pointer", 0));
            }
            let at = vdiff(self.d, self.e.as_ptr(), DATA);
            if at != usize::MAX {
                let inside = at >= dst_off && at < dst_off + c.n;
                bad = Some((if inside { "wrong-bytes" } else { "write-outside-destination" }, at as i64 - dst_off as i64));
            }
            if src_must_be_pristine {
                let mut i = 0;
                while i < DATA {
                    if std::ptr::read_volatile(self.s.add(i)) != pat_s(i) {
                        bad = Some(("source-modified", i as i64));
                        break;
                    }
                    i += 1;
                }
            }
            if let Some((kind, at)) = bad {
                self.viols += 1;
                if self.viols <= 6 {
                    let mut w = W::new();
                    w.s("@@VIOL C08/").s(FN_NAMES[c.f as usize]).s("/").s(kind).s(" {\"case\":");
                    w.case_json(c).s("},\"via\":\"tiny_start::symbols::mem\",\"offset_from_dst\":").i(at).s("}\n");
                    raw_out(w.bytes());
                }
                self.reset();
            }
            self.cells[(c.f as usize * 9 + nclass(c.n)) * 3 + c.place as usize] = true;
        }
    }

    pub fn run(seed: u64, cases: u64) {
        let o = ops();
        let (Some(d), Some(s)) = (unsafe { region(0) }, unsafe { region(1) }) else {
            vh::inconclusive("guard: mmap/mprotect failed");
            return;
        };
        let mut g = G {
            d,
            s,
            e: vec![0u8; DATA],
            cases: [0; 5],
            viols: 0,
            cells: [false; 5 * 9 * 3],
            tmp: vec![0u8; DATA],
        };
        unsafe { g.reset() };
        let mut r = Rng::new(seed);
        let mut ns: Vec<usize> = (0..=NMAX).collect();
        ns.extend([63, 64, 65, 127, 128, 129, 255, 256, 257, 4095, 4096, 4097, 8191, 8192, 8193, DATA - 16, DATA]);
        let mut done = 0u64;
        'outer: loop {
            for &n in &ns {
                for k in 0..16usize {
                    if done >= cases {
                        break 'outer;
                    }
                    done += 1;
                    let smis = (k + r.below(2) as usize * 8) % 16;
                    let place = 1 + (done % 2) as u8; // 1: ranges end at the upper guard, 2: start at the lower guard
                    unsafe {
                        // ---- memcpy / memmove between the two regions, both flush with a guard page
                        for f in [F_MEMCPY, F_MEMMOVE] {
                            if n + smis > DATA {
                                continue;
                            }
                            let (doff, soff) = if place == 1 { (DATA - n, DATA - n - smis) } else { (0, smis) };
                            // second variant: the source flush with the guard, destination inset
                            for swap in [false, true] {
                                let (doff, soff) = if swap { (if place == 1 { DATA - n - smis } else { smis }, if place == 1 { DATA - n } else { 0 }) } else { (doff, soff) };
                                let c = Case { f, n, dmis: (g.d as usize + doff) & 15, smis: (g.s as usize + soff) & 15, place, ..Case::ZERO };
                                vcopy_b(g.e.as_mut_ptr().add(doff), g.s.add(soff), n);
                                let fun = if f == F_MEMCPY { o.memcpy } else { o.memmove };
                                sweep::CURRENT = c;
                                std::ptr::write_volatile(std::ptr::addr_of_mut!(sweep::IN_CALL), true);
                                let ret = fun(g.d.add(doff), g.s.add(soff), n);
                                std::ptr::write_volatile(std::ptr::addr_of_mut!(sweep::IN_CALL), false);
                                g.check(&c, doff, ret, true);
                                // restore the destination range
                                let mut i = 0;
                                while i < n {
                                    std::ptr::write_volatile(g.d.add(doff + i), pat_d(doff + i));
                                    std::ptr::write_volatile(g.e.as_mut_ptr().add(doff + i), pat_d(doff + i));
                                    i += 1;
                                }
                            }
                        }
                        // ---- overlapping memmove inside one region, the outer end flush with a guard
                        if n > 0 && 2 * n + 16 <= DATA {
                            let dist = 1 + (smis % (n + 8).min(24)) as isize; // |dst - src|
                            for backward in [true, false] {
                                // backward copy: dst above src; forward: dst below src
                                let (doff, soff) = match (place, backward) {
                                    (1, true) => (DATA - n, DATA - n - dist as usize),
                                    (1, false) => (DATA - n - dist as usize, DATA - n),
                                    (_, true) => (dist as usize, 0),
                                    (_, false) => (0, dist as usize),
                                };
                                let c = Case { f: F_MEMMOVE, n, dmis: (g.d as usize + doff) & 15, smis: (g.d as usize + soff) & 15, dist: doff as isize - soff as isize, place, ..Case::ZERO };
                                vcopy_b(g.tmp.as_mut_ptr(), g.d.add(soff), n);
                                vcopy_b(g.e.as_mut_ptr().add(doff), g.tmp.as_ptr(), n);
                                sweep::CURRENT = c;
                                std::ptr::write_volatile(std::ptr::addr_of_mut!(sweep::IN_CALL), true);
                                let ret = (o.memmove)(g.d.add(doff), g.d.add(soff), n);
                                std::ptr::write_volatile(std::ptr::addr_of_mut!(sweep::IN_CALL), false);
                                g.check(&c, doff, ret, false);
                                let lo = doff.min(soff);
                                let mut i = lo;
                                while i < doff.max(soff) + n {
                                    std::ptr::write_volatile(g.d.add(i), pat_d(i));
                                    std::ptr::write_volatile(g.e.as_mut_ptr().add(i), pat_d(i));
                                    i += 1;
                                }
                            }
                        }
                        // ---- memset
                        {
                            let doff = if place == 1 { DATA - n } else { 0 };
                            let cint = [0, 1, 0x7f, 0x80, 0xff][k % 5];
                            let c = Case { f: F_MEMSET, n, dmis: (g.d as usize + doff) & 15, aux: i64::from(cint), place, ..Case::ZERO };
                            let mut i = 0;
                            while i < n {
                                std::ptr::write_volatile(g.e.as_mut_ptr().add(doff + i), cint as u8);
                                i += 1;
                            }
                            sweep::CURRENT = c;
                            std::ptr::write_volatile(std::ptr::addr_of_mut!(sweep::IN_CALL), true);
                            let ret = (o.memset)(g.d.add(doff), cint, n);
                            std::ptr::write_volatile(std::ptr::addr_of_mut!(sweep::IN_CALL), false);
                            g.check(&c, doff, ret, false);
                            let mut i = 0;
                            while i < n {
                                std::ptr::write_volatile(g.d.add(doff + i), pat_d(doff + i));
                                std::ptr::write_volatile(g.e.as_mut_ptr().add(doff + i), pat_d(doff + i));
                                i += 1;
                            }
                        }
                        // ---- memcmp / bcmp: both operands flush with a guard; equal, or differing at p
                        if n + smis <= DATA {
                            for f in [F_MEMCMP, F_BCMP] {
                                let (aoff, boff) = if place == 1 { (DATA - n, DATA - n - smis) } else { (0, smis) };
                                let (a, b) = (g.d.add(aoff), g.s.add(boff));
                                let p = if n == 0 || k % 3 == 0 { n } else { r.below(n as u64) as usize };
                                let gt = k % 2 == 1;
                                let mut i = 0;
                                while i < n {
                                    let v = 0x20 + pat_s(i) % 0xB0;
                                    std::ptr::write_volatile(a.add(i), v);
                                    std::ptr::write_volatile(b.add(i), v);
                                    i += 1;
                                }
                                if p < n {
                                    std::ptr::write_volatile(a.add(p), if gt { 0x80 } else { 0x7f });
                                    std::ptr::write_volatile(b.add(p), if gt { 0x7f } else { 0x80 });
                                }
                                let var = if p >= n { 0 } else if gt { 2 } else { 1 };
                                let c = Case { f, n, dmis: (a as usize) & 15, smis: (b as usize) & 15, aux: if p < n { p as i64 } else { -1 }, var, place, ..Case::ZERO };
                                let fun = if f == F_MEMCMP { o.memcmp } else { o.bcmp };
                                sweep::CURRENT = c;
                                std::ptr::write_volatile(std::ptr::addr_of_mut!(sweep::IN_CALL), true);
                                let res = fun(a, b, n);
                                std::ptr::write_volatile(std::ptr::addr_of_mut!(sweep::IN_CALL), false);
                                let good = match (f, var) {
                                    (_, 0) => res == 0,
                                    (F_MEMCMP, 1) => res < 0,
                                    (F_MEMCMP, _) => res > 0,
                                    _ => res != 0,
                                };
                                if !good {
                                    g.viols += 1;
                                    let mut w = W::new();
                                    w.s("@@VIOL C08/").s(FN_NAMES[f as usize]).s("/wrong-result {\"case\":");
                                    w.case_json(&c).s("},\"via\":\"tiny_start::symbols::mem\",\"got\":").i(i64::from(res)).s("}\n");
                                    raw_out(w.bytes());
                                }
                                let mut i = 0;
                                while i < n {
                                    std::ptr::write_volatile(a.add(i), pat_d(aoff + i));
                                    std::ptr::write_volatile(b.add(i), pat_s(boff + i));
                                    i += 1;
                                }
                                g.check(&c, aoff, a, true);
                            }
                        }
                    }
                }
            }
        }
        let total: u64 = g.cases.iter().sum();
        vh::eval(total);
        vh::count(&format!("cases_L1-guard_{}", profile()), total);
        for (i, name) in FN_NAMES.iter().enumerate() {
            vh::count(&format!("cases_{name}"), g.cases[i]);
        }
        for (i, &hit) in g.cells.iter().enumerate() {
            if hit {
                vh::distinct(&format!(
                    "L1-guard/{}/{}/{}",
                    FN_NAMES[i / 27],
                    NCLASS_NAMES[(i / 3) % 9],
                    ["", "ends-at-guard", "starts-at-guard"][i % 3]
                ));
            }
        }
    }
}

// --------------------------------------------------------------------------------- placement cross product
#[cfg(not(miri))]
mod xplace {
    use super::*;
    use place::{PCtx, DATA, PAGE};
    extern "C" {
        fn mmap(addr: *mut u8, len: usize, prot: i32, flags: i32, fd: i32, off: i64) -> *mut u8;
        fn mprotect(addr: *mut u8, len: usize, prot: i32) -> i32;
    }
    unsafe fn region() -> Option<*mut u8> {
        let p = mmap(std::ptr::null_mut(), DATA + 2 * PAGE, 3, 0x22, -1, 0);
        if p as isize == -1 || mprotect(p, PAGE, 0) != 0 || mprotect(p.add(PAGE + DATA), PAGE, 0) != 0 {
            return None;
        }
        Some(p.add(PAGE))
    }
    fn quiet(_: u8, _: usize) {}

    pub fn run(seed: u64, sampled: u64, shard: usize, nshards: usize, draws: usize) {
        let (Some(a), Some(b)) = (unsafe { region() }, unsafe { region() }) else {
            vh::inconclusive("xplace: mmap/mprotect failed");
            return;
        };
        let mut ctx = PCtx::new(ops(), raw_out, "tiny_start::symbols::mem", a, b, seed ^ 0x9E37_79B9_7F4A_7C15);
        unsafe {
            ctx.init();
            ctx.sweep_exhaustive(shard, nshards.max(1), quiet);
            ctx.sweep_sampled(sampled as usize, draws, quiet);
        }
        let total: u64 = ctx.cases.iter().sum();
        vh::eval(total);
        vh::count(&format!("cases_L1-placement_{}", profile()), total);
        for (i, name) in FN_NAMES.iter().enumerate() {
            vh::count(&format!("cases_{name}"), ctx.cases[i]);
            for (k, kn) in KIND_NAMES.iter().enumerate() {
                if ctx.per_kind[i][k] > 0 {
                    vh::count(&format!("violating_cases[C08/{name}/{kn}]"), u64::from(ctx.per_kind[i][k]));
                }
            }
        }
        vh::count("placement_shards_completed", 1);
        vh::count(&format!("placement_pairs_covered_max1024_{}_shard{shard}", profile()), ctx.pair_count() as u64);
        for (id, &hit) in ctx.cells.iter().enumerate() {
            if hit != 0 {
                let mut w = W::new();
                place::pcell_name(id, &mut w);
                vh::distinct(&format!("L1-placement/{}", String::from_utf8_lossy(w.bytes())));
            }
        }
    }
}

// --------------------------------------------------------------------------------- neighbour watcher (two threads)
#[cfg(not(miri))]
mod xwatch {
    use super::*;
    use std::sync::atomic::{AtomicBool, Ordering};
    use std::sync::Arc;

    #[repr(align(64))]
    struct Buf([u8; 1024]);

    pub fn run(iters: u64) {
        if std::thread::available_parallelism().map_or(1, |n| n.get()) < 2 {
            vh::inconclusive("watch: fewer than 2 CPUs available, concurrent neighbour updates cannot be produced");
            return;
        }
        let o = ops();
        let mut dbuf = Box::new(Buf([0; 1024]));
        let sbuf = Box::new(Buf([0x5A; 1024]));
        let mut evals = 0u64;
        for f in [F_MEMSET, F_MEMCPY, F_MEMMOVE] {
            let mut calls_total = 0u64;
            let mut writes_total = 0u64;
            for (ci, &(phase, n)) in watch::CONFIGS.iter().enumerate() {
                let dst = unsafe { dbuf.0.as_mut_ptr().add(256 + phase) };
                let src = unsafe { sbuf.0.as_ptr().add(128 + (ci * 3) % 8) };
                let started = Arc::new(AtomicBool::new(false));
                let stop = Arc::new(AtomicBool::new(false));
                let (st2, sp2, d_addr) = (started.clone(), stop.clone(), dst as usize);
                let th = std::thread::spawn(move || unsafe { watch::watcher(d_addr, n, &st2, &sp2) });
                while !started.load(Ordering::Acquire) {
                    std::hint::spin_loop();
                }
                unsafe { watch::hammer(&o, f, dst, src, n, iters) };
                stop.store(true, Ordering::Relaxed);
                let mut r = th.join().unwrap();
                unsafe { watch::final_check(dst as usize, n, &mut r) };
                calls_total += iters;
                writes_total += r.writes;
                evals += 1;
                if r.lost > 0 {
                    watch::report(raw_out, "tiny_start::symbols::mem", f, phase, n, &r, iters);
                    break;
                }
                if r.writes < 2000 {
                    vh::inconclusive(&format!(
                        "watch {} dst%8={phase} n={n}: the watcher thread got only {} writes in during {iters} calls",
                        FN_NAMES[f as usize], r.writes
                    ));
                } else {
                    vh::distinct(&format!("L1-watch/{}/dst%8={phase}/n={n}", FN_NAMES[f as usize]));
                }
            }
            vh::count(&format!("watch_calls_{}", FN_NAMES[f as usize]), calls_total);
            vh::count(&format!("watch_neighbour_writes_{}", FN_NAMES[f as usize]), writes_total);
        }
        vh::eval(evals);
        vh::count(&format!("cases_L1-watch_{}", profile()), evals);
    }
}

// --------------------------------------------------------------------------------- very large sizes
#[cfg(not(miri))]
mod xhuge {
    use super::*;
    use huge::{Arenas, HCtx, MARGIN, P_MAX};
    extern "C" {
        fn mmap(addr: *mut u8, len: usize, prot: i32, flags: i32, fd: i32, off: i64) -> *mut u8;
    }
    fn quiet(_: u8, _: usize) {}
    pub fn run(seed: u64, calls: u64, power: u32, only_fn: u8) {
        let top = power >= P_MAX;
        let cap = ((if top { 1usize << power } else { 2usize << power }) + 2 * MARGIN + 8192) & !4095;
        let mut a = [std::ptr::null_mut::<u8>(); 3];
        for p in &mut a {
            *p = unsafe { mmap(std::ptr::null_mut(), cap, 3, 0x22, -1, 0) };
            if *p as isize == -1 {
                vh::inconclusive("huge: mmap failed");
                return;
            }
        }
        let ar = Arenas { d: a[0], s: a[1], p: a[2], cap };
        let mut ctx = HCtx::new(ops(), raw_out, "tiny_start::symbols::mem", ar, seed ^ (u64::from(power) << 32) ^ 0xC0FFEE);
        unsafe {
            ar.init();
            ctx.sweep_power(power, calls as usize, only_fn, quiet);
        }
        let total: u64 = ctx.cases.iter().sum();
        vh::eval(total);
        vh::count(&format!("cases_L1-huge_{}", profile()), total);
        vh::count("huge_bytes_processed_MiB", ctx.bytes >> 20);
        for (i, name) in FN_NAMES.iter().enumerate() {
            vh::count(&format!("cases_{name}"), ctx.cases[i]);
            vh::count(&format!("huge_cases_{name}"), ctx.cases[i]);
            for (k, kn) in KIND_NAMES.iter().enumerate() {
                if ctx.per_kind[i][k] > 0 {
                    vh::count(&format!("violating_cases[C08/{name}/{kn}]"), u64::from(ctx.per_kind[i][k]));
                }
            }
        }
        for (id, &hit) in ctx.cells.iter().enumerate() {
            if hit != 0 {
                let mut w = W::new();
                huge::hcell_name(id, &mut w);
                vh::distinct(&format!("L1-huge/{}", String::from_utf8_lossy(w.bytes())));
            }
        }
    }
}

fn main() {
    #[cfg(not(miri))]
    fault::install();
    let a = vh::args();
    let arg = |i: usize, d: usize| a.rest.get(i).and_then(|s| s.parse().ok()).unwrap_or(d);
    match a.mode.as_str() {
        "small" => mode_small(arg(0, 0), arg(1, 1)),
        // one <seed> 0 <fn 0..4> <n> <dst_mis> <src_mis> <dst-src or 0> <fill / first_diff> <0 eq|1 lt|2 gt>
        "one" => {
            let n = arg(1, 0);
            let bg = big(3 * n + 4 * OFF + 256);
            let b = bg.bufs;
            let mut ctx = Ctx::new(ops(), raw_out, "tiny_start::symbols::mem");
            ctx.sample_every = 1;
            let f = arg(0, 0) as u8;
            let dist: isize = a.rest.get(4).and_then(|s| s.parse().ok()).unwrap_or(0);
            let aux: i64 = a.rest.get(5).and_then(|s| s.parse().ok()).unwrap_or(0);
            unsafe {
                match f {
                    F_MEMSET => ctx.one_set(&b, n, arg(2, 0), aux as i32),
                    F_MEMCMP | F_BCMP => {
                        let p = if aux < 0 { n } else { aux as usize };
                        for pair in 0..4 {
                            ctx.one_cmp(&b, f, n, arg(2, 0), arg(3, 0), p, arg(6, 0) == 2, pair);
                        }
                    }
                    _ if dist != 0 => ctx.one_move(&b, f, n, arg(2, 0), dist),
                    _ => ctx.one_copy(&b, f, n, arg(2, 0), arg(3, 0)),
                }
            }
            finish(&ctx, "L1-replay");
        }
        "large" => mode_large(a.seed, a.budget),
        "sample" => mode_sample(a.seed, a.budget),
        "exact" => mode_exact(a.seed, a.budget),
        // watch <seed> <calls per configuration>
        #[cfg(not(miri))]
        "watch" => xwatch::run(a.budget),
        #[cfg(not(miri))]
        "guard" => guard::run(a.seed, a.budget),
        // huge <seed> <calls per function> <power 20..26> [function 0..4, 255 = all]
        #[cfg(not(miri))]
        "huge" => xhuge::run(a.seed, a.budget, arg(0, 20) as u32, arg(1, 255) as u8),
        // xplace <seed> <sampled large n> <shard> <nshards> [draws per class pair]
        #[cfg(not(miri))]
        "xplace" => xplace::run(a.seed, a.budget, arg(0, 0), arg(1, 1), arg(2, 2)),
        m => vh::inconclusive(&format!("unknown mode {m}")),
    }
}
