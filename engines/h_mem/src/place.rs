//! C08 placement cross product (no_std, shared by `h_mem` and `mem_probe` like sweep.rs).
//!
//! Two regions A and B, each `DATA` bytes of read-write memory with an inaccessible page directly
//! before and directly after it (the host maps them). Operand 1 (dst / s1) lives in A, operand 2
//! (src / s2) in B, each INDEPENDENTLY in one of 32 placements:
//!   0..8   ends k = 0..7 bytes before the inaccessible page   (k = 0: ends exactly at it)
//!   8..16  starts k = 0..7 bytes after the inaccessible page  (k = 0: starts exactly after it)
//!   16..32 interior, address % 16 = 0..15 (straddling an ordinary page boundary)
//! so every pair (flush, interior), (interior, flush), (flush, flush), ... occurs, with every
//! alignment relation between the operands. An access outside [p, p+n) that a correct routine has
//! no business making lands on the inaccessible page within at most 7 bytes of slack and faults;
//! the host's SIGSEGV handler calls `fault_line`, which names function, operand and side:
//! `C08/<fn>/<reads|writes>-past-end-of-<s1|s2|dst|src>` / `...-before-start-of-...`.
//! Results are checked too (sign / zero, destination window with 32-byte margins, source window,
//! return pointer), so this is not only a fault detector.
#![allow(clippy::missing_safety_doc, dead_code)]
use crate::sweep::*;
use core::ptr::{addr_of, addr_of_mut, read_volatile as rv, write_volatile as wv};

pub const PAGE: usize = 4096;
pub const DATA: usize = 4 * PAGE;
pub const NPL: u8 = 32;
/// exhaustive n range of the cross product
pub const PN_MAX: usize = 96;
/// largest n the interior placement leaves room for
pub const PN_LIMIT: usize = 6144;
const INTERIOR: usize = DATA / 2 - 32;

/// operands of the call in flight: p1, p2 (0 = none), n  (volatile access only)
pub static mut OPS_NOW: [usize; 3] = [0; 3];

pub fn pl_class(pl: u8) -> usize {
    if pl < 8 {
        0
    } else if pl < 16 {
        1
    } else {
        2
    }
}
pub const PL_CLASS_NAMES: [&str; 3] = ["ends-at-guard", "starts-at-guard", "interior"];

pub fn pl_offset(pl: u8, n: usize) -> usize {
    if pl < 8 {
        DATA - pl as usize - n
    } else if pl < 16 {
        (pl - 8) as usize
    } else {
        INTERIOR + (pl - 16) as usize
    }
}

/// position class of the first difference for the compare functions
pub const DIFF_NAMES: [&str; 5] = ["equal", "diff-in-head", "diff-in-middle-word", "diff-in-tail", "diff-at-last-byte"];

pub fn pn_class(n: usize) -> usize {
    if n == 0 {
        0
    } else if n < WORD {
        1
    } else if n < THRESHOLD {
        2
    } else if n < 2 * THRESHOLD {
        3
    } else if n <= PN_MAX {
        4
    } else {
        5
    }
}
pub const PN_CLASS_NAMES: [&str; 6] = ["n=0", "n<8", "8<=n<16", "16<=n<32", "32<=n<=96", "n>96"];
pub const N_PCELL: usize = 5 * 3 * 3 * 6 * 5;

pub struct PCtx {
    pub ops: Ops,
    pub out: fn(&[u8]),
    pub via: &'static str,
    pub check_ret: bool,
    pub a: *mut u8,
    pub b: *mut u8,
    pub cases: [u64; 5],
    pub viols: u64,
    pub per_kind: [[u32; 5]; 5],
    pub cells: [u8; N_PCELL],
    pub pairs_seen: [u8; 1024],
    pub samples: u32,
    pub rng: u64,
}

impl PCtx {
    pub fn new(ops: Ops, out: fn(&[u8]), via: &'static str, a: *mut u8, b: *mut u8, seed: u64) -> PCtx {
        PCtx {
            ops,
            out,
            via,
            check_ret: true,
            a,
            b,
            cases: [0; 5],
            viols: 0,
            per_kind: [[0; 5]; 5],
            cells: [0; N_PCELL],
            pairs_seen: [0; 1024],
            samples: 0,
            rng: seed | 1,
        }
    }
    /// both regions carry their position pattern (A: pat_d, B: pat_s) between cases
    pub unsafe fn init(&self) {
        vfill(self.a, DATA, pat_d);
        vfill(self.b, DATA, pat_s);
    }
    fn next(&mut self) -> u64 {
        self.rng ^= self.rng << 13;
        self.rng ^= self.rng >> 7;
        self.rng ^= self.rng << 17;
        self.rng
    }

    fn viol(&mut self, kind: u8, c: &Case, at: i64, got: i64, want: i64) {
        self.viols += 1;
        let k = &mut self.per_kind[c.f as usize][kind as usize];
        *k += 1;
        if *k > 3 {
            return;
        }
        let mut w = W::new();
        w.s("@@VIOL C08/").s(FN_NAMES[c.f as usize]).s("/").s(KIND_NAMES[kind as usize]).s(" {\"case\":");
        w.case_json(c).s("},\"via\":\"").s(self.via).s("\",\"offset_from_dst\":").i(at);
        w.s(",\"got\":").i(got).s(",\"want\":").i(want).s("}\n");
        (self.out)(w.bytes());
    }

    fn done(&mut self, c: &Case, diff: usize, ok: bool) {
        self.cases[c.f as usize] += 1;
        let p2 = if c.pl2 >= 0 { pl_class(c.pl2 as u8) } else { 0 };
        let cell = (((c.f as usize * 3 + pl_class(c.pl1 as u8)) * 3 + p2) * 6 + pn_class(c.n)) * 5 + diff;
        self.cells[cell] = 1;
        if c.pl2 >= 0 {
            self.pairs_seen[c.pl1 as usize * 32 + c.pl2 as usize] = 1;
        }
        // a few literal cases: one operand flush with the inaccessible page, the other interior, unaligned to each other
        if ok && self.samples < 3 && c.n >= THRESHOLD && c.pl2 >= 16 && c.pl1 < 8 && (c.dmis ^ c.smis) & 7 != 0 && self.next() % 97 == 0 {
            self.samples += 1;
            let mut w = W::new();
            w.s("@@SAMPLE {\"case\":");
            w.case_json(c).s("},\"via\":\"").s(self.via).s("\",\"outcome\":\"no fault, matches reference\"}\n");
            (self.out)(w.bytes());
        }
    }

    #[inline(always)]
    unsafe fn call_enter(c: &Case, p1: usize, p2: usize) {
        wv(addr_of_mut!(OPS_NOW), [p1, p2, c.n]);
        enter(c);
    }

    /// memcpy / memmove: dst in A (placement pl1), src in B (pl2)
    pub unsafe fn one_copy(&mut self, f: u8, n: usize, pl1: u8, pl2: u8) {
        let (doff, soff) = (pl_offset(pl1, n), pl_offset(pl2, n));
        let (dp, sp) = (self.a.add(doff), self.b.add(soff));
        let c = Case {
            f,
            n,
            dmis: dp as usize & 15,
            smis: sp as usize & 15,
            pl1: pl1 as i8,
            pl2: pl2 as i8,
            ..Case::ZERO
        };
        let fun = if f == F_MEMCPY { self.ops.memcpy } else { self.ops.memmove };
        Self::call_enter(&c, dp as usize, sp as usize);
        let r = fun(dp, sp, n);
        leave();
        let mut ok = true;
        if self.check_ret && r != dp {
            self.viol(K_RETURN, &c, 0, r as i64 - dp as i64, 0);
            ok = false;
        }
        // destination window: 32 bytes either side (clipped to the region) keep their pattern
        let lo = doff.saturating_sub(32);
        let hi = if doff + n + 32 > DATA { DATA } else { doff + n + 32 };
        let mut i = lo;
        while i < hi {
            let want = if i >= doff && i < doff + n { pat_s(soff + i - doff) } else { pat_d(i) };
            let got = rv(self.a.add(i));
            if got != want {
                let inside = i >= doff && i < doff + n;
                self.viol(if inside { K_WRONG_BYTES } else { K_OUTSIDE }, &c, i as i64 - doff as i64, i64::from(got), i64::from(want));
                ok = false;
                break;
            }
            i += 1;
        }
        // source window unchanged
        let lo = soff.saturating_sub(8);
        let hi = if soff + n + 8 > DATA { DATA } else { soff + n + 8 };
        let mut i = lo;
        while i < hi {
            if rv(self.b.add(i)) != pat_s(i) {
                self.viol(K_SOURCE, &c, i as i64 - soff as i64, i64::from(rv(self.b.add(i))), i64::from(pat_s(i)));
                ok = false;
                break;
            }
            i += 1;
        }
        if ok {
            let mut i = doff;
            while i < doff + n {
                wv(self.a.add(i), pat_d(i));
                i += 1;
            }
        } else {
            self.init();
        }
        self.done(&c, 0, ok);
    }

    pub unsafe fn one_set(&mut self, n: usize, pl1: u8, cint: i32) {
        let doff = pl_offset(pl1, n);
        let dp = self.a.add(doff);
        let c = Case {
            f: F_MEMSET,
            n,
            dmis: dp as usize & 15,
            aux: i64::from(cint),
            pl1: pl1 as i8,
            ..Case::ZERO
        };
        Self::call_enter(&c, dp as usize, 0);
        let r = (self.ops.memset)(dp, cint, n);
        leave();
        let mut ok = true;
        if self.check_ret && r != dp {
            self.viol(K_RETURN, &c, 0, r as i64 - dp as i64, 0);
            ok = false;
        }
        let lo = doff.saturating_sub(32);
        let hi = if doff + n + 32 > DATA { DATA } else { doff + n + 32 };
        let mut i = lo;
        while i < hi {
            let inside = i >= doff && i < doff + n;
            let want = if inside { cint as u8 } else { pat_d(i) };
            let got = rv(self.a.add(i));
            if got != want {
                self.viol(if inside { K_WRONG_BYTES } else { K_OUTSIDE }, &c, i as i64 - doff as i64, i64::from(got), i64::from(want));
                ok = false;
                break;
            }
            i += 1;
        }
        if ok {
            let mut i = doff;
            while i < doff + n {
                wv(self.a.add(i), pat_d(i));
                i += 1;
            }
        } else {
            self.init();
        }
        self.done(&c, 0, ok);
    }

    /// first-difference position for a class, None when the class does not exist for (n, s1)
    fn diff_pos(class: usize, n: usize, s1: usize) -> Option<usize> {
        if n == 0 {
            return None;
        }
        let head = if n >= THRESHOLD { s1.wrapping_neg() & (WORD - 1) } else { 0 };
        let tail = if n >= THRESHOLD { (n - head) & (WORD - 1) } else { 0 };
        match class {
            1 => {
                if n >= THRESHOLD && head == 0 {
                    None
                } else {
                    Some(0) // first byte: the byte head (or, below the threshold, the byte loop)
                }
            }
            2 => {
                let words = if n >= THRESHOLD { (n - head) / WORD } else { 0 };
                if words == 0 {
                    if n >= 3 {
                        Some(n / 2)
                    } else {
                        None
                    }
                } else {
                    Some(head + (words / 2) * WORD + (s1 >> 4) % WORD)
                }
            }
            3 => {
                if tail >= 2 {
                    Some(n - tail)
                } else {
                    None
                }
            }
            _ => {
                if n >= 2 {
                    Some(n - 1)
                } else {
                    None
                }
            }
        }
    }

    /// memcmp / bcmp: s1 in A (pl1), s2 in B (pl2); class 0 = equal, 1..4 see DIFF_NAMES
    pub unsafe fn one_cmp(&mut self, f: u8, n: usize, pl1: u8, pl2: u8, class: usize, gt: bool) {
        let (aoff, boff) = (pl_offset(pl1, n), pl_offset(pl2, n));
        let (a, b) = (self.a.add(aoff), self.b.add(boff));
        let p = if class == 0 {
            n
        } else {
            match Self::diff_pos(class, n, a as usize) {
                Some(p) => p,
                None => return,
            }
        };
        let mut i = 0;
        while i < n {
            let v = 0x20 + pat_s(i + 5 * n) % 0xB0;
            wv(a.add(i), v);
            wv(b.add(i), v);
            i += 1;
        }
        let var = if p >= n {
            0
        } else if gt {
            2
        } else {
            1
        };
        if p < n {
            const PAIRS: [(u8, u8); 4] = [(0x41, 0x42), (0x7f, 0x80), (0x00, 0xff), (0x01, 0x81)];
            let (lo, hi) = PAIRS[(n + p) % 4];
            wv(a.add(p), if gt { hi } else { lo });
            wv(b.add(p), if gt { lo } else { hi });
            let mut q = p + 1;
            while q < n {
                wv(a.add(q), if gt { 0x11 } else { 0xEE });
                wv(b.add(q), if gt { 0xEE } else { 0x11 });
                q += 1;
            }
        }
        let c = Case {
            f,
            n,
            dmis: a as usize & 15,
            smis: b as usize & 15,
            aux: if p < n { p as i64 } else { -1 },
            var,
            pl1: pl1 as i8,
            pl2: pl2 as i8,
            ..Case::ZERO
        };
        let fun = if f == F_MEMCMP { self.ops.memcmp } else { self.ops.bcmp };
        Self::call_enter(&c, a as usize, b as usize);
        let r = fun(a, b, n);
        leave();
        let good = match (f, var) {
            (_, 0) => r == 0,
            (F_MEMCMP, 1) => r < 0,
            (F_MEMCMP, _) => r > 0,
            (_, _) => r != 0,
        };
        let mut ok = true;
        if !good {
            self.viol(K_SIGN, &c, p as i64, i64::from(r), [0, -1, 1][var as usize]);
            ok = false;
        }
        let mut i = 0;
        while i < n {
            wv(a.add(i), pat_d(aoff + i));
            wv(b.add(i), pat_s(boff + i));
            i += 1;
        }
        self.done(&c, class, ok);
    }

    unsafe fn all_functions(&mut self, n: usize, pl1: u8, pl2: u8) {
        self.one_copy(F_MEMCPY, n, pl1, pl2);
        self.one_copy(F_MEMMOVE, n, pl1, pl2);
        let par = (n + pl1 as usize + pl2 as usize) & 1 == 1;
        for f in [F_MEMCMP, F_BCMP] {
            self.one_cmp(f, n, pl1, pl2, 0, false);
            for class in 1..5 {
                self.one_cmp(f, n, pl1, pl2, class, par ^ (class & 1 == 1));
            }
        }
    }

    /// n in 0..=PN_MAX (those with n % nshards == shard): full 32 x 32 placement cross product
    pub unsafe fn sweep_exhaustive(&mut self, shard: usize, nshards: usize, progress: fn(u8, usize)) {
        let mut n = shard;
        while n <= PN_MAX {
            progress(F_MEMCMP, n); // one mark per n: the window holds all five functions
            for pl1 in 0..NPL {
                for pl2 in 0..NPL {
                    self.all_functions(n, pl1, pl2);
                }
                self.one_set(n, pl1, 0xA5);
                self.one_set(n, pl1, 0);
            }
            n += nshards;
        }
    }

    /// larger n around multiples of 8/16/32/64 up to a few KiB: every pair of placement classes
    /// (3 x 3), `draws` random members each
    pub unsafe fn sweep_sampled(&mut self, count: usize, draws: usize, progress: fn(u8, usize)) {
        const BASES: [usize; 12] = [104, 128, 160, 192, 256, 320, 512, 1024, 2048, 3072, 4096, 5120];
        const DELTAS: [isize; 13] = [-9, -8, -7, -1, 0, 1, 7, 8, 9, 15, 16, 17, 33];
        let mut done = 0;
        while done < count {
            let r = self.next();
            let n = if done < BASES.len() * DELTAS.len() {
                (BASES[done / DELTAS.len()] as isize + DELTAS[done % DELTAS.len()]) as usize
            } else {
                // a multiple of 8, 16, 32 or 64, plus or minus a little
                let unit = 8usize << (r % 4);
                let m = unit * (1 + (r >> 8) as usize % (PN_LIMIT / unit - 1));
                let d = DELTAS[(r >> 32) as usize % DELTAS.len()];
                let v = m as isize + d;
                if v <= PN_MAX as isize {
                    m
                } else {
                    v as usize
                }
            };
            let n = if n > PN_LIMIT { PN_LIMIT } else { n };
            progress(F_MEMCMP, n);
            for c1 in 0..3u8 {
                for c2 in 0..3u8 {
                    for _ in 0..draws {
                        let r = self.next();
                        let pick = |c: u8, x: u64| -> u8 {
                            match c {
                                0 => (x % 8) as u8,
                                1 => 8 + (x % 8) as u8,
                                _ => 16 + (x % 16) as u8,
                            }
                        };
                        let (pl1, pl2) = (pick(c1, r), pick(c2, r >> 20));
                        self.all_functions(n, pl1, pl2);
                        self.one_set(n, pl1, 0x5A);
                    }
                }
            }
            done += 1;
        }
    }

    pub fn cell_count(&self) -> usize {
        let mut k = 0;
        for c in self.cells {
            k += c as usize;
        }
        k
    }
    pub fn pair_count(&self) -> usize {
        let mut k = 0;
        for c in self.pairs_seen {
            k += c as usize;
        }
        k
    }
}

pub fn pcell_name(id: usize, w: &mut W) {
    let diff = id % 5;
    let nc = (id / 5) % 6;
    let p2 = (id / 30) % 3;
    let p1 = (id / 90) % 3;
    let f = id / 270;
    w.s(FN_NAMES[f]).s("/");
    let names = if f as u8 == F_MEMCMP || f as u8 == F_BCMP { ["s1", "s2"] } else { ["dst", "src"] };
    w.s(names[0]).s("-").s(PL_CLASS_NAMES[p1]);
    if f as u8 != F_MEMSET {
        w.s("/").s(names[1]).s("-").s(PL_CLASS_NAMES[p2]);
    }
    w.s("/").s(PN_CLASS_NAMES[nc]);
    if f as u8 == F_MEMCMP || f as u8 == F_BCMP {
        w.s("/").s(DIFF_NAMES[diff]);
    }
}

/// To be called from the host's SIGSEGV/SIGBUS handler: writes the verdict line for a fault at
/// `addr` into `w`; returns true when the fault happened inside a call of a function under test.
pub fn fault_line(addr: usize, is_write: bool, sig: i32, via: &str, w: &mut W) -> bool {
    let (c, in_call) = current();
    let ops = unsafe { rv(addr_of!(OPS_NOW)) };
    if !in_call {
        w.s("@@INCONCLUSIVE signal ").i(i64::from(sig)).s(" outside a call of the functions under test (last case ");
        w.case_json(&c).s(")\n");
        return false;
    }
    let n = ops[2];
    let names = if c.f == F_MEMCMP || c.f == F_BCMP { ["s1", "s2"] } else { ["dst", "src"] };
    // which operand's neighbourhood was touched (operands live in different regions)
    let mut what: (&str, &str, i64) = ("", "", 0);
    for i in 0..2 {
        let p = ops[i];
        if p == 0 {
            continue;
        }
        if addr >= p + n && addr < p + n + PAGE {
            what = ("past-end-of-", names[i], (addr - (p + n)) as i64);
        } else if addr < p && addr + PAGE >= p {
            what = ("before-start-of-", names[i], addr as i64 - p as i64);
        }
    }
    w.s("@@VIOL C08/").s(FN_NAMES[c.f as usize]).s("/");
    if what.0.is_empty() {
        w.s("fault-in-call");
    } else {
        w.s(if is_write { "writes-" } else { "reads-" }).s(what.0).s(what.1);
    }
    w.s(" {\"case\":");
    w.case_json(&c).s("},\"via\":\"").s(via).s("\",\"signal\":").i(i64::from(sig));
    w.s(",\"access\":\"").s(if is_write { "write" } else { "read" }).s("\"");
    if !what.0.is_empty() {
        w.s(",\"fault_address_relative\":\"").s(if what.0.starts_with('p') { "end of " } else { "start of " }).s(what.1);
        w.s(if what.2 >= 0 { " +" } else { " " }).i(what.2).s("\"");
    }
    w.s(",\"").s(names[0]).s("_mod_4096\":").u((ops[0] % PAGE) as u64);
    if ops[1] != 0 {
        w.s(",\"").s(names[1]).s("_mod_4096\":").u((ops[1] % PAGE) as u64);
    }
    w.s(",\"what\":\"the access hit the inaccessible page next to the buffer: memory outside [p, p+n) was touched\"}\n");
    true
}
