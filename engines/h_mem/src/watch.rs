//! C08 neighbour watcher (no_std core, shared by `h_mem` and the threaded `mem_probe` variant).
//!
//! C: memset/memcpy/memmove must not WRITE outside [dst, dst+n). A routine that merges its head /
//! tail bytes into the surrounding aligned word (load word, keep the outside bytes, store word)
//! leaves every value intact single-threaded, yet it writes the neighbours: an update of such a
//! neighbour byte by another thread between the load and the store is undone.
//! Here a second thread is the ONLY writer of the 7 bytes before and the 7 bytes after the
//! destination (it increments them); the main thread loops the function on the destination.
//! Before each increment the watcher re-reads the byte: a value other than the one it wrote last
//! proves that somebody else stored to that byte = a write outside the destination.
//! No timing enters the verdict; too few overlapping iterations make a configuration inconclusive.
#![allow(clippy::missing_safety_doc, dead_code)]
use crate::sweep::*;
use core::sync::atomic::{AtomicBool, AtomicU8, Ordering};

pub const NEIGH: usize = 7;

#[derive(Clone, Copy)]
pub struct WRes {
    pub writes: u64,
    pub lost: u64,
    /// first lost update: neighbour offset relative to dst (negative) or to dst+n (>= 0), value written, value found
    pub first_off: i32,
    pub first_wrote: u8,
    pub first_saw: u8,
    pub last: [u8; 2 * NEIGH],
}

#[inline(always)]
fn neighbour(dst: usize, n: usize, k: usize) -> (*const AtomicU8, i32) {
    if k < NEIGH {
        ((dst - 1 - k) as *const AtomicU8, -1 - k as i32)
    } else {
        ((dst + n + (k - NEIGH)) as *const AtomicU8, (k - NEIGH) as i32)
    }
}

/// runs on the second thread until `stop`
pub unsafe fn watcher(dst: usize, n: usize, started: &AtomicBool, stop: &AtomicBool) -> WRes {
    let mut r = WRes {
        writes: 0,
        lost: 0,
        first_off: 0,
        first_wrote: 0,
        first_saw: 0,
        last: [0; 2 * NEIGH],
    };
    for k in 0..2 * NEIGH {
        (*neighbour(dst, n, k).0).store(0, Ordering::Relaxed);
    }
    started.store(true, Ordering::Release);
    while !stop.load(Ordering::Relaxed) {
        for k in 0..2 * NEIGH {
            let (p, off) = neighbour(dst, n, k);
            let g = (*p).load(Ordering::Relaxed);
            if g != r.last[k] {
                if r.lost == 0 {
                    r.first_off = off;
                    r.first_wrote = r.last[k];
                    r.first_saw = g;
                }
                r.lost += 1;
            }
            let v = r.last[k].wrapping_add(1);
            (*p).store(v, Ordering::Relaxed);
            r.last[k] = v;
            r.writes += 1;
        }
    }
    r
}

/// after both threads are done: the neighbours must hold what the watcher wrote last
pub unsafe fn final_check(dst: usize, n: usize, r: &mut WRes) {
    for k in 0..2 * NEIGH {
        let (p, off) = neighbour(dst, n, k);
        let g = (*p).load(Ordering::Relaxed);
        if g != r.last[k] {
            if r.lost == 0 {
                r.first_off = off;
                r.first_wrote = r.last[k];
                r.first_saw = g;
            }
            r.lost += 1;
        }
    }
}

/// the main thread's side: `iters` calls on [dst, dst+n)
pub unsafe fn hammer(ops: &Ops, f: u8, dst: *mut u8, src: *const u8, n: usize, iters: u64) {
    let mut i = 0u64;
    while i < iters {
        match f {
            F_MEMSET => {
                (ops.memset)(dst, (i & 0xff) as i32, n);
            }
            F_MEMCPY => {
                (ops.memcpy)(dst, src, n);
            }
            _ => {
                (ops.memmove)(dst, src, n);
            }
        }
        i += 1;
    }
}

/// (destination address % 8, n): head only, tail only, both, around the word threshold and above
pub const CONFIGS: [(usize, usize); 10] = [(1, 23), (3, 16), (7, 17), (5, 19), (0, 21), (0, 39), (4, 28), (2, 45), (6, 64), (1, 100)];

pub fn report(out: fn(&[u8]), via: &str, f: u8, phase: usize, n: usize, r: &WRes, calls: u64) {
    let mut w = W::new();
    w.s("@@VIOL C08/").s(FN_NAMES[f as usize]).s("/writes-outside-destination {\"fn\":\"").s(FN_NAMES[f as usize]);
    w.s("\",\"n\":").u(n as u64).s(",\"dst_mod_8\":").u(phase as u64).s(",\"via\":\"").s(via);
    w.s("\",\"observer\":\"second thread, sole writer of the 7 bytes before and after the destination\"");
    w.s(",\"neighbour_byte\":\"").s(if r.first_off < 0 { "dst" } else { "dst+n+" }).i(i64::from(r.first_off));
    w.s("\",\"watcher_wrote\":").u(u64::from(r.first_wrote)).s(",\"found_instead\":").u(u64::from(r.first_saw));
    w.s(",\"lost_updates\":").u(r.lost).s(",\"watcher_writes\":").u(r.writes).s(",\"calls\":").u(calls);
    w.s(",\"what\":\"a neighbour byte changed although only the watcher writes it: the call stored outside [dst, dst+n) and undid a concurrent update\"}\n");
    out(w.bytes());
}
