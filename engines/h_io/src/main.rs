//! C15: tiny_std::io Read/Write helpers (read_to_end, read_to_string, read_exact, write_all,
//! write_fmt) against scripted readers/writers and a trivial reference.
//!
//! A scripted reader owns a byte stream and a list of responses; every `read` call consumes
//! one response: `Data(k)` hands over min(k, offered, remaining) bytes, `Eof` returns Ok(0)
//! although data may remain, `Eintr` returns Os{EINTR}, `Fail(kind)` another error. When the
//! script is used up the reader keeps handing over whole buffers until its data ends and then
//! returns Ok(0) forever. It remembers the first *genuine* end it reported (Ok(0) for a
//! non-empty buffer, or a non-EINTR error) together with the stream position at that moment:
//! that pair is the whole reference. The scripted writer is the mirror image.
//!
//! modes (argv: <mode> <seed> <budget> <shard> <nshards>):
//!   exh     exhaustive response scripts up to <budget> responses (readers and writers)
//!   totals  totals 0..=200 x constant chunk sizes x initial len/capacity combinations
//!   utf8    UTF-8 texts split at every byte boundary, invalid sequences, String untouched
//!   errwin  short reads that leave the window partly filled, then an error; resumed histories
//!   fmt     write_fmt templates x writer scripts
//!   random  <budget> random long scripts
//!   miri    stratified sample of all of the above, sized by <budget>
use std::collections::BTreeMap;
use std::fmt;
use tiny_std::io::{Read, Write};
use tiny_std::{Errno, Error};
use vh::Rng;

const FULL: usize = usize::MAX;
const SCRIBBLE: u8 = 0xEE;

#[derive(Copy, Clone, Debug, PartialEq, Eq)]
enum Resp {
    /// hand over / accept up to k bytes (FULL = whatever is offered)
    Data(usize),
    /// Ok(0)
    Eof,
    Eintr,
    Fail(u8),
}

fn script_str(s: &[Resp]) -> String {
    let mut o = String::new();
    for (i, r) in s.iter().enumerate() {
        if i > 0 {
            o.push(',');
        }
        if i >= 48 {
            o.push_str(&format!("...({} responses)", s.len()));
            break;
        }
        match r {
            Resp::Data(FULL) => o.push_str("len"),
            Resp::Data(k) => o.push_str(&k.to_string()),
            Resp::Eof => o.push_str("ZERO"),
            Resp::Eintr => o.push_str("EINTR"),
            Resp::Fail(k) => o.push_str(&format!("ERR{k}")),
        }
    }
    o
}

fn mk_err(k: u8) -> Error {
    match k % 5 {
        0 => Error::Os {
            msg: "scripted-eio",
            code: Errno::EIO,
        },
        1 => Error::Os {
            msg: "scripted-eagain",
            code: Errno::EAGAIN,
        },
        2 => Error::Uncategorized("scripted-uncategorized"),
        3 => Error::Timeout,
        _ => Error::Os {
            msg: "scripted-epipe",
            code: Errno::EPIPE,
        },
    }
}
fn eintr() -> Error {
    Error::Os {
        msg: "scripted-eintr",
        code: Errno::EINTR,
    }
}
fn same_err(e: &Error, k: u8) -> bool {
    match (e, mk_err(k)) {
        (Error::Os { msg: a, code: c }, Error::Os { msg: b, code: d }) => *a == b && *c == d,
        (Error::Uncategorized(a), Error::Uncategorized(b)) => *a == b,
        (Error::Timeout, Error::Timeout) => true,
        _ => false,
    }
}
fn is_eintr(e: &Error) -> bool {
    matches!(e, Error::Os { code, .. } if *code == Errno::EINTR)
}

#[derive(Copy, Clone, Debug, PartialEq, Eq)]
enum End {
    Eof,
    Err(u8),
}

struct SReader<'a> {
    data: &'a [u8],
    pos: usize,
    script: &'a [Resp],
    idx: usize,
    scribble: bool,
    /// first genuine end and the stream position when it was reported
    end: Option<(End, usize)>,
    calls: usize,
    zero_offers: usize,
    eintrs: usize,
    offered: Vec<u32>,
    sink: u8,
}

impl<'a> SReader<'a> {
    fn new(data: &'a [u8], script: &'a [Resp], scribble: bool) -> Self {
        SReader {
            data,
            pos: 0,
            script,
            idx: 0,
            scribble,
            end: None,
            calls: 0,
            zero_offers: 0,
            eintrs: 0,
            offered: Vec::new(),
            sink: 0,
        }
    }
}

impl Read for SReader<'_> {
    fn read(&mut self, buf: &mut [u8]) -> tiny_std::Result<usize> {
        self.calls += 1;
        assert!(self.calls < 200_000, "scripted reader: runaway caller");
        if self.offered.len() < 64 {
            self.offered.push(buf.len() as u32);
        }
        // look at every offered byte: a `&mut [u8]` must be initialised memory (Miri checks)
        // (one memcmp rather than a byte loop: a single intrinsic under Miri, and it still
        // refuses uninitialised bytes)
        static ZEROS: [u8; 8192] = [0u8; 8192];
        let mut off = 0;
        while off < buf.len() {
            let n = (buf.len() - off).min(ZEROS.len());
            self.sink ^= std::hint::black_box(buf[off..off + n] == ZEROS[..n]) as u8;
            off += n;
        }
        if buf.is_empty() {
            // says nothing about the stream; not a genuine end
            self.zero_offers += 1;
            return Ok(0);
        }
        let resp = self.script.get(self.idx).copied().unwrap_or(Resp::Data(FULL));
        self.idx += 1;
        match resp {
            Resp::Data(k) => {
                let n = k.min(buf.len()).min(self.data.len() - self.pos);
                if n == 0 {
                    if self.end.is_none() {
                        self.end = Some((End::Eof, self.pos));
                    }
                    return Ok(0);
                }
                buf[..n].copy_from_slice(&self.data[self.pos..self.pos + n]);
                if self.scribble {
                    buf[n..].fill(SCRIBBLE);
                }
                self.pos += n;
                Ok(n)
            }
            Resp::Eof => {
                if self.end.is_none() {
                    self.end = Some((End::Eof, self.pos));
                }
                Ok(0)
            }
            Resp::Eintr => {
                self.eintrs += 1;
                if self.scribble {
                    buf.fill(SCRIBBLE);
                }
                Err(eintr())
            }
            Resp::Fail(k) => {
                if self.end.is_none() {
                    self.end = Some((End::Err(k), self.pos));
                }
                Err(mk_err(k))
            }
        }
    }
}

#[derive(Copy, Clone, Debug, PartialEq, Eq)]
enum WEnd {
    Zero,
    Err(u8),
}

struct SWriter<'a> {
    script: &'a [Resp],
    idx: usize,
    sink: Vec<u8>,
    end: Option<(WEnd, usize)>,
    calls: usize,
    zero_offers: usize,
    eintrs: usize,
    offered: Vec<u32>,
    flushes: usize,
}

impl<'a> SWriter<'a> {
    fn new(script: &'a [Resp]) -> Self {
        SWriter {
            script,
            idx: 0,
            sink: Vec::new(),
            end: None,
            calls: 0,
            zero_offers: 0,
            eintrs: 0,
            offered: Vec::new(),
            flushes: 0,
        }
    }
}

impl Write for SWriter<'_> {
    fn write(&mut self, buf: &[u8]) -> tiny_std::Result<usize> {
        self.calls += 1;
        assert!(self.calls < 200_000, "scripted writer: runaway caller");
        if self.offered.len() < 64 {
            self.offered.push(buf.len() as u32);
        }
        if buf.is_empty() {
            self.zero_offers += 1;
            return Ok(0);
        }
        let resp = self.script.get(self.idx).copied().unwrap_or(Resp::Data(FULL));
        self.idx += 1;
        match resp {
            Resp::Data(k) => {
                let n = k.min(buf.len()).max(1);
                self.sink.extend_from_slice(&buf[..n]);
                Ok(n)
            }
            Resp::Eof => {
                if self.end.is_none() {
                    self.end = Some((WEnd::Zero, self.sink.len()));
                }
                Ok(0)
            }
            Resp::Eintr => {
                self.eintrs += 1;
                Err(eintr())
            }
            Resp::Fail(k) => {
                if self.end.is_none() {
                    self.end = Some((WEnd::Err(k), self.sink.len()));
                }
                Err(mk_err(k))
            }
        }
    }
    fn flush(&mut self) -> tiny_std::Result<()> {
        self.flushes += 1;
        Ok(())
    }
}

// ------------------------------------------------------------------------------------------
#[derive(Default)]
struct St {
    evals: u64,
    viols: u64,
    c: BTreeMap<&'static str, u64>,
    sample_tick: u64,
    /// time budget of the current stratum (Miri runs only; which cases run never decides a verdict)
    deadline: Option<std::time::Instant>,
    skipped: u64,
    sigs: BTreeMap<String, u64>,
    seen: std::collections::BTreeSet<u64>,
}
impl St {
    fn bump(&mut self, k: &'static str) {
        *self.c.entry(k).or_insert(0) += 1;
    }
    fn add(&mut self, k: &'static str, n: u64) {
        *self.c.entry(k).or_insert(0) += n;
    }
    fn viol(&mut self, sig: &str, detail: String) {
        self.viols += 1;
        let per_sig = self.sigs.entry(sig.to_string()).or_insert(0);
        *per_sig += 1;
        if *per_sig <= 3 && self.sigs.len() <= 200 {
            vh::viol(sig, &detail);
        }
    }
    fn past(&self) -> bool {
        self.deadline.is_some_and(|d| std::time::Instant::now() >= d)
    }
    fn expired(&mut self) -> bool {
        if let Some(d) = self.deadline {
            if std::time::Instant::now() >= d {
                self.skipped += 1;
                return true;
            }
        }
        false
    }
    /// format the class key only the first time its numeric fingerprint shows up
    fn distinct(&mut self, fp: u64, key: impl FnOnce() -> String) {
        if self.seen.insert(fp) {
            vh::distinct(&key());
        }
    }
    fn want_sample(&mut self) -> bool {
        self.sample_tick += 1;
        self.sample_tick % 4099 == 17 || self.sample_tick == 3
    }
    fn flush(&self) {
        vh::eval(self.evals);
        if self.skipped > 0 {
            vh::count("cases_skipped_after_time_budget", self.skipped);
        }
        for (k, v) in &self.c {
            vh::count(k, *v);
        }
    }
}

fn flags(script: &[Resp]) -> String {
    let mut i = false;
    let mut f = false;
    let mut z = false;
    for r in script {
        match r {
            Resp::Eintr => i = true,
            Resp::Fail(_) => f = true,
            Resp::Eof => z = true,
            Resp::Data(_) => {}
        }
    }
    format!(
        "{}{}{}",
        if i { "I" } else { "-" },
        if f { "F" } else { "-" },
        if z { "Z" } else { "-" }
    )
}
/// cheap fingerprint of one of the short class names used below
fn sid(s: &str) -> u64 {
    let b = s.as_bytes();
    if b.is_empty() {
        return 0;
    }
    (b.len() as u64) * 65_536 + u64::from(b[0]) * 256 + u64::from(b[b.len() - 1])
}
fn fmask(script: &[Resp]) -> u64 {
    let mut m = 0;
    for r in script {
        match r {
            Resp::Eintr => m |= 1,
            Resp::Fail(_) => m |= 2,
            Resp::Eof => m |= 4,
            Resp::Data(_) => {}
        }
    }
    m
}
fn fp(parts: &[u64]) -> u64 {
    let mut h = 0x1234_5678u64;
    for p in parts {
        h = (h ^ p).wrapping_mul(0x0000_0100_0000_01B3).rotate_left(17);
    }
    h
}
fn nbucket(n: usize) -> &'static str {
    match n {
        0 => "n0",
        1..=2 => "n1-2",
        3..=6 => "n3-6",
        _ => "n7+",
    }
}
fn tot_class(n: usize) -> &'static str {
    match n {
        0 => "t0",
        1..=31 => "t<32",
        32 => "t32",
        33..=64 => "t33-64",
        _ => "t>64",
    }
}

fn data_bytes(n: usize, salt: u64) -> Vec<u8> {
    // printable ASCII, position dependent (neighbours differ, period 95); a slice of one table
    static BASE: std::sync::OnceLock<Vec<u8>> = std::sync::OnceLock::new();
    let base = BASE.get_or_init(|| {
        let mut v = Vec::with_capacity(1024);
        let mut x = 0u32;
        for i in 0..1024u32 {
            v.push(0x20 + ((x + i / 95) % 0x5f) as u8);
            x = (x + 7) % 0x5f;
        }
        v
    });
    let off = (salt % 95) as usize;
    assert!(off + n <= base.len());
    base[off..off + n].to_vec()
}
fn initial_bytes(n: usize) -> Vec<u8> {
    // valid UTF-8 too (ASCII), disjoint from SCRIBBLE
    (0..n).map(|i| b'A' + (i % 26) as u8).collect()
}

fn detail(
    helper: &str,
    data: &[u8],
    script: &[Resp],
    extra: &str,
    got: &str,
    want: &str,
    offered: &[u32],
) -> String {
    format!(
        "{{\"helper\":{},\"script\":{},\"stream_len\":{},\"stream\":{},{}\"got\":{},\"want\":{},\"offered_lens\":{}}}",
        vh::js(helper),
        vh::js(&script_str(script)),
        data.len(),
        vh::jb(data),
        extra,
        vh::js(got),
        vh::js(want),
        vh::js(&format!("{offered:?}"))
    )
}

/// read_to_end
fn run_rte(st: &mut St, data: &[u8], script: &[Resp], init_len: usize, cap: usize, scribble: bool) {
    if st.expired() {
        return;
    }
    let initial = initial_bytes(init_len);
    let mut v: Vec<u8> = Vec::with_capacity(cap.max(init_len));
    v.extend_from_slice(&initial);
    let start_cap = v.capacity();
    let mut r = SReader::new(data, script, scribble);
    let res = vh::catch(|| r.read_to_end(&mut v));
    st.evals += 1;
    st.bump("read_to_end_runs");
    st.add("reader_calls", r.calls as u64);
    st.add("reader_eintr_responses", r.eintrs as u64);
    let extra = || {
        format!("\"initial_len\":{init_len},\"initial_capacity\":{start_cap},\"scribble\":{scribble},")
    };
    let bad = |st: &mut St, what: &str, got: String, want: String| {
        st.viol(
            &format!("C15/read_to_end/{what}"),
            detail("read_to_end", data, script, &extra(), &got, &want, &r.offered),
        );
    };
    let exact_fit = start_cap == init_len + data.len() && !data.is_empty();
    let outcome;
    match (&res, r.end) {
        (Err(p), _) => {
            outcome = "panic";
            bad(st, "panic", p.clone(), "no panic".into());
        }
        (Ok(Ok(n)), Some((End::Eof, p))) => {
            outcome = "ok";
            if v.len() < init_len || v[..init_len] != initial[..] {
                bad(st, "initial-content-changed", vh::jb(&v), vh::jb(&initial));
            } else if v[init_len..] != data[..p] {
                bad(
                    st,
                    "content",
                    format!("appended {}", vh::jb(&v[init_len..])),
                    format!("appended {}", vh::jb(&data[..p])),
                );
            } else if *n != p {
                bad(st, "count", format!("Ok({n})"), format!("Ok({p})"));
            }
            if exact_fit && p == data.len() && v.capacity() == start_cap {
                st.bump("read_to_end_exact_fit_no_growth");
            }
            if exact_fit {
                st.bump("read_to_end_exact_fit_cases");
            }
        }
        (Ok(Ok(n)), None) => {
            outcome = "early";
            let what = if r.zero_offers > 0 {
                "zero-length-read-taken-as-eof"
            } else {
                "stopped-before-end"
            };
            bad(st, what, format!("Ok({n}) after {} bytes", r.pos), "keep reading until Ok(0) or an error".into());
        }
        (Ok(Ok(n)), Some((End::Err(k), _))) => {
            outcome = "swallowed";
            bad(st, "error-swallowed", format!("Ok({n})"), format!("Err({})", mk_err(k)));
        }
        (Ok(Err(e)), Some((End::Err(k), p))) => {
            outcome = "err";
            if !same_err(e, k) {
                bad(st, "error-changed", format!("{e}"), format!("{}", mk_err(k)));
            } else if v.len() < init_len || v[..init_len] != initial[..] {
                bad(st, "initial-content-changed", vh::jb(&v), vh::jb(&initial));
            } else if v[init_len..] != data[..p] {
                // everything the reader handed over before the error has to be in the buffer
                // (std's documented contract, and what the unchanged code does): nothing of
                // it may be dropped, nothing else appended
                let app = &v[init_len..];
                let what = if app.len() < p && *app == data[..app.len()] {
                    "consumed-bytes-lost-on-error"
                } else {
                    "content-on-error"
                };
                bad(
                    st,
                    what,
                    format!("appended {} ({} bytes)", vh::jb(app), app.len()),
                    format!("appended {} (all {p} bytes handed over before the error)", vh::jb(&data[..p])),
                );
            }
        }
        (Ok(Err(e)), other) => {
            outcome = "invented";
            let what = if is_eintr(e) { "eintr-surfaced" } else { "error-invented" };
            bad(st, what, format!("{e}"), format!("reader end state {other:?}"));
        }
    }
    let init_class = if init_len == 0 && start_cap == 0 {
        "empty"
    } else if exact_fit {
        "exactfit"
    } else if start_cap == init_len {
        "full"
    } else {
        "spare"
    };
    let (nb, tc) = (nbucket(script.len()), tot_class(data.len()));
    st.distinct(fp(&[1, sid(nb), fmask(script), sid(tc), sid(init_class), sid(outcome)]), || {
        format!("rte/{nb}/{}/{tc}/{init_class}/{outcome}", flags(script))
    });
    if st.want_sample() {
        vh::sample(
            &format!(
                "{{\"helper\":\"read_to_end\",\"script\":{},\"stream_len\":{},\"initial_len\":{init_len},\"initial_capacity\":{start_cap},\"offered_lens\":{},\"result\":{},\"reader_end\":{}}}",
                vh::js(&script_str(script)),
                data.len(),
                vh::js(&format!("{:?}", r.offered)),
                vh::js(&format!("{res:?}")),
                vh::js(&format!("{:?}", r.end))
            ),
            5,
        );
    }
}

/// read_to_string; `data` may be invalid UTF-8
fn run_rts(st: &mut St, data: &[u8], script: &[Resp], initial: &str, cap_extra: usize, scribble: bool) {
    if st.expired() {
        return;
    }
    let mut s = String::with_capacity(initial.len() + cap_extra);
    s.push_str(initial);
    let start_cap = s.capacity();
    let mut r = SReader::new(data, script, scribble);
    let res = vh::catch(|| r.read_to_string(&mut s));
    st.evals += 1;
    st.bump("read_to_string_runs");
    st.add("reader_calls", r.calls as u64);
    let extra = || {
        format!(
            "\"initial\":{},\"initial_capacity\":{start_cap},\"scribble\":{scribble},",
            vh::js(initial)
        )
    };
    let bad = |st: &mut St, what: &str, got: String, want: String| {
        st.viol(
            &format!("C15/read_to_string/{what}"),
            detail("read_to_string", data, script, &extra(), &got, &want, &r.offered),
        );
    };
    let il = initial.len();
    let sb = s.as_bytes();
    let outcome;
    // the String invariant must hold whatever happened
    if std::str::from_utf8(sb).is_err() {
        bad(st, "string-holds-invalid-utf8", vh::jb(sb), "valid UTF-8".into());
    }
    match (&res, r.end) {
        (Err(p), _) => {
            outcome = "panic";
            bad(st, "panic", p.clone(), "no panic".into());
        }
        (Ok(Ok(n)), Some((End::Eof, p))) => {
            if std::str::from_utf8(&data[..p]).is_ok() {
                outcome = "ok";
                if sb.len() < il || &sb[..il] != initial.as_bytes() {
                    bad(st, "initial-content-changed", vh::jb(sb), vh::js(initial));
                } else if sb[il..] != data[..p] {
                    bad(st, "content", vh::jb(&sb[il..]), vh::jb(&data[..p]));
                } else if *n != p {
                    bad(st, "count", format!("Ok({n})"), format!("Ok({p})"));
                }
            } else {
                outcome = "accepted-invalid";
                bad(st, "invalid-utf8-accepted", format!("Ok({n}), string {}", vh::jb(sb)), "Err, string unchanged".into());
            }
        }
        (Ok(Ok(n)), None) => {
            outcome = "early";
            bad(st, "stopped-before-end", format!("Ok({n}) after {} bytes", r.pos), "keep reading".into());
        }
        (Ok(Ok(n)), Some((End::Err(k), _))) => {
            outcome = "swallowed";
            bad(st, "error-swallowed", format!("Ok({n})"), format!("Err({})", mk_err(k)));
        }
        (Ok(Err(e)), Some((End::Eof, p))) => {
            if std::str::from_utf8(&data[..p]).is_ok() {
                outcome = "invented";
                bad(st, "error-invented", format!("{e}"), format!("Ok({p})"));
            } else {
                outcome = "invalid-rejected";
                st.bump("read_to_string_invalid_utf8_rejected");
                if is_eintr(e) {
                    bad(st, "eintr-surfaced", format!("{e}"), "a UTF-8 error".into());
                }
                if sb != initial.as_bytes() {
                    bad(st, "string-changed-after-invalid-utf8", vh::jb(sb), vh::js(initial));
                }
            }
        }
        (Ok(Err(e)), Some((End::Err(k), p))) => {
            outcome = "err";
            if !same_err(e, k) {
                bad(st, "error-changed", format!("{e}"), format!("{}", mk_err(k)));
            } else if sb.len() < il || &sb[..il] != initial.as_bytes() {
                bad(st, "initial-content-changed", vh::jb(sb), vh::js(initial));
            } else if std::str::from_utf8(&data[..p]).is_ok() {
                // handed-over bytes are valid UTF-8 at the moment of the error: all of them are kept
                if sb[il..] != data[..p] {
                    let app = &sb[il..];
                    let what = if app.len() < p && *app == data[..app.len()] {
                        "consumed-bytes-lost-on-error"
                    } else {
                        "content-on-error"
                    };
                    bad(st, what, vh::jb(app), format!("{} (all {p} bytes handed over before the error)", vh::jb(&data[..p])));
                }
            } else if sb != initial.as_bytes() {
                // invalid or incomplete tail at the moment of the error: the unchanged code (like
                // std) rolls the String back to what it was, nothing is appended
                bad(st, "string-changed-after-invalid-utf8", vh::jb(sb), vh::js(initial));
            }
        }
        (Ok(Err(e)), None) => {
            outcome = "invented";
            let what = if is_eintr(e) { "eintr-surfaced" } else { "error-invented" };
            bad(st, what, format!("{e}"), "no error yet".into());
        }
    }
    let multibyte = data.iter().any(|b| *b >= 0x80);
    let (nb, tc) = (nbucket(script.len()), tot_class(data.len()));
    let (mbs, ins) = (if multibyte { "mb" } else { "ascii" }, if initial.is_empty() { "i0" } else { "i+" });
    st.distinct(fp(&[2, sid(nb), fmask(script), sid(tc), sid(mbs), sid(ins), sid(outcome)]), || {
        format!("rts/{nb}/{}/{tc}/{mbs}/{ins}/{outcome}", flags(script))
    });
    if st.want_sample() {
        vh::sample(
            &format!(
                "{{\"helper\":\"read_to_string\",\"script\":{},\"stream\":{},\"initial\":{},\"result\":{},\"string_after\":{}}}",
                vh::js(&script_str(script)),
                vh::jb(data),
                vh::js(initial),
                vh::js(&format!("{res:?}")),
                vh::jb(s.as_bytes())
            ),
            5,
        );
    }
}

/// Resumed history: call, Err, call again on the same reader and the same buffer, ... until Ok.
/// After every call the buffer must be initial ++ everything the reader has handed out so far.
fn run_resume(st: &mut St, data: &[u8], script: &[Resp], init_len: usize, cap: usize, as_string: bool) {
    if st.expired() {
        return;
    }
    let initial = initial_bytes(init_len);
    let mut v: Vec<u8> = Vec::with_capacity(cap.max(init_len));
    v.extend_from_slice(&initial);
    // `data` is ASCII here, so the String form never meets invalid UTF-8
    let mut sbuf = String::from_utf8(v.clone()).unwrap();
    if as_string {
        sbuf.reserve_exact(cap.saturating_sub(init_len));
    }
    let helper = if as_string { "read_to_string" } else { "read_to_end" };
    let mut r = SReader::new(data, script, false);
    let mut calls = 0u32;
    let mut errors = 0u32;
    let outcome;
    loop {
        r.end = None;
        let before = if as_string { sbuf.len() } else { v.len() };
        let res = if as_string {
            vh::catch(|| r.read_to_string(&mut sbuf))
        } else {
            vh::catch(|| r.read_to_end(&mut v))
        };
        calls += 1;
        st.evals += 1;
        let cur: &[u8] = if as_string { sbuf.as_bytes() } else { &v };
        let extra = format!("\"initial_len\":{init_len},\"capacity\":{cap},\"resumed_call\":{calls},");
        let mut bad = |st: &mut St, what: &str, got: String, want: String| {
            st.viol(
                &format!("C15/{helper}/{what}"),
                detail(helper, data, script, &extra, &got, &want, &r.offered),
            );
        };
        let whole_ok = cur.len() == init_len + r.pos && cur[..init_len] == initial[..] && cur[init_len..] == data[..r.pos];
        match (&res, r.end) {
            (Err(p), _) => {
                bad(st, "panic", p.clone(), "no panic".into());
                outcome = "panic";
                break;
            }
            (Ok(Err(e)), Some((End::Err(k), _))) if same_err(e, k) => {
                errors += 1;
                if !whole_ok {
                    let lost = cur.len() < init_len + r.pos && cur.len() >= init_len && cur[init_len..] == data[..cur.len() - init_len];
                    bad(
                        st,
                        if lost { "consumed-bytes-lost-on-error" } else { "content-on-error" },
                        format!("after the error the buffer holds {} appended bytes: {}", cur.len().saturating_sub(init_len), vh::jb(&cur[init_len.min(cur.len())..])),
                        format!("all {} bytes handed out so far: {}", r.pos, vh::jb(&data[..r.pos])),
                    );
                    outcome = "lost";
                    break;
                }
                if calls >= 12 {
                    outcome = "many-errors";
                    break;
                }
            }
            (Ok(Ok(n)), Some((End::Eof, _))) => {
                if !whole_ok {
                    bad(
                        st,
                        "resumed-history-not-the-concatenation",
                        format!("{} appended bytes: {}", cur.len().saturating_sub(init_len), vh::jb(&cur[init_len.min(cur.len())..])),
                        format!("{}", vh::jb(&data[..r.pos])),
                    );
                    outcome = "wrong";
                } else if *n != cur.len() - before {
                    bad(st, "count", format!("Ok({n})"), format!("Ok({})", cur.len() - before));
                    outcome = "count";
                } else {
                    outcome = if errors > 0 { "resumed-ok" } else { "ok" };
                }
                break;
            }
            (other, end) => {
                bad(st, "resumed-history-unexpected-result", format!("{other:?}"), format!("reader end {end:?}"));
                outcome = "unexpected";
                break;
            }
        }
    }
    st.bump("resumed_history_runs");
    if errors > 0 {
        st.bump("resumed_history_runs_with_error_then_continue");
    }
    let (nb, tc) = (nbucket(script.len()), tot_class(data.len()));
    let ec = match errors {
        0 => "e0",
        1 => "e1",
        _ => "e2+",
    };
    st.distinct(fp(&[6, u64::from(as_string), sid(nb), fmask(script), sid(tc), sid(ec), sid(outcome)]), || {
        format!("resume/{helper}/{nb}/{}/{tc}/{ec}/{outcome}", flags(script))
    });
    if st.want_sample() {
        vh::sample(
            &format!(
                "{{\"helper\":{},\"case\":\"resumed history\",\"script\":{},\"stream_len\":{},\"initial_len\":{init_len},\"capacity\":{cap},\"calls\":{calls},\"errors_surfaced\":{errors},\"outcome\":{}}}",
                vh::js(helper),
                vh::js(&script_str(script)),
                data.len(),
                vh::js(outcome)
            ),
            5,
        );
    }
}

/// Error inside a partly filled window: one or two short reads that do not fill the spare
/// capacity, optional EINTR, then a non-EINTR error; window sizes around the 32-byte probe /
/// growth thresholds, exact-fit capacities, the error also after growth and in the probe read.
fn errwin(st: &mut St, seed: u64, shard: u64, nshards: u64, light: bool) {
    let windows: &[usize] = if light { &[0, 2, 32, 33] } else { &[0, 1, 2, 3, 31, 32, 33, 34, 63, 64, 65] };
    let inits: &[usize] = if light { &[0, 5] } else { &[0, 5, 32] };
    let mut g = 0u64;
    for &w in windows {
        for &il in inits {
            g += 1;
            if g % nshards != shard % nshards {
                continue;
            }
            let mut firsts = vec![1usize, 2, 31, 32, 33];
            if w > 1 {
                firsts.push(w - 1);
                firsts.push(w);
            }
            for &k1 in &firsts {
                for second in [0usize, 1, 30] {
                    for eintr in [false, true] {
                        for kind in 0..5u8 {
                            if light && kind > 1 {
                                continue;
                            }
                            let mut script = vec![Resp::Data(k1)];
                            if second > 0 {
                                script.push(Resp::Data(second));
                            }
                            if eintr {
                                script.push(Resp::Eintr);
                            }
                            script.push(Resp::Fail(kind));
                            // a second error later on, after more data
                            script.extend([Resp::Data(7), Resp::Eintr, Resp::Fail((kind + 1) % 5)]);
                            let used = k1 + second;
                            for total in [used, used + 1, w, w + 1, w + 40, used + 7] {
                                let data = data_bytes(total, mix(seed, g));
                                run_rte(st, &data, &script, il, il + w, kind % 2 == 0);
                                run_resume(st, &data, &script, il, il + w, false);
                                run_resume(st, &data, &script, il, il + w, true);
                                run_rts(st, &data, &script, if il == 0 { "" } else { "seed-é" }, w, false);
                                st.bump("error_in_partial_window_cases");
                            }
                        }
                    }
                }
            }
        }
    }
}

/// read_exact into a buffer of `want_len` bytes
fn run_rex(st: &mut St, data: &[u8], script: &[Resp], want_len: usize, scribble: bool) {
    if st.expired() {
        return;
    }
    let mut buf = vec![0xCCu8; want_len];
    let mut r = SReader::new(data, script, scribble);
    let res = vh::catch(|| r.read_exact(&mut buf));
    st.evals += 1;
    st.bump("read_exact_runs");
    st.add("reader_calls", r.calls as u64);
    let extra = || format!("\"buffer_len\":{want_len},\"scribble\":{scribble},");
    let bad = |st: &mut St, what: &str, got: String, want: String| {
        st.viol(
            &format!("C15/read_exact/{what}"),
            detail("read_exact", data, script, &extra(), &got, &want, &r.offered),
        );
    };
    let outcome;
    match (&res, r.end) {
        (Err(p), _) => {
            outcome = "panic";
            bad(st, "panic", p.clone(), "no panic".into());
        }
        (Ok(Ok(())), _) => {
            outcome = "ok";
            if data.len() < want_len || r.pos < want_len {
                bad(st, "success-without-full-fill", format!("Ok(()) after {} bytes", r.pos), format!("{want_len} bytes"));
            } else if buf[..] != data[..want_len] {
                bad(st, "content", vh::jb(&buf), vh::jb(&data[..want_len]));
            } else if r.pos != want_len {
                bad(st, "over-read", format!("{} bytes taken", r.pos), format!("{want_len}"));
            }
        }
        (Ok(Err(e)), Some((End::Eof, p))) => {
            outcome = "eof";
            if p >= want_len {
                bad(st, "failure-with-enough-data", format!("{e}"), "Ok(())".into());
            } else if is_eintr(e) {
                bad(st, "eintr-surfaced", format!("{e}"), "an end-of-stream error".into());
            }
        }
        (Ok(Err(e)), Some((End::Err(k), p))) => {
            outcome = "err";
            if p >= want_len {
                bad(st, "failure-with-enough-data", format!("{e}"), "Ok(())".into());
            } else if !same_err(e, k) {
                bad(st, "error-changed", format!("{e}"), format!("{}", mk_err(k)));
            }
        }
        (Ok(Err(e)), None) => {
            outcome = "invented";
            let what = if is_eintr(e) {
                "eintr-surfaced"
            } else if r.pos >= want_len {
                "failure-with-enough-data"
            } else {
                "error-invented"
            };
            bad(st, what, format!("{e}"), "no error yet".into());
        }
    }
    let (nb, tc) = (nbucket(script.len()), tot_class(want_len));
    let en = if data.len() >= want_len { "enough" } else { "short" };
    st.distinct(fp(&[3, sid(nb), fmask(script), sid(tc), sid(en), sid(outcome)]), || {
        format!("rex/{nb}/{}/{tc}/{en}/{outcome}", flags(script))
    });
    if st.want_sample() {
        vh::sample(
            &format!(
                "{{\"helper\":\"read_exact\",\"script\":{},\"stream_len\":{},\"buffer_len\":{want_len},\"offered_lens\":{},\"result\":{}}}",
                vh::js(&script_str(script)),
                data.len(),
                vh::js(&format!("{:?}", r.offered)),
                vh::js(&format!("{res:?}"))
            ),
            5,
        );
    }
}

fn judge_writer(
    st: &mut St,
    helper: &'static str,
    src: &[u8],
    script: &[Resp],
    w: &SWriter<'_>,
    res: &Result<tiny_std::Result<()>, String>,
    extra: &str,
) -> &'static str {
    let bad = |st: &mut St, what: &str, got: String, want: String| {
        st.viol(
            &format!("C15/{helper}/{what}"),
            detail(helper, src, script, extra, &got, &want, &w.offered),
        );
    };
    let in_order = w.sink.len() <= src.len() && w.sink[..] == src[..w.sink.len()];
    match (res, w.end) {
        (Err(p), _) => {
            bad(st, "panic", p.clone(), "no panic".into());
            "panic"
        }
        (Ok(Ok(())), Some((WEnd::Err(k), _))) => {
            bad(st, "error-swallowed", "Ok(())".into(), format!("Err({})", mk_err(k)));
            "swallowed"
        }
        (Ok(Ok(())), _) => {
            if w.sink[..] != *src {
                let what = if w.sink.len() < src.len() && in_order {
                    "bytes-lost"
                } else if w.sink.len() > src.len() {
                    "bytes-duplicated"
                } else {
                    "bytes-out-of-order"
                };
                bad(st, what, vh::jb(&w.sink), vh::jb(src));
            }
            "ok"
        }
        (Ok(Err(e)), Some((WEnd::Err(k), _))) => {
            if !same_err(e, k) {
                bad(st, "error-changed", format!("{e}"), format!("{}", mk_err(k)));
            } else if !in_order {
                bad(st, "bytes-out-of-order", vh::jb(&w.sink), format!("a prefix of {}", vh::jb(src)));
            }
            "err"
        }
        (Ok(Err(e)), Some((WEnd::Zero, _))) => {
            if is_eintr(e) {
                bad(st, "eintr-surfaced", format!("{e}"), "a write-zero error".into());
            } else if !in_order {
                bad(st, "bytes-out-of-order", vh::jb(&w.sink), format!("a prefix of {}", vh::jb(src)));
            }
            "zero"
        }
        (Ok(Err(e)), None) => {
            let what = if is_eintr(e) { "eintr-surfaced" } else { "error-invented" };
            bad(st, what, format!("{e}"), "Ok(())".into());
            "invented"
        }
    }
}

fn run_wall(st: &mut St, src: &[u8], script: &[Resp]) {
    if st.expired() {
        return;
    }
    let mut w = SWriter::new(script);
    let res = vh::catch(|| w.write_all(src));
    st.evals += 1;
    st.bump("write_all_runs");
    st.add("writer_calls", w.calls as u64);
    let outcome = judge_writer(st, "write_all", src, script, &w, &res, "");
    let (nb, tc) = (nbucket(script.len()), tot_class(src.len()));
    st.distinct(fp(&[4, sid(nb), fmask(script), sid(tc), sid(outcome)]), || {
        format!("wall/{nb}/{}/{tc}/{outcome}", flags(script))
    });
    if st.want_sample() {
        vh::sample(
            &format!(
                "{{\"helper\":\"write_all\",\"script\":{},\"source_len\":{},\"offered_lens\":{},\"result\":{},\"accepted_len\":{}}}",
                vh::js(&script_str(script)),
                src.len(),
                vh::js(&format!("{:?}", w.offered)),
                vh::js(&format!("{res:?}")),
                w.sink.len()
            ),
            5,
        );
    }
}

// ---- write_fmt --------------------------------------------------------------------------
struct TArgs {
    s1: String,
    s2: String,
    n1: i64,
    n2: u32,
    f: f64,
    c: char,
    v: Vec<String>,
    long: String,
}
/// Display that fails after writing a little
struct Failing;
impl fmt::Display for Failing {
    fn fmt(&self, f: &mut fmt::Formatter<'_>) -> fmt::Result {
        f.write_str("<f>")?;
        Err(fmt::Error)
    }
}
const N_TMPL: usize = 12;
const FAILING_TMPL: usize = 12;
fn with_tmpl<R>(i: usize, a: &TArgs, f: impl FnOnce(fmt::Arguments<'_>) -> R) -> R {
    match i {
        0 => f(format_args!("")),
        1 => f(format_args!("plain literal only, no arguments at all")),
        2 => f(format_args!("{}", a.s1)),
        3 => f(format_args!("a={} b={} c={}", a.n1, a.s1, a.n2)),
        4 => f(format_args!("[{:>8}|{:<6}|{:^7}]", a.s1, a.n1, a.s2)),
        5 => f(format_args!("{:?}{:#x}{:08.3}{}", a.s2, a.n2, a.f, a.c)),
        6 => f(format_args!("{}{}{}{}{}{}{}{}", a.c, a.n1, a.s1, a.n2, a.s2, a.f, a.c, a.n1)),
        7 => f(format_args!("pre{{}}{}post{{{}}}", a.s1, a.n2)),
        8 => f(format_args!("{0}{1}{0}{1}-{0}", a.s1, a.s2)),
        9 => f(format_args!("{:?}", a.v)),
        10 => f(format_args!("<<{}>>{}", a.long, a.s1)),
        11 => f(format_args!("{:#?}|{:e}|{:+}|{:>width$}|", a.v, a.f, a.n1, a.s2, width = (a.n2 % 40) as usize)),
        _ => f(format_args!("head {} mid{}tail {}", a.s1, Failing, a.s2)),
    }
}
fn mk_targs(r: &mut Rng) -> TArgs {
    let words = ["", "x", "hello", "héllo wörld", "日本語", "𝄞clef", "a b\tc\n", "0123456789012345678901234567890123456789"];
    let pick = |r: &mut Rng| -> String { (*r.pick(&words)).to_string() };
    let nv = r.below(4) as usize;
    TArgs {
        s1: pick(r),
        s2: pick(r),
        n1: match r.below(4) {
            0 => i64::MIN,
            1 => i64::MAX,
            2 => 0,
            _ => r.next() as i64 >> r.below(63),
        },
        n2: (r.next() >> r.below(40)) as u32,
        f: (r.below(2_000_001) as f64 - 1e6) / 64.0,
        c: *r.pick(&['a', 'é', '€', '𝄞', '\n']),
        v: (0..nv).map(|_| pick(r)).collect(),
        long: "L".repeat(r.below(300) as usize),
    }
}

fn run_wfmt(st: &mut St, tmpl: usize, a: &TArgs, script: &[Resp]) {
    if st.expired() {
        return;
    }
    let failing = tmpl >= FAILING_TMPL;
    let expected: Vec<u8> = if failing {
        format!("head {} mid<f>", a.s1).into_bytes()
    } else {
        with_tmpl(tmpl, a, |args| fmt::format(args)).into_bytes()
    };
    let mut w = SWriter::new(script);
    let res = vh::catch(|| with_tmpl(tmpl, a, |args| w.write_fmt(args)));
    st.evals += 1;
    st.bump("write_fmt_runs");
    st.add("writer_calls", w.calls as u64);
    let extra = format!("\"template\":{tmpl},");
    let outcome;
    if failing && w.end.is_none() {
        // the formatter itself fails: an error must come back, everything before it delivered once
        match &res {
            Ok(Err(e)) if !is_eintr(e) && w.sink == expected => outcome = "fmt-error",
            other => {
                outcome = "fmt-error-bad";
                st.viol(
                    "C15/write_fmt/formatter-error-handling",
                    detail("write_fmt", &expected, script, &extra, &format!("{other:?} sink {}", vh::jb(&w.sink)), "Err and the pieces before the failing argument", &w.offered),
                );
            }
        }
    } else if failing {
        // writer ended first (or at least also): its error / zero decides
        let r2 = res.clone();
        outcome = match (&r2, w.end) {
            (Ok(Err(e)), Some((WEnd::Err(k), _))) if same_err(e, k) => "err",
            (Ok(Err(e)), Some((WEnd::Zero, _))) if !is_eintr(e) => "zero",
            (other, end) => {
                st.viol(
                    "C15/write_fmt/error-changed",
                    detail("write_fmt", &expected, script, &extra, &format!("{other:?}"), &format!("writer end {end:?}"), &w.offered),
                );
                "bad"
            }
        };
    } else {
        outcome = judge_writer(st, "write_fmt", &expected, script, &w, &res, &extra);
    }
    let nb = nbucket(script.len());
    st.distinct(fp(&[5, tmpl as u64, sid(nb), fmask(script), sid(outcome)]), || {
        format!("wfmt/t{tmpl}/{nb}/{}/{outcome}", flags(script))
    });
    if st.want_sample() {
        vh::sample(
            &format!(
                "{{\"helper\":\"write_fmt\",\"template\":{tmpl},\"script\":{},\"expected_output\":{},\"offered_lens\":{},\"result\":{}}}",
                vh::js(&script_str(script)),
                vh::jb(&expected),
                vh::js(&format!("{:?}", w.offered)),
                vh::js(&format!("{res:?}"))
            ),
            5,
        );
    }
}

// ---- workloads ---------------------------------------------------------------------------
const ALPHA: [Resp; 9] = [
    Resp::Data(1),
    Resp::Data(2),
    Resp::Data(31),
    Resp::Data(32),
    Resp::Data(33),
    Resp::Data(FULL),
    Resp::Eof,
    Resp::Eintr,
    Resp::Fail(0),
];
const INIT_LENS: [usize; 7] = [0, 1, 5, 31, 32, 33, 64];
const EXTRAS: [usize; 7] = [0, 1, 2, 31, 32, 33, 100];

fn mix(a: u64, b: u64) -> u64 {
    let mut z = a ^ b.wrapping_mul(0x9E37_79B9_7F4A_7C15);
    z = (z ^ (z >> 30)).wrapping_mul(0xBF58_476D_1CE4_E5B9);
    z = (z ^ (z >> 27)).wrapping_mul(0x94D0_49BB_1331_11EB);
    z ^ (z >> 31)
}

fn utf8_text(n: usize, salt: u64) -> Vec<u8> {
    // about n bytes of mixed-width characters
    let chars = ['a', 'é', '€', '𝄞', 'z', 'ß', '語'];
    let mut s = String::new();
    let mut i = salt;
    while s.len() < n {
        let c = chars[(mix(i, 77) % chars.len() as u64) as usize];
        if s.len() + c.len_utf8() > n {
            s.push('q');
        } else {
            s.push(c);
        }
        i = i.wrapping_add(1);
    }
    s.into_bytes()
}

fn one_script_cases(st: &mut St, script: &mut Vec<Resp>, h: u64, light: bool) {
    // give the Fail response one of the five error kinds
    for r in script.iter_mut() {
        if let Resp::Fail(_) = r {
            *r = Resp::Fail((h % 5) as u8);
        }
    }
    let sumfix: usize = script
        .iter()
        .map(|r| match r {
            Resp::Data(FULL) => 40,
            Resp::Data(k) => *k,
            _ => 0,
        })
        .sum();
    let scribble = h & 1 == 0;
    let totals = [sumfix, sumfix + 1, (mix(h, 1) % 201) as usize];
    for (ti, &total) in totals.iter().enumerate() {
        if light && ti == 1 {
            continue;
        }
        let data = data_bytes(total, h);
        let il = INIT_LENS[(mix(h, 2 + ti as u64) % 7) as usize];
        let ex = EXTRAS[(mix(h, 5 + ti as u64) % 7) as usize];
        run_rte(st, &data, script, il, il + ex, scribble);
        if ti == 0 || !light {
            // exact fit: capacity == initial length + stream length (probe path)
            run_rte(st, &data, script, il, il + total, !scribble);
        }
        if script.iter().any(|r| matches!(r, Resp::Fail(_))) {
            run_resume(st, &data, script, il, il + ex, ti == 1);
        }
        // read_exact: exactly the stream, one more than the stream, one less
        run_rex(st, &data, script, total, scribble);
        if !light || ti == 2 {
            run_rex(st, &data, script, total + 1, scribble);
            run_rex(st, &data, script, total.saturating_sub(1), !scribble);
        }
        // writers
        run_wall(st, &data, script);
    }
    // read_to_string: ASCII, multi-byte, invalid
    let total = totals[(h % 3) as usize];
    let init = if h & 2 == 0 { "" } else { "init-é€" };
    let ex = EXTRAS[(mix(h, 9) % 7) as usize];
    run_rts(st, &data_bytes(total, h), script, init, ex, scribble);
    let text = utf8_text(total, h);
    run_rts(st, &text, script, init, if h & 4 == 0 { text.len() } else { ex }, scribble);
    if !text.is_empty() {
        let mut bad = text.clone();
        let at = (mix(h, 11) % bad.len() as u64) as usize;
        bad[at] = [0xFF, 0x80, 0xC0, 0xED][(h % 4) as usize];
        if std::str::from_utf8(&bad).is_err() {
            run_rts(st, &bad, script, init, ex, scribble);
        }
    }
    // write_fmt
    let mut r = Rng::new(h);
    let a = mk_targs(&mut r);
    run_wfmt(st, (mix(h, 13) % (N_TMPL as u64 + 1)) as usize, &a, script);
    if !light {
        run_wfmt(st, (mix(h, 14) % N_TMPL as u64) as usize, &a, script);
    }
}

fn exhaustive(st: &mut St, seed: u64, maxlen: usize, shard: u64, nshards: u64, stride: u64, light: bool) {
    let mut g: u64 = 0;
    let mut scripts = 0u64;
    for l in 0..=maxlen {
        let count = 9u64.pow(l as u32);
        for idx in 0..count {
            g += 1;
            if g % nshards != shard % nshards {
                continue;
            }
            if stride > 1 && mix(g, seed) % stride != 0 {
                continue;
            }
            let mut script = Vec::with_capacity(l);
            let mut x = idx;
            for _ in 0..l {
                script.push(ALPHA[(x % 9) as usize]);
                x /= 9;
            }
            one_script_cases(st, &mut script, mix(seed, g), light);
            scripts += 1;
        }
    }
    st.add("exhaustive_scripts", scripts);
}

fn const_script(total: usize, chunk: usize, eintr_every: usize) -> Vec<Resp> {
    let mut s = Vec::new();
    if chunk == FULL {
        if eintr_every > 0 {
            s.push(Resp::Eintr);
        }
        return s;
    }
    let n = total / chunk + 2;
    for i in 0..n {
        if eintr_every > 0 && i % eintr_every == 0 {
            s.push(Resp::Eintr);
        }
        s.push(Resp::Data(chunk));
    }
    s
}

fn totals(st: &mut St, seed: u64, shard: u64, nshards: u64, light: bool) {
    let chunks = [1usize, 2, 31, 32, 33, FULL];
    let mut g = 0u64;
    let all: Vec<usize> = if light {
        vec![0, 1, 31, 32, 33, 63, 64, 65, 96, 127, 128, 129, 200]
    } else {
        (0..=200).collect()
    };
    let init_lens: &[usize] = if light { &[0, 5, 32] } else { &INIT_LENS };
    let base_extras: &[usize] = if light { &[0, 1, 32] } else { &EXTRAS };
    for total in all {
        g += 1;
        if g % nshards != shard % nshards {
            continue;
        }
        let data = data_bytes(total, seed.wrapping_add(total as u64));
        for &chunk in &chunks {
            for (ci, &il) in init_lens.iter().enumerate() {
                let mut extras: Vec<usize> = base_extras.to_vec();
                extras.extend([total, total + 1, total.saturating_sub(1)]);
                for (ei, &ex) in extras.iter().enumerate() {
                    let h = mix(seed, (total * 1000 + ci * 20 + ei) as u64);
                    let script = const_script(total, chunk, if h % 3 == 0 { 3 } else { 0 });
                    run_rte(st, &data, &script, il, il + ex, h & 1 == 0);
                    st.bump("totals_sweep_cases");
                }
            }
            let script = const_script(total, chunk, 0);
            run_rex(st, &data, &script, total, false);
            run_wall(st, &data, &script);
            let text = utf8_text(total, seed);
            run_rts(st, &text, &script, "", 0, true);
            run_rts(st, &text, &script, "préfixe", text.len(), false);
        }
    }
}

fn utf8(st: &mut St, seed: u64, shard: u64, nshards: u64, light: bool) {
    let texts: Vec<Vec<u8>> = vec![
        "aé€𝄞z".into(),
        "κόσμε".into(),
        "𝄞𝄞𝄞".into(),
        "€".into(),
        format!("{}é", "x".repeat(31)).into_bytes(),
        format!("{}𝄞tail", "y".repeat(30)).into_bytes(),
        format!("{}€{}", "z".repeat(62), "語".repeat(3)).into_bytes(),
        utf8_text(100, seed),
    ];
    let inits = ["", "init-é€"];
    let mut g = 0u64;
    for (ti, text) in texts.iter().enumerate() {
        // every single split, and every pair of splits for short texts
        let n = text.len();
        for s1 in 1..n {
            g += 1;
            if g % nshards != shard % nshards {
                continue;
            }
            for (ii, init) in inits.iter().enumerate() {
                for cap_extra in [0usize, n, n + 1] {
                    run_rts(st, text, &[Resp::Data(s1)], init, cap_extra, (s1 + ii) % 2 == 0);
                    st.bump("utf8_split_cases");
                }
            }
            run_rts(st, text, &[Resp::Data(s1), Resp::Eintr, Resp::Data(1)], "", 0, true);
            // a stream that ends inside a character must leave the String alone
            run_rts(st, text, &[Resp::Data(s1), Resp::Eof], inits[s1 % 2], 3, false);
            // error after a partial character
            run_rts(st, text, &[Resp::Data(s1), Resp::Fail((s1 % 5) as u8)], inits[s1 % 2], 3, false);
            if n <= 14 && !light {
                for s2 in 1..(n - s1) {
                    run_rts(st, text, &[Resp::Data(s1), Resp::Data(s2)], inits[(s1 + s2) % 2], s2, false);
                    st.bump("utf8_split_cases");
                }
            }
        }
        // byte-at-a-time
        let ones = vec![Resp::Data(1); n + 1];
        run_rts(st, text, &ones, "", 0, true);
        // invalid variants of this text
        let mut invalids: Vec<Vec<u8>> = Vec::new();
        for at in 0..n {
            if text[at] >= 0x80 {
                let mut b = text.clone();
                b[at] = if text[at] >= 0xC0 { 0xFF } else { 0x41 };
                invalids.push(b);
                if light {
                    break;
                }
            }
        }
        let mut b = text.clone();
        b.push(0x80);
        invalids.push(b);
        let mut b = text.clone();
        b.extend_from_slice(&[0xC0, 0x80]);
        invalids.push(b);
        let mut b = text.clone();
        b.extend_from_slice(&[0xED, 0xA0, 0x80, b'x']);
        invalids.push(b);
        let mut b = text.clone();
        b.extend_from_slice(&[0xF0, 0x9D, 0x84]); // truncated 4-byte sequence
        invalids.push(b);
        for (vi, inv) in invalids.iter().enumerate() {
            if std::str::from_utf8(inv).is_ok() {
                continue;
            }
            g += 1;
            if g % nshards != shard % nshards {
                continue;
            }
            let m = inv.len();
            let step = if light { 3 } else { 1 };
            for s1 in (1..m).step_by(step) {
                run_rts(st, inv, &[Resp::Data(s1)], inits[(vi + s1) % 2], (ti + s1) % 40, s1 % 2 == 0);
                st.bump("utf8_invalid_cases");
            }
            run_rts(st, inv, &[], "keep-me-é", m, false);
            run_rts(st, inv, &vec![Resp::Data(1); m + 1], "keep-me-é", 0, true);
        }
    }
}

fn fmt_mode(st: &mut St, seed: u64, budget: u64) {
    let mut r = Rng::new(seed);
    for i in 0..budget {
        let a = mk_targs(&mut r);
        let tmpl = (i % (N_TMPL as u64 + 1)) as usize;
        let script = random_script(&mut r, 24, true);
        run_wfmt(st, tmpl, &a, &script);
    }
}

fn random_script(r: &mut Rng, maxlen: u64, allow_end: bool) -> Vec<Resp> {
    let n = r.below(maxlen + 1);
    (0..n)
        .map(|_| {
            let x = r.below(100);
            if x < 14 {
                Resp::Eintr
            } else if x < 17 && allow_end {
                Resp::Fail(r.below(5) as u8)
            } else if x < 20 && allow_end {
                Resp::Eof
            } else if x < 30 {
                Resp::Data(FULL)
            } else if x < 55 {
                *r.pick(&[Resp::Data(1), Resp::Data(2), Resp::Data(31), Resp::Data(32), Resp::Data(33)])
            } else {
                Resp::Data(1 + r.below(70) as usize)
            }
        })
        .collect()
}

fn random(st: &mut St, seed: u64, budget: u64) {
    let mut r = Rng::new(seed);
    for _ in 0..budget {
        if st.past() {
            break;
        }
        let script = random_script(&mut r, 40, true);
        let total = match r.below(4) {
            0 => *r.pick(&[0usize, 1, 31, 32, 33, 63, 64, 65, 96, 128]),
            _ => r.below(301) as usize,
        };
        let scribble = r.chance(1, 2);
        match r.below(6) {
            0 | 1 => {
                let data = data_bytes(total, r.next());
                let il = if r.chance(1, 2) { *r.pick(&INIT_LENS) } else { r.below(80) as usize };
                let cap = match r.below(4) {
                    0 => il + total,
                    1 => il,
                    2 => il + *r.pick(&EXTRAS),
                    _ => il + r.below(300) as usize,
                };
                run_rte(st, &data, &script, il, cap, scribble);
                if script.iter().any(|r| matches!(r, Resp::Fail(_))) {
                    run_resume(st, &data, &script, il, cap, scribble);
                }
            }
            2 => {
                let mut text = utf8_text(total, r.next());
                if r.chance(1, 4) && !text.is_empty() {
                    let at = r.below(text.len() as u64) as usize;
                    text[at] = *r.pick(&[0xFFu8, 0x80, 0xC0, 0xF8]);
                }
                let init = *r.pick(&["", "é", "initial text"]);
                run_rts(st, &text, &script, init, r.below(80) as usize, scribble);
            }
            3 => {
                let data = data_bytes(total, r.next());
                let want = match r.below(3) {
                    0 => total,
                    1 => total + 1 + r.below(5) as usize,
                    _ => r.below(total as u64 + 1) as usize,
                };
                run_rex(st, &data, &script, want, scribble);
            }
            4 => run_wall(st, &data_bytes(total, r.next()), &script),
            _ => {
                let a = mk_targs(&mut r);
                run_wfmt(st, r.below(N_TMPL as u64 + 1) as usize, &a, &script);
            }
        }
    }
}

fn main() {
    let a = vh::args();
    let shard: u64 = a.rest.first().and_then(|s| s.parse().ok()).unwrap_or(0);
    let nshards: u64 = a.rest.get(1).and_then(|s| s.parse().ok()).unwrap_or(1).max(1);
    let mut st = St::default();
    match a.mode.as_str() {
        "exh" => exhaustive(&mut st, a.seed, a.budget as usize, shard, nshards, 1, false),
        "totals" => totals(&mut st, a.seed, shard, nshards, false),
        "utf8" => utf8(&mut st, a.seed, shard, nshards, false),
        "exhl" => exhaustive(&mut st, a.seed, a.budget as usize, shard, nshards, 1, true),
        "totalsl" => totals(&mut st, a.seed, shard, nshards, true),
        "utf8l" => utf8(&mut st, a.seed, shard, nshards, true),
        "errwin" => errwin(&mut st, a.seed, shard, nshards, false),
        "fmt" => fmt_mode(&mut st, a.seed.wrapping_add(shard), a.budget),
        "random" => random(&mut st, a.seed.wrapping_add(shard), a.budget),
        "miri" => {
            // stratified sample: all scripts up to 2 responses, a sample of longer ones, threshold
            // totals, UTF-8 splits, random scripts. Each stratum gets a share of the time budget
            // (4th extra argument, seconds; needs -Zmiri-disable-isolation for the clock); cases
            // that do not fit are counted as skipped. budget = number of longer scripts / random cases.
            let secs: u64 = a.rest.get(2).and_then(|s| s.parse().ok()).unwrap_or(0);
            let t0 = std::time::Instant::now();
            let mut until = |st: &mut St, pct: u64| {
                st.deadline = (secs > 0).then(|| t0 + std::time::Duration::from_millis(secs * 10 * pct));
            };
            let b = a.budget.max(1);
            until(&mut st, 12);
            exhaustive(&mut st, a.seed, 2, shard, nshards, 1, true);
            until(&mut st, 22);
            errwin(&mut st, a.seed, shard, nshards.min(8), true);
            until(&mut st, 35);
            exhaustive_long_sample(&mut st, a.seed, shard, b);
            until(&mut st, 65);
            totals(&mut st, a.seed, shard, nshards, true);
            until(&mut st, 85);
            utf8(&mut st, a.seed, shard, nshards, true);
            until(&mut st, 100);
            random(&mut st, a.seed.wrapping_add(shard), b);
        }
        m => vh::inconclusive(&format!("h_io: unknown mode {m}")),
    }
    st.flush();
}

/// `n` scripts of 3..=5 responses picked by hash (no scan of the whole space)
fn exhaustive_long_sample(st: &mut St, seed: u64, shard: u64, n: u64) {
    let mut scripts = 0u64;
    for k in 0..n {
        if st.past() {
            break;
        }
        let l = 3 + (k % 3) as usize;
        let h = mix(mix(seed, shard), k);
        let mut x = h % 9u64.pow(l as u32);
        let mut script = Vec::with_capacity(l);
        for _ in 0..l {
            script.push(ALPHA[(x % 9) as usize]);
            x /= 9;
        }
        one_script_cases(st, &mut script, mix(h, 99), true);
        scripts += 1;
    }
    st.add("exhaustive_scripts_sampled_3to5", scripts);
}
