//! C19: time arithmetic vs exact i128 reference; monotonic clock; sleep lower bound.
//! modes: arith <seed> <random-budget> | clock <seed> <budget>
use std::sync::atomic::{AtomicU64, AtomicUsize, Ordering};
use std::time::Duration;
use tiny_std::time::{Instant, MonotonicInstant, SystemTime};
use vh::Rng;

const NS: i128 = 1_000_000_000;

#[derive(Copy, Clone, Debug, PartialEq, Eq)]
struct T {
    s: i64,
    n: i64,
}
impl T {
    fn ns(self) -> i128 {
        i128::from(self.s) * NS + i128::from(self.n)
    }
}
fn dns(d: Duration) -> i128 {
    i128::from(d.as_secs()) * NS + i128::from(d.subsec_nanos())
}
/// normalised non-negative result representable as (i64 sec, nsec)?
fn from_ns(v: i128) -> Option<T> {
    if v < 0 {
        return None;
    }
    let s = v / NS;
    let n = v % NS;
    if s > i128::from(i64::MAX) {
        return None;
    }
    Some(T {
        s: s as i64,
        n: n as i64,
    })
}
fn dur_from_ns(v: i128) -> Option<Duration> {
    if v < 0 {
        return None;
    }
    let s = v / NS;
    if s > i128::from(u64::MAX) {
        return None;
    }
    Some(Duration::new(s as u64, (v % NS) as u32))
}

fn mk_instant(t: T) -> Option<Instant> {
    // only the public API: ZERO + duration
    MonotonicInstant::ZERO.as_instant() + Duration::new(t.s as u64, t.n as u32)
}
fn inst_t(i: Instant) -> T {
    let ts: &rusl::platform::TimeSpec = i.as_ref();
    T {
        s: ts.seconds(),
        n: ts.nanoseconds(),
    }
}
fn mk_sys(t: T) -> SystemTime {
    SystemTime::from(rusl::platform::TimeSpec::new(t.s, t.n))
}

fn sec_class(s: i64) -> &'static str {
    match s {
        0 => "0",
        1..=2 => "small",
        i64::MAX => "max",
        s if s >= i64::MAX - 4 => "nearmax",
        s if s < 0 => "neg",
        _ => "mid",
    }
}
fn nano_class(n: i64) -> &'static str {
    match n {
        0 => "0",
        1 => "1",
        999_999_999 => "max",
        _ => "mid",
    }
}
fn dur_class(d: Duration) -> &'static str {
    let s = d.as_secs();
    if s == 0 && d.subsec_nanos() == 0 {
        "0"
    } else if s == 0 {
        "sub1s"
    } else if s > i64::MAX as u64 {
        "gt_i64"
    } else if s >= (i64::MAX as u64) - 4 {
        "near_i64max"
    } else {
        "mid"
    }
}

struct St {
    evals: u64,
    per_op: [u64; 8],
    some: u64,
    none: u64,
    viols: u64,
}

fn report(st: &mut St, sig: &str, t: T, u: Option<T>, d: Option<Duration>, got: &str, want: &str) {
    st.viols += 1;
    if st.viols > 40 {
        return;
    }
    vh::viol(
        sig,
        &format!(
            "{{\"t\":[{},{}],\"u\":{},\"d\":{},\"got\":{},\"want\":{}}}",
            t.s,
            t.n,
            u.map_or("null".to_string(), |u| format!("[{},{}]", u.s, u.n)),
            d.map_or("null".to_string(), |d| format!(
                "[{},{}]",
                d.as_secs(),
                d.subsec_nanos()
            )),
            vh::js(got),
            vh::js(want)
        ),
    );
}

fn check_td(st: &mut St, t: T, d: Duration, sys: bool) {
    // exactness domain: t normalised, t.s >= 0
    let kind = if sys { "sys" } else { "inst" };
    let want_add = from_ns(t.ns() + dns(d));
    let want_sub = from_ns(t.ns() - dns(d));
    let (got_add, got_sub): (Result<Option<T>, String>, Result<Option<T>, String>);
    if sys {
        let st_ = mk_sys(t);
        got_add = vh::catch(|| {
            (st_ + d).map(|r| {
                // decode through the public API: duration since epoch
                let dd = r.duration_since_unix_time();
                T {
                    s: dd.as_secs() as i64,
                    n: i64::from(dd.subsec_nanos()),
                }
            })
        });
        got_sub = vh::catch(|| {
            (st_ - d).map(|r| {
                let dd = r.duration_since_unix_time();
                T {
                    s: dd.as_secs() as i64,
                    n: i64::from(dd.subsec_nanos()),
                }
            })
        });
    } else {
        let Some(i) = mk_instant(t) else {
            report(st, "C19/inst/construct", t, None, None, "None", "Some");
            return;
        };
        if inst_t(i) != t {
            report(
                st,
                "C19/inst/construct-value",
                t,
                None,
                None,
                &format!("{:?}", inst_t(i)),
                "t",
            );
        }
        got_add = vh::catch(|| (i + d).map(inst_t));
        got_sub = vh::catch(|| (i - d).map(inst_t));
    }
    st.evals += 2;
    st.per_op[0] += 1;
    st.per_op[1] += 1;
    if st.per_op[0] % 9973 == 7 {
        vh::sample(
            &format!(
                "{{\"type\":{},\"t\":[{},{}],\"d\":[{},{}],\"t+d\":{},\"t-d\":{},\"reference\":{}}}",
                vh::js(kind),
                t.s,
                t.n,
                d.as_secs(),
                d.subsec_nanos(),
                vh::js(&format!("{got_add:?}")),
                vh::js(&format!("{got_sub:?}")),
                vh::js(&format!("{want_add:?} / {want_sub:?}"))
            ),
            6,
        );
    }
    for (op, got, want) in [("add", &got_add, want_add), ("subdur", &got_sub, want_sub)] {
        match got {
            Err(p) => report(
                st,
                &format!("C19/{kind}/{op}/panic"),
                t,
                None,
                Some(d),
                p,
                "no panic",
            ),
            Ok(g) => {
                if *g != want {
                    report(
                        st,
                        &format!("C19/{kind}/{op}/wrong"),
                        t,
                        None,
                        Some(d),
                        &format!("{g:?}"),
                        &format!("{want:?}"),
                    );
                }
                if g.is_some() {
                    st.some += 1;
                } else {
                    st.none += 1;
                }
                if let Some(r) = g {
                    if !(0..1_000_000_000).contains(&r.n) {
                        report(
                            st,
                            &format!("C19/{kind}/{op}/not-normalised"),
                            t,
                            None,
                            Some(d),
                            &format!("{r:?}"),
                            "0<=n<1e9",
                        );
                    }
                }
            }
        }
    }
    // identities (t+d)-d == t and (t+d)-t == d, through the API itself
    if let Ok(Some(_)) = got_add {
        st.evals += 1;
        st.per_op[2] += 1;
        let r = vh::catch(|| {
            if sys {
                let a = (mk_sys(t) + d).unwrap();
                let back = a - d;
                let diff = a - mk_sys(t);
                (
                    back == Some(mk_sys(t)),
                    diff == Some(d),
                    a >= mk_sys(t),
                    a.duration_since(mk_sys(t)) == Some(d),
                )
            } else {
                let i = mk_instant(t).unwrap();
                let a = (i + d).unwrap();
                let back = a - d;
                let diff = a - i;
                (
                    back == Some(i),
                    diff == Some(d),
                    a >= i,
                    a.duration_since(i) == Some(d),
                )
            }
        });
        match r {
            Err(p) => report(
                st,
                &format!("C19/{kind}/identity/panic"),
                t,
                None,
                Some(d),
                &p,
                "no panic",
            ),
            Ok((a, b, c, e)) => {
                if !(a && b && c && e) {
                    report(
                        st,
                        &format!("C19/{kind}/identity"),
                        t,
                        None,
                        Some(d),
                        &format!("back={a} diff={b} ord={c} since={e}"),
                        "all true",
                    );
                }
            }
        }
    }
    vh::distinct(&format!(
        "{kind}/td/{}/{}/{}/{}{}",
        sec_class(t.s),
        nano_class(t.n),
        dur_class(d),
        if want_add.is_some() { "A" } else { "a" },
        if want_sub.is_some() { "S" } else { "s" }
    ));
}

fn check_tu(st: &mut St, t: T, u: T, sys: bool) {
    let kind = if sys { "sys" } else { "inst" };
    let want = dur_from_ns(t.ns() - u.ns());
    st.evals += 1;
    st.per_op[3] += 1;
    let got = vh::catch(|| {
        if sys {
            let (a, b) = (mk_sys(t), mk_sys(u));
            (a - b, a.duration_since(b), a.cmp(&b))
        } else {
            let (a, b) = (mk_instant(t).unwrap(), mk_instant(u).unwrap());
            (a - b, a.duration_since(b), a.cmp(&b))
        }
    });
    match got {
        Err(p) => report(
            st,
            &format!("C19/{kind}/diff/panic"),
            t,
            Some(u),
            None,
            &p,
            "no panic",
        ),
        Ok((d1, d2, ord)) => {
            if d1 != want || d2 != want {
                report(
                    st,
                    &format!("C19/{kind}/diff/wrong"),
                    t,
                    Some(u),
                    None,
                    &format!("{d1:?}/{d2:?}"),
                    &format!("{want:?}"),
                );
            }
            let want_ord = t.ns().cmp(&u.ns());
            if ord != want_ord {
                report(
                    st,
                    &format!("C19/{kind}/ord"),
                    t,
                    Some(u),
                    None,
                    &format!("{ord:?}"),
                    &format!("{want_ord:?}"),
                );
            }
            if want.is_some() {
                st.some += 1;
            } else {
                st.none += 1;
            }
        }
    }
    vh::distinct(&format!(
        "{kind}/tu/{}/{}/{}/{}/{}",
        sec_class(t.s),
        nano_class(t.n),
        sec_class(u.s),
        nano_class(u.n),
        if want.is_some() { "D" } else { "d" }
    ));
}

/// SystemTime with negative seconds: only panic-freedom is claimed.
fn check_neg(st: &mut St, t: T, u: T, d: Duration) {
    st.evals += 1;
    st.per_op[4] += 1;
    let r = vh::catch(|| {
        let a = mk_sys(t);
        let b = mk_sys(u);
        // every public operation, also on the values the operators hand back (a result can be pre-epoch too)
        let _ = a.duration_since_unix_time();
        let _ = b.duration_since_unix_time();
        for r in [a + d, a - d, b + d, b - d].into_iter().flatten() {
            let _ = r.duration_since_unix_time();
            let _ = r.duration_since(a);
            let _ = a.duration_since(r);
            let _ = r - b;
            let _ = r.cmp(&a);
            if !vh::IS_MIRI {
                let _ = r.elapsed();
            }
        }
        let _ = a - b;
        let _ = b - a;
        let _ = a.duration_since(b);
        let _ = a.cmp(&b);
        if !vh::IS_MIRI {
            let _ = a.elapsed();
        }
    });
    if let Err(p) = r {
        report(st, "C19/sys/negative/panic", t, Some(u), Some(d), &p, "no panic");
    }
    vh::distinct(&format!(
        "sys/neg/{}/{}/{}",
        sec_class(t.s),
        sec_class(u.s),
        dur_class(d)
    ));
}

fn arith(seed: u64, budget: u64, stride: usize) {
    let secs: Vec<i64> = vec![
        0,
        1,
        2,
        999_999_999,
        1_000_000_000,
        1_700_000_000,
        i64::MAX / 2,
        i64::MAX - 2,
        i64::MAX - 1,
        i64::MAX,
    ];
    let nanos: Vec<i64> = vec![0, 1, 499_999_999, 500_000_000, 999_999_998, 999_999_999];
    let mut durs: Vec<Duration> = Vec::new();
    for s in [
        0u64,
        1,
        2,
        999_999_999,
        i64::MAX as u64 - 1,
        i64::MAX as u64,
        i64::MAX as u64 + 1,
        u64::MAX - 1,
        u64::MAX,
    ] {
        for n in [0u32, 1, 500_000_000, 999_999_999] {
            durs.push(Duration::new(s, n));
        }
    }
    let mut st = St {
        evals: 0,
        per_op: [0; 8],
        some: 0,
        none: 0,
        viols: 0,
    };
    // exhaustive boundary product
    let mut ts = Vec::new();
    for &s in &secs {
        for &n in &nanos {
            ts.push(T { s, n });
        }
    }
    for &t in ts.iter().step_by(stride) {
        for &d in durs.iter().step_by(stride) {
            check_td(&mut st, t, d, false);
            check_td(&mut st, t, d, true);
        }
        for &u in ts.iter().step_by(stride) {
            check_tu(&mut st, t, u, false);
            check_tu(&mut st, t, u, true);
        }
    }
    let boundary = st.evals;
    // negative SystemTime: panic freedom
    let negs: Vec<i64> = vec![-1, -2, -1_000_000_000, i64::MIN + 1, i64::MIN];
    for &s in negs.iter().step_by(stride) {
        for &n in nanos.iter().step_by(stride) {
            for &u in ts.iter().step_by(stride) {
                for &d in durs.iter().step_by(3) {
                    check_neg(&mut st, T { s, n }, u, d);
                    check_neg(&mut st, u, T { s, n }, d);
                }
            }
            for &s2 in &negs {
                check_neg(&mut st, T { s, n }, T { s: s2, n: 1 }, durs[5]);
            }
        }
    }
    // random, boundary-biased
    let mut r = Rng::new(seed);
    let rs = |r: &mut Rng| -> i64 {
        match r.below(6) {
            0 => *r.pick(&[0i64, 1, 2, 3]),
            1 => i64::MAX - r.below(5) as i64,
            2 => r.below(4_000_000_000) as i64,
            3 => (r.next() >> 1) as i64,
            4 => (r.next() >> (1 + r.below(62))) as i64,
            _ => i64::MAX / 2 + r.below(7) as i64 - 3,
        }
    };
    let rn = |r: &mut Rng| -> i64 {
        match r.below(4) {
            0 => *r.pick(&[0i64, 1, 999_999_999, 999_999_998, 500_000_000]),
            _ => r.below(1_000_000_000) as i64,
        }
    };
    let rd = |r: &mut Rng| -> Duration {
        let s = match r.below(6) {
            0 => r.below(3),
            1 => i64::MAX as u64 - 2 + r.below(5),
            2 => u64::MAX - r.below(3),
            3 => r.next(),
            4 => r.next() >> (1 + r.below(62)),
            _ => r.below(4_000_000_000),
        };
        let n = match r.below(3) {
            0 => *r.pick(&[0u32, 1, 999_999_999]),
            _ => r.below(1_000_000_000) as u32,
        };
        Duration::new(s, n)
    };
    for i in 0..budget {
        let t = T {
            s: rs(&mut r),
            n: rn(&mut r),
        };
        let sys = i & 1 == 0;
        match r.below(5) {
            0 | 1 => {
                // related pair: u = t +- small
                let d = rd(&mut r);
                check_td(&mut st, t, d, sys);
                if let Some(u) = from_ns(t.ns() + dns(d) % (3 * NS) - NS) {
                    check_tu(&mut st, t, u, sys);
                    check_tu(&mut st, u, t, sys);
                }
            }
            2 => {
                let u = T {
                    s: rs(&mut r),
                    n: rn(&mut r),
                };
                check_tu(&mut st, t, u, sys);
            }
            3 => {
                // duration exactly reaching the boundary: t + d == (i64::MAX, n)
                let target = T {
                    s: i64::MAX,
                    n: rn(&mut r),
                };
                let delta = target.ns() - t.ns() + r.below(3) as i128 - 1;
                if let Some(d) = dur_from_ns(delta) {
                    check_td(&mut st, t, d, sys);
                }
                // and t - d == 0 +- 1ns
                if let Some(d) = dur_from_ns(t.ns() + r.below(3) as i128 - 1) {
                    check_td(&mut st, t, d, sys);
                }
            }
            _ => {
                let neg = T {
                    s: -(rs(&mut r).max(1)),
                    n: rn(&mut r),
                };
                check_neg(&mut st, neg, t, rd(&mut r));
            }
        }
    }
    vh::eval(st.evals);
    vh::count("boundary_product_cases", boundary);
    vh::count("op_add", st.per_op[0]);
    vh::count("op_sub_duration", st.per_op[1]);
    vh::count("op_identities", st.per_op[2]);
    vh::count("op_difference_and_ord", st.per_op[3]);
    vh::count("op_negative_systemtime_panicfree", st.per_op[4]);
    vh::count("result_some", st.some);
    vh::count("result_none", st.none);
}

// ---------------------------------------------------------------------------------------
extern "C" {
    fn signal(sig: i32, handler: usize) -> usize;
    fn pthread_self() -> usize;
    fn pthread_kill(t: usize, sig: i32) -> i32;
}
static SIGS: AtomicUsize = AtomicUsize::new(0);
extern "C" fn on_usr1(_s: i32) {
    SIGS.fetch_add(1, Ordering::Relaxed);
}

fn clock(seed: u64, budget: u64) {
    let mut r = Rng::new(seed);
    // per-thread monotonicity
    let mut evals = 0u64;
    let mut prev_m = MonotonicInstant::now();
    let mut prev_i = Instant::now();
    let mut equal = 0u64;
    for _ in 0..budget * 50 {
        let m = MonotonicInstant::now();
        let i = Instant::now();
        if m < prev_m || i < prev_i || i.as_ref() < m.as_instant().as_ref() {
            vh::viol(
                "C19/clock/decreasing",
                &format!("{{\"prev\":{},\"now\":{}}}", vh::js(&format!("{prev_m:?}")), vh::js(&format!("{m:?}"))),
            );
            break;
        }
        if m == prev_m {
            equal += 1;
        }
        prev_m = m;
        prev_i = i;
        evals += 1;
    }
    vh::count("clock_single_thread_readings", evals);
    vh::count("clock_equal_successive", equal);
    vh::distinct("clock/single-thread");
    // cross-thread handshake: a reading published by A must not exceed a later reading by B
    static SLOT_S: AtomicU64 = AtomicU64::new(0);
    static SLOT_N: AtomicU64 = AtomicU64::new(0);
    static GEN: AtomicU64 = AtomicU64::new(0);
    let rounds = budget * 20;
    let h = std::thread::spawn(move || {
        let mut seen = 0u64;
        let mut n = 0u64;
        let mut bad = None;
        while seen < rounds {
            let g = GEN.load(Ordering::Acquire);
            if g == seen {
                std::hint::spin_loop();
                continue;
            }
            let s = SLOT_S.load(Ordering::Relaxed);
            let ns = SLOT_N.load(Ordering::Relaxed);
            let now = Instant::now();
            let ts: &rusl::platform::TimeSpec = now.as_ref();
            // only judge if the slot still belongs to generation g
            if GEN.load(Ordering::Acquire) == g {
                n += 1;
                if (ts.seconds() as u64, ts.nanoseconds() as u64) < (s, ns) {
                    bad = Some((s, ns, ts.seconds(), ts.nanoseconds()));
                    break;
                }
            }
            seen = g;
        }
        (n, bad)
    });
    for g in 1..=rounds {
        let now = MonotonicInstant::now().as_instant();
        let ts: &rusl::platform::TimeSpec = now.as_ref();
        SLOT_S.store(ts.seconds() as u64, Ordering::Relaxed);
        SLOT_N.store(ts.nanoseconds() as u64, Ordering::Relaxed);
        GEN.store(g, Ordering::Release);
        if g % 64 == 0 {
            std::thread::yield_now();
        }
        // let the reader catch up sometimes (no verdict depends on it)
        let mut spins = 0;
        while spins < 200 {
            std::hint::spin_loop();
            spins += 1;
        }
    }
    let (n, bad) = h.join().unwrap();
    if let Some(b) = bad {
        vh::viol("C19/clock/cross-thread-decreasing", &format!("{{\"published\":[{},{}],\"later\":[{},{}]}}", b.0, b.1, b.2, b.3));
    }
    vh::count("clock_cross_thread_handshakes", n);
    evals += n;
    vh::distinct("clock/cross-thread");

    // elapsed(): now - self. A deadline pushed into the future must give None (negative difference), a past
    // instant Some(x) with x >= the distance it was moved back by (lower bound; "now" only moves forward).
    let mut el_cases = 0u64;
    for k in 0..(budget * 4).max(64) {
        let d = match k % 6 {
            0 => Duration::new(3600, 0),
            1 => Duration::new(86_400 * 365, 1),
            2 => Duration::new(30, 999_999_999),
            3 => Duration::new(1 + r.below(1 << 32), r.below(1_000_000_000) as u32),
            4 => Duration::new(i64::MAX as u64 / 4, 0),
            _ => Duration::new(10 + r.below(1000), 0),
        };
        let checks = vh::catch(|| {
            let mut bad: Vec<String> = Vec::new();
            if let Some(fut) = Instant::now() + d {
                if let Some(x) = fut.elapsed() {
                    bad.push(format!("Instant deadline {d:?} ahead: elapsed() = Some({x:?}), expected None"));
                }
                if Instant::now() >= fut || (Instant::now() - fut).is_some() {
                    bad.push(format!("Instant deadline {d:?} ahead compares as not-after now"));
                }
            }
            if let Some(past) = Instant::now() - d {
                match past.elapsed() {
                    Some(x) if x >= d => {}
                    other => bad.push(format!("Instant moved back by {d:?}: elapsed() = {other:?}, expected Some(>= d)")),
                }
            }
            if let Some(fut) = SystemTime::now() + d {
                if let Some(x) = fut.elapsed() {
                    bad.push(format!("SystemTime {d:?} ahead: elapsed() = Some({x:?}), expected None"));
                }
            }
            if d.as_secs() < 1_000_000 {
                if let Some(past) = SystemTime::now() - d {
                    match past.elapsed() {
                        Some(x) if x + Duration::from_millis(50) >= d => {}
                        other => bad.push(format!("SystemTime moved back by {d:?}: elapsed() = {other:?}")),
                    }
                }
            }
            let m = MonotonicInstant::now();
            let e1 = m.elapsed();
            let e2 = m.elapsed();
            if e2 < e1 {
                bad.push(format!("MonotonicInstant::elapsed decreased: {e1:?} then {e2:?}"));
            }
            bad
        });
        el_cases += 1;
        match checks {
            Err(p) => vh::viol("C19/elapsed/panic", &format!("{{\"d\":[{},{}],\"panic\":{}}}", d.as_secs(), d.subsec_nanos(), vh::js(&p))),
            Ok(bad) => {
                for b in bad.iter().take(2) {
                    vh::viol("C19/elapsed/wrong", &format!("{{\"d\":[{},{}],\"what\":{}}}", d.as_secs(), d.subsec_nanos(), vh::js(b)));
                }
            }
        }
    }
    vh::count("elapsed_cases", el_cases);
    vh::distinct("elapsed/future-deadline-none");
    vh::distinct("elapsed/past-instant-lower-bound");
    evals += el_cases;

    // sleep lower bound, with and without interrupting signals
    unsafe {
        signal(10, on_usr1 as usize);
    }
    let durs_us: Vec<u64> = vec![0, 1, 50, 300, 1_000, 3_000, 10_000, 25_000];
    let n_sleeps = (budget / 4).clamp(8, 400);
    let mut interrupted = 0u64;
    for k in 0..n_sleeps {
        let us = if k < durs_us.len() as u64 {
            durs_us[k as usize]
        } else {
            *r.pick(&durs_us) + r.below(200)
        };
        let d = Duration::new(0, (us * 1000 + r.below(1000)) as u32);
        let with_sig = k % 2 == 1;
        let me = unsafe { pthread_self() };
        let stop = std::sync::Arc::new(std::sync::atomic::AtomicBool::new(false));
        let stop2 = stop.clone();
        let gap = 20 + r.below(400);
        let killer = with_sig.then(|| {
            std::thread::spawn(move || {
                let mut sent = 0;
                while !stop2.load(Ordering::Relaxed) && sent < 200 {
                    std::thread::sleep(Duration::from_micros(gap));
                    unsafe {
                        pthread_kill(me, 10);
                    }
                    sent += 1;
                }
            })
        });
        let before_sigs = SIGS.load(Ordering::Relaxed);
        let t0 = std::time::Instant::now();
        let m0 = MonotonicInstant::now();
        let res = tiny_std::thread::sleep(d);
        let el_tiny = m0.elapsed();
        let el = t0.elapsed();
        let during = SIGS.load(Ordering::Relaxed) - before_sigs;
        stop.store(true, Ordering::Relaxed);
        if let Some(k) = killer {
            let _ = k.join();
        }
        evals += 1;
        if during > 0 {
            interrupted += 1;
        }
        match res {
            Ok(()) => {
                // el started before sleep() and ended after it returned: el >= true sleep time
                if el < d {
                    vh::viol(
                        "C19/sleep/early",
                        &format!(
                            "{{\"requested_ns\":{},\"elapsed_ns\":{},\"signals_during\":{}}}",
                            d.as_nanos(),
                            el.as_nanos(),
                            during
                        ),
                    );
                }
                let _ = el_tiny;
            }
            Err(e) => vh::viol(
                "C19/sleep/error",
                &format!("{{\"requested_ns\":{},\"err\":{}}}", d.as_nanos(), vh::js(&format!("{e:?}"))),
            ),
        }
        vh::distinct(&format!(
            "sleep/{}/{}",
            if us < 100 { "tiny" } else if us < 2000 { "short" } else { "long" },
            if during > 0 { "interrupted" } else { "plain" }
        ));
        if k < 3 {
            vh::sample(
                &format!(
                    "{{\"op\":\"sleep\",\"requested_ns\":{},\"elapsed_ns\":{},\"signals_during\":{}}}",
                    d.as_nanos(),
                    el.as_nanos(),
                    during
                ),
                6,
            );
        }
    }
    vh::count("sleeps", n_sleeps);
    vh::count("sleeps_interrupted_by_signal", interrupted);
    vh::eval(evals);
}

fn main() {
    let a = vh::args();
    match a.mode.as_str() {
        "arith" => arith(
            a.seed,
            a.budget,
            a.rest.first().and_then(|s| s.parse().ok()).unwrap_or(1),
        ),
        "clock" => clock(a.seed, a.budget),
        m => {
            vh::inconclusive(&format!("unknown mode {m}"));
        }
    }
}
