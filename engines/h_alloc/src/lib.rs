//! Shared pieces of the allocator harness (C03 / C04): libc FFI for the RLIMIT_AS refusal window,
//! crash attribution from signal handlers, and the boundary-biased size generator.
#![allow(clippy::missing_safety_doc)]
use std::sync::atomic::{AtomicBool, AtomicU64, AtomicU8, Ordering};
use vh::Rng;

#[path = "../../../probes/alloc_probe/src/workload.rs"]
pub mod workload;

// ---------------------------------------------------------------------------------------------
// libc FFI (std links libc already; no extra crates)
#[repr(C)]
pub struct RLimit {
    pub cur: u64,
    pub max: u64,
}
#[repr(C)]
struct SigAction {
    handler: usize,
    mask: [u64; 16],
    flags: i32,
    restorer: usize,
}
#[repr(C)]
struct StackT {
    sp: *mut u8,
    flags: i32,
    size: usize,
}
extern "C" {
    fn setrlimit(resource: i32, rlim: *const RLimit) -> i32;
    fn getrlimit(resource: i32, rlim: *mut RLimit) -> i32;
    fn sigaction(sig: i32, act: *const SigAction, old: *mut SigAction) -> i32;
    fn sigaltstack(ss: *const StackT, old: *mut StackT) -> i32;
    fn write(fd: i32, buf: *const u8, n: usize) -> isize;
    fn _exit(code: i32) -> !;
    fn alarm(secs: u32) -> u32;
    fn mmap(addr: *mut u8, len: usize, prot: i32, flags: i32, fd: i32, off: i64) -> *mut u8;
    fn munmap(addr: *mut u8, len: usize) -> i32;
    fn personality(p: u64) -> i32;
    fn fork() -> i32;
    fn waitpid(pid: i32, status: *mut i32, options: i32) -> i32;
}
/// plain fork(2); 0 in the child
pub fn fork_process() -> i32 {
    unsafe { fork() }
}
/// raw wait status of the child (-1: waitpid failed)
pub fn wait_for(pid: i32) -> i32 {
    let mut st = 0i32;
    loop {
        let r = unsafe { waitpid(pid, &mut st, 0) };
        if r == pid {
            return st;
        }
        if r < 0 {
            return -1;
        }
    }
}
/// leave the process at once (no atexit handlers, no stdio flush)
pub fn exit_now(code: i32) -> ! {
    unsafe { _exit(code) }
}
const RLIMIT_AS: i32 = 9;

static SAVED_CUR: AtomicU64 = AtomicU64::new(u64::MAX);
static SAVED_MAX: AtomicU64 = AtomicU64::new(u64::MAX);
static REFUSING: AtomicBool = AtomicBool::new(false);

pub fn rlimit_init() {
    let mut r = RLimit { cur: 0, max: 0 };
    unsafe {
        getrlimit(RLIMIT_AS, &mut r);
    }
    SAVED_CUR.store(r.cur, Ordering::Relaxed);
    SAVED_MAX.store(r.max, Ordering::Relaxed);
}
/// From here on the kernel refuses every address-space growth (mmap, growing mremap, brk).
#[inline]
pub fn refuse_on() {
    let r = RLimit {
        cur: 4096,
        max: SAVED_MAX.load(Ordering::Relaxed),
    };
    REFUSING.store(true, Ordering::Relaxed);
    unsafe {
        setrlimit(RLIMIT_AS, &r);
    }
}
#[inline]
pub fn refuse_off() {
    if REFUSING.load(Ordering::Relaxed) {
        let r = RLimit {
            cur: SAVED_CUR.load(Ordering::Relaxed),
            max: SAVED_MAX.load(Ordering::Relaxed),
        };
        unsafe {
            setrlimit(RLIMIT_AS, &r);
        }
        REFUSING.store(false, Ordering::Relaxed);
    }
}
pub fn refusing() -> bool {
    REFUSING.load(Ordering::Relaxed)
}
/// Would the OS hand out `len` bytes of anonymous memory right now? (direct mmap + munmap)
pub fn os_grants(len: usize) -> bool {
    unsafe {
        let p = mmap(std::ptr::null_mut(), len, 3, 0x22, -1, 0);
        if p as isize == -1 {
            false
        } else {
            munmap(p, len);
            true
        }
    }
}
pub fn disable_aslr_for_children() {
    unsafe {
        let cur = personality(0xffff_ffff);
        if cur >= 0 {
            personality(cur as u64 | 0x0004_0000);
        }
    }
}
/// Touch `bytes` of stack below the current frame so that no stack growth (which is subject to
/// RLIMIT_AS as well) is needed inside a refusal window.
#[inline(never)]
pub fn pretouch_stack(bytes: usize) {
    const STEP: usize = 64 * 1024;
    #[inline(never)]
    fn rec(left: usize) -> u8 {
        let mut buf = [0u8; STEP];
        let mut i = 0;
        while i < STEP {
            unsafe { std::ptr::write_volatile(buf.as_mut_ptr().add(i), 1) };
            i += 4096;
        }
        let r = if left > STEP { rec(left - STEP) } else { 0 };
        r.wrapping_add(unsafe { std::ptr::read_volatile(buf.as_ptr()) })
    }
    std::hint::black_box(rec(bytes));
}
pub fn set_alarm(secs: u32) {
    unsafe {
        alarm(secs);
    }
}

// ---------------------------------------------------------------------------------------------
// crash attribution: what the process is doing right now, readable from a signal handler
pub const W_OTHER: u8 = 0;
pub const W_ALLOC_CALL: u8 = 1;
pub const W_CHECK_CALL: u8 = 2;
pub const W_BLOCK_WRITE: u8 = 3;
pub const W_BLOCK_READ: u8 = 4;
pub static WHERE: AtomicU8 = AtomicU8::new(W_OTHER);
pub static OP_INDEX: AtomicU64 = AtomicU64::new(0);
pub static OP_KIND: AtomicU8 = AtomicU8::new(0);
pub static OP_SIZE: AtomicU64 = AtomicU64::new(0);
pub static OP_ALIGN: AtomicU64 = AtomicU64::new(0);
pub static OP_NEW_SIZE: AtomicU64 = AtomicU64::new(0);
pub static OP_REFUSED: AtomicBool = AtomicBool::new(false);
pub static H_SEED: AtomicU64 = AtomicU64::new(0);
pub static H_NOPS: AtomicU64 = AtomicU64::new(0);
pub static PREFIX: AtomicU8 = AtomicU8::new(3); // property number for the signature prefix
/// sticky: which system calls the monitor has been told to fail so far in this history
/// (bit 0 mremap, bit 1 munmap); goes into every signature reported from then on
pub static FAULT_TAG: AtomicU8 = AtomicU8::new(0);
pub fn fault_tag() -> &'static str {
    match FAULT_TAG.load(Ordering::Relaxed) & 3 {
        1 => "/mremap-fails",
        2 => "/munmap-fails",
        3 => "/mremap+munmap-fails",
        _ => "",
    }
}
static mut FAULTSPEC: [u8; 200] = [0; 200];
static FAULTSPEC_LEN: AtomicU64 = AtomicU64::new(0);

pub const KIND_NAMES: [&str; 8] = [
    "malloc",
    "malloc-aligned",
    "calloc",
    "calloc-aligned",
    "realloc",
    "realloc-aligned",
    "free",
    "none",
];
pub fn set_faultspec(s: &str) {
    let b = s.as_bytes();
    let n = b.len().min(200);
    unsafe {
        let dst = std::ptr::addr_of_mut!(FAULTSPEC).cast::<u8>();
        std::ptr::copy_nonoverlapping(b.as_ptr(), dst, n);
    }
    FAULTSPEC_LEN.store(n as u64, Ordering::Relaxed);
}

struct Buf {
    b: [u8; 768],
    n: usize,
}
impl Buf {
    fn s(&mut self, s: &str) {
        for &c in s.as_bytes() {
            if self.n < self.b.len() {
                self.b[self.n] = c;
                self.n += 1;
            }
        }
    }
    fn u(&mut self, mut v: u64) {
        let mut t = [0u8; 20];
        let mut i = 20;
        if v == 0 {
            i -= 1;
            t[i] = b'0';
        }
        while v > 0 {
            i -= 1;
            t[i] = b'0' + (v % 10) as u8;
            v /= 10;
        }
        for &c in &t[i..] {
            if self.n < self.b.len() {
                self.b[self.n] = c;
                self.n += 1;
            }
        }
    }
    fn flush(&self) {
        unsafe {
            write(1, self.b.as_ptr(), self.n);
        }
    }
}
fn where_name(w: u8) -> &'static str {
    match w {
        W_ALLOC_CALL => "inside the allocator call",
        W_CHECK_CALL => "inside the allocator's invariant walker",
        W_BLOCK_WRITE => "harness writing a live block",
        W_BLOCK_READ => "harness reading a live block",
        _ => "harness code",
    }
}
fn op_json(b: &mut Buf) {
    b.s("\"op_index\":");
    b.u(OP_INDEX.load(Ordering::Relaxed));
    b.s(",\"op\":\"");
    b.s(KIND_NAMES[(OP_KIND.load(Ordering::Relaxed) & 7) as usize]);
    b.s("\",\"size\":");
    b.u(OP_SIZE.load(Ordering::Relaxed));
    b.s(",\"align\":");
    b.u(OP_ALIGN.load(Ordering::Relaxed));
    b.s(",\"new_size\":");
    b.u(OP_NEW_SIZE.load(Ordering::Relaxed));
    b.s(",\"kernel_refusing\":");
    b.s(if OP_REFUSED.load(Ordering::Relaxed) { "true" } else { "false" });
    b.s(",\"seed\":");
    b.u(H_SEED.load(Ordering::Relaxed));
    b.s(",\"nops\":");
    b.u(H_NOPS.load(Ordering::Relaxed));
    b.s(",\"faults\":\"");
    let n = FAULTSPEC_LEN.load(Ordering::Relaxed) as usize;
    for i in 0..n {
        let c = unsafe { *std::ptr::addr_of!(FAULTSPEC).cast::<u8>().add(i) };
        if b.n < b.b.len() && c != b'"' && c != b'\\' && c >= 0x20 {
            b.b[b.n] = c;
            b.n += 1;
        }
    }
    b.s("\"");
}

extern "C" fn on_fatal(sig: i32, _info: *mut u8, _ctx: *mut u8) {
    // async-signal-safe only: setrlimit, write, _exit
    refuse_off();
    let w = WHERE.load(Ordering::Relaxed);
    let mut b = Buf { b: [0; 768], n: 0 };
    b.s("\n");
    if sig == 14 {
        b.s("@@INCONCLUSIVE watchdog (SIGALRM) while in ");
        b.s(where_name(w));
        b.s(": {");
        op_json(&mut b);
        b.s("}\n");
        b.flush();
        unsafe { _exit(5) }
    }
    if w == W_OTHER {
        b.s("@@INCONCLUSIVE harness crashed with signal ");
        b.u(sig as u64);
        b.s(" outside allocator calls and block accesses: {");
        op_json(&mut b);
        b.s("}\n");
        b.flush();
        unsafe { _exit(4) }
    }
    b.s("@@VIOL C0");
    b.u(u64::from(PREFIX.load(Ordering::Relaxed)));
    b.s("/");
    b.s(KIND_NAMES[(OP_KIND.load(Ordering::Relaxed) & 7) as usize]);
    b.s(fault_tag());
    b.s(match w {
        W_ALLOC_CALL => "/crash-in-allocator",
        W_CHECK_CALL => "/crash-in-invariant-walker",
        _ => "/block-not-accessible",
    });
    b.s(" {\"signal\":");
    b.u(sig as u64);
    b.s(",\"while\":\"");
    b.s(where_name(w));
    b.s("\",");
    op_json(&mut b);
    b.s("}\n");
    b.flush();
    unsafe { _exit(3) }
}

/// SIGSEGV/SIGBUS/SIGILL/SIGABRT/SIGFPE/SIGALRM -> one report line, on an alternate stack.
pub fn install_crash_handlers() {
    unsafe {
        let sz = 256 * 1024;
        let stack = mmap(std::ptr::null_mut(), sz, 3, 0x22, -1, 0);
        let ss = StackT {
            sp: stack,
            flags: 0,
            size: sz,
        };
        sigaltstack(&ss, std::ptr::null_mut());
        for sig in [11, 7, 4, 6, 8, 14] {
            let sa = SigAction {
                handler: on_fatal as usize,
                mask: [0; 16],
                flags: 4 | 0x0800_0000 | 0x4000_0000, // SA_SIGINFO | SA_ONSTACK | SA_NODEFER
                restorer: 0,
            };
            sigaction(sig, &sa, std::ptr::null_mut());
        }
    }
}

// ---------------------------------------------------------------------------------------------
// sizes and alignments, biased to the allocator's internal boundaries (used for generation only)
pub const MIN_CHUNK: usize = 32;
pub const CHUNK_OVERHEAD: usize = 8;
pub const GRANULARITY: usize = 64 * 1024;
pub const TRIM_THRESHOLD: usize = 2 * 1024 * 1024;
/// sys_alloc maps align_up(nb + TOP_FOOT + 16, 64 KiB)
pub const TOP_FOOT: usize = 80;

fn jitter(r: &mut Rng) -> isize {
    *r.pick(&[-17isize, -16, -9, -8, -7, -1, 0, 0, 0, 1, 7, 8, 9, 15, 16, 17])
}
fn plus(base: usize, d: isize) -> usize {
    let v = base as isize + d;
    if v < 1 {
        1
    } else {
        v as usize
    }
}

/// `style`: 0 general, 1 small-heavy, 2 segment-heavy (64 KiB .. MiB), 3 tree-heavy, 4 general w/ more huge, 5 trim-heavy
pub fn gen_size(r: &mut Rng, style: u64, room: usize) -> usize {
    let class = match style {
        1 => *r.pick(&[0u8, 0, 0, 1, 1, 1, 1, 2, 2, 3, 7]),
        2 => *r.pick(&[0u8, 1, 3, 4, 4, 4, 5, 5, 5, 7, 6]),
        3 => *r.pick(&[1u8, 2, 2, 2, 3, 3, 3, 3, 7, 4]),
        4 => *r.pick(&[0u8, 1, 2, 3, 4, 5, 5, 6, 6, 7]),
        // trim-heavy: blocks of 64 KiB .. 8 MiB, so that frees next to top cross the trim threshold
        5 => *r.pick(&[4u8, 4, 5, 5, 5, 8, 8, 8, 3, 7]),
        _ => *r.pick(&[0u8, 0, 1, 1, 1, 2, 2, 3, 3, 3, 4, 5, 7, 7]),
    };
    let s = match class {
        // around MIN_CHUNK / MIN_REQUEST
        0 => *r.pick(&[1usize, 2, 3, 7, 8, 9, 15, 16, 17, 22, 23, 24, 25, 31, 32, 33, 39, 40, 41]),
        // small-bin edges: chunk sizes 8k, requests that pad to them
        1 => {
            let k = r.range(2, 33) as usize;
            plus(8 * k, *r.pick(&[-9isize, -8, -7, -1, 0, 1]))
        }
        // MAX_SMALL_REQUEST and the small/tree border
        2 => plus(*r.pick(&[232usize, 240, 248, 256, 264, 272, 504, 512]), jitter(r)),
        // tree-bin edges 2^n, 1.5*2^n (n = 8..20), with and without the chunk overhead
        3 => {
            let n = r.range(8, 20);
            let base = (1usize << n) + if r.chance(1, 3) { 1usize << (n - 1) } else { 0 };
            plus(base, jitter(r))
        }
        // granularity edges: request sizes that make sys_alloc's mapping size cross a 64 KiB multiple
        4 => {
            let m = r.range(1, 12) as usize;
            if r.chance(1, 2) {
                plus(GRANULARITY * m - TOP_FOOT - 16 - CHUNK_OVERHEAD, jitter(r))
            } else {
                plus(GRANULARITY * m, jitter(r))
            }
        }
        // trim threshold
        5 => plus(
            *r.pick(&[TRIM_THRESHOLD, TRIM_THRESHOLD - GRANULARITY, TRIM_THRESHOLD + GRANULARITY, TRIM_THRESHOLD / 2, 3 * TRIM_THRESHOLD / 2])
                - *r.pick(&[0usize, 0, TOP_FOOT + 24, 4096]),
            jitter(r),
        ),
        // 16..48 MiB
        6 => (16usize << 20) + r.below(32 << 20) as usize,
        // 2.5..8 MiB
        8 => (5usize << 19) + r.below(11 << 19) as usize,
        // log-uniform 1 .. 256 KiB
        _ => {
            let bits = r.range(0, 18);
            ((1u64 << bits) + r.below(1 << bits)) as usize
        }
    };
    if s > room {
        // keep the live set bounded: fall back to a small request
        1 + r.below(512) as usize
    } else {
        s
    }
}

pub fn gen_align(r: &mut Rng, style: u64) -> usize {
    let over = match style {
        1 => r.chance(1, 8),
        2 => r.chance(1, 6),
        _ => r.chance(1, 4),
    };
    if over {
        1usize << r.range(5, 13)
    } else {
        1usize << r.range(0, 4)
    }
}

pub fn size_class(size: usize) -> &'static str {
    let chunk = (size + CHUNK_OVERHEAD + 15) & !15;
    if chunk <= MIN_CHUNK {
        "min"
    } else if chunk < 256 {
        "small"
    } else if chunk < GRANULARITY {
        "tree<64K"
    } else if chunk < TRIM_THRESHOLD {
        "tree<2M"
    } else if size < (1usize << 40) {
        "huge"
    } else {
        "impossible"
    }
}
pub fn align_class(a: usize) -> &'static str {
    if a <= 16 {
        "a<=16"
    } else if a <= 256 {
        "a32-256"
    } else {
        "a512-8192"
    }
}

/// First field of /proc/self/statm (total program size in pages), read without allocating.
pub fn vmsize_pages() -> u64 {
    use std::io::Read;
    let mut buf = [0u8; 128];
    let Ok(mut f) = std::fs::File::open("/proc/self/statm") else {
        return 0;
    };
    let n = f.read(&mut buf).unwrap_or(0);
    let mut v = 0u64;
    for &c in &buf[..n] {
        if c.is_ascii_digit() {
            v = v * 10 + u64::from(c - b'0');
        } else {
            break;
        }
    }
    v
}
