//! C04, in-process half: the single-threaded workload shapes of `alloc_probe` on a PRIVATE Dlmalloc,
//! where `verif_stats().footprint` is the allocator's own figure of what it holds from the OS.
//!
//!   c04 fp <seed> <reps> <shape> <order>
//!   c04 fp <seed> <reps> steady <chunk> <mix> <policy> <primer> <delta> [align]   (bounded live set, see workload.rs)
//! output (same line format as alloc_probe, unit = 4 KiB pages):
//!   A <rep> <segments> <segment bytes outside top> <dvsize> <smallmap> <treemap>   (repeat shapes, everything freed)
//!   B 0 / R <index> <footprint pages> <failed calls> <VmSize pages above baseline> / S <peak live> <churned> <calls>
//! The workload is bracketed by sysmon BEGIN/END markers (scenario 4): under `sysmon --inject 4:*:1:25:...` the
//! kernel's answers to mremap / munmap are replaced by failures while the allocator trims and releases.
use h_alloc::workload::*;
use h_alloc::{install_crash_handlers, vmsize_pages, OP_KIND, PREFIX, WHERE, W_ALLOC_CALL};
use std::sync::atomic::Ordering::Relaxed;
use tiny_std::allocator::dlmalloc::Dlmalloc;
#[path = "/verif/engines/sysmon/marker.rs"]
mod marker;

extern "C" {
    fn mmap(addr: *mut u8, len: usize, prot: i32, flags: i32, fd: i32, off: i64) -> *mut u8;
    fn munmap(addr: *mut u8, len: usize) -> i32;
}
/// foreign mappings: PROT_NONE, MAP_PRIVATE | MAP_ANONYMOUS | MAP_NORESERVE, straight from libc
struct LibcOs;
impl Os for LibcOs {
    unsafe fn map(&mut self, len: usize) -> usize {
        let p = mmap(std::ptr::null_mut(), len, 0, 0x4022, -1, 0);
        if p as isize == -1 {
            0
        } else {
            p as usize
        }
    }
    unsafe fn unmap(&mut self, addr: usize, len: usize) {
        munmap(addr as *mut u8, len);
    }
}
fn foreign_of(a: &vh::Args) -> Foreign {
    a.rest
        .iter()
        .find_map(|s| s.strip_prefix("foreign=").and_then(Foreign::by_name))
        .unwrap_or_else(|| Foreign::new(0))
}

struct Private(Dlmalloc);
impl Heap for Private {
    #[inline]
    unsafe fn alloc(&mut self, size: usize, align: usize) -> *mut u8 {
        self.0.malloc(size, align)
    }
    #[inline]
    unsafe fn realloc(&mut self, p: *mut u8, old: usize, align: usize, new: usize) -> *mut u8 {
        self.0.realloc(p, old, align, new)
    }
    #[inline]
    unsafe fn free(&mut self, p: *mut u8, _size: usize, _align: usize) {
        self.0.free(p);
    }
}

fn main() {
    let a = vh::args();
    if a.mode != "fp" {
        vh::inconclusive(&format!("unknown mode {}", a.mode));
        return;
    }
    PREFIX.store(4, Relaxed);
    OP_KIND.store(7, Relaxed);
    install_crash_handlers();
    if a.rest.first().map(String::as_str) == Some("steady") {
        steady(&a);
        return;
    }
    let (Some(shape), Some(order)) = (
        a.rest.first().and_then(|s| shape_by_name(s)),
        a.rest.get(1).and_then(|s| order_by_name(s)),
    ) else {
        vh::inconclusive("bad shape/order");
        return;
    };
    if matches!(shape, Shape::VecAligned | Shape::VecShrink) {
        vh::inconclusive("the Vec shapes need the global allocator: alloc_probe only");
        return;
    }
    // a crash in here can only come from the allocator (the workload touches its own blocks only)
    let plan = plan(shape, a.seed, 1);
    let mut slots: Vec<Slot> = Vec::with_capacity(plan.len() + 16);
    let mut heap = Private(Dlmalloc::new());
    let mut total = RepStats::default();
    let base_vm = vmsize_pages();
    let mut foreign = foreign_of(&a);
    let mut fr = Prng::new(a.seed ^ 0xF0E1);
    let mut max_segments = 0usize;
    println!("B 0");
    marker::begin(4, 0, 0);
    WHERE.store(W_ALLOC_CALL, Relaxed);
    for rep in 0..a.budget {
        let mut st = RepStats::default();
        unsafe {
            // something else maps memory where the heap would have grown contiguously
            foreign.before(&mut LibcOs, &mut fr);
            rep_allocate(&mut heap, shape, &plan, &mut slots, &mut st);
            max_segments = max_segments.max(heap.0.verif_stats().segments);
            if samples_mid(shape) {
                let s = heap.0.verif_stats();
                println!("R {} {} 0 {}", rep, s.footprint / 4096, vmsize_pages().saturating_sub(base_vm + (foreign.bytes / 4096) as u64));
            }
            rep_free(&mut heap, order, a.seed ^ rep.wrapping_mul(0x9E37_79B9), &mut slots, &mut st);
            max_segments = max_segments.max(heap.0.verif_stats().segments);
            if foreign.policy != 0 {
                rep_flush(&mut heap, &mut st);
                max_segments = max_segments.max(heap.0.verif_stats().segments);
            }
            foreign.after(&mut LibcOs);
        }
        total.peak_live = total.peak_live.max(st.peak_live);
        total.churned += st.churned;
        total.calls += st.calls;
        total.failed += st.failed;
        let s = heap.0.verif_stats();
        println!("R {} {} {} {}", rep, s.footprint / 4096, st.failed, vmsize_pages().saturating_sub(base_vm + (foreign.bytes / 4096) as u64));
        // the allocator's books at all-freed quiescence: segment bytes that are NOT top (nothing is live, so with a
        // single segment everything must have coalesced into top), dv, bin maps
        println!("A {} {} {} {} {} {}", rep, s.segments, s.segment_bytes.saturating_sub(s.topsize), s.dvsize, s.smallmap, s.treemap);
    }
    marker::end(4, 0, 0, 0, 0);
    println!("S {} {} {} 0 {} {}", total.peak_live, total.churned, total.calls, max_segments, foreign.mapped);
}

fn steady(a: &vh::Args) {
    let g = |i: usize| a.rest.get(i).map(String::as_str).unwrap_or("");
    let chunk: usize = g(1).parse().unwrap_or(0);
    let mix: u8 = g(2).parse().unwrap_or(0);
    let policy = order_by_name(g(3));
    let primer = STEADY_PRIMERS.iter().position(|p| *p == g(4));
    let delta: isize = g(5).parse().unwrap_or(0);
    let align: usize = g(6).parse().unwrap_or(8).max(8);
    let (Some(policy), Some(primer)) = (policy, primer) else {
        vh::inconclusive("bad steady arguments");
        return;
    };
    if chunk < 32 || chunk % 16 != 0 || !align.is_power_of_two() {
        vh::inconclusive("bad steady chunk");
        return;
    }
    let p = Steady { chunk, mix, align, policy, primer: primer as u8, delta, live: steady_live(chunk), steps: steady_steps(chunk) };
    let mut slots: Vec<Slot> = Vec::with_capacity(p.live + 16);
    let mut extra: Vec<Slot> = Vec::with_capacity(STEADY_PRIMER_TRIES + 2);
    let mut heap = Private(Dlmalloc::new());
    let mut total = RepStats::default();
    let base_vm = vmsize_pages();
    let mut foreign = foreign_of(a);
    let mut fr = Prng::new(a.seed ^ 0xF0E1);
    let mut max_segments = 0usize;
    let mut ix = 0u64;
    println!("B 0");
    marker::begin(4, 1, 0);
    WHERE.store(W_ALLOC_CALL, Relaxed);
    for rep in 0..a.budget {
        let mut st = RepStats::default();
        let mut sample = |h: &mut Private| {
            // a foreign mapping at every sample point inside the steady phase
            unsafe { foreign.before(&mut LibcOs, &mut fr) };
            let s = h.0.verif_stats();
            max_segments = max_segments.max(s.segments);
            println!("R {} {} 0 {}", ix, s.footprint / 4096, vmsize_pages().saturating_sub(base_vm + (foreign.bytes / 4096) as u64));
            ix += 1;
        };
        unsafe { steady_rep(&mut heap, &p, a.seed ^ rep, &mut slots, &mut extra, &mut st, &mut sample) };
        total.peak_live = total.peak_live.max(st.peak_live);
        total.churned += st.churned;
        total.calls += st.calls;
        total.failed += st.failed;
        total.primed += st.primed;
        unsafe { foreign.after(&mut LibcOs) };
        let s = heap.0.verif_stats();
        println!("R {} {} {} {}", ix, s.footprint / 4096, st.failed, vmsize_pages().saturating_sub(base_vm + (foreign.bytes / 4096) as u64));
        ix += 1;
    }
    marker::end(4, 1, 0, 0, 0);
    println!("S {} {} {} {} {} {}", total.peak_live, total.churned, total.calls, total.primed, max_segments, foreign.mapped);
}
