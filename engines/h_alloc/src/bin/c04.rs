//! C04, in-process half: the single-threaded workload shapes of `alloc_probe` on a PRIVATE Dlmalloc,
//! where `verif_stats().footprint` is the allocator's own figure of what it holds from the OS.
//!
//!   c04 fp <seed> <reps> <shape> <order>
//! output (same line format as alloc_probe, unit = 4 KiB pages):
//!   B 0 / R <rep> <footprint pages> <failed calls> <VmSize pages above baseline> / S <peak live> <churned> <calls>
use h_alloc::workload::*;
use h_alloc::{install_crash_handlers, vmsize_pages, OP_KIND, PREFIX, WHERE, W_ALLOC_CALL};
use std::sync::atomic::Ordering::Relaxed;
use tiny_std::allocator::dlmalloc::Dlmalloc;

struct Private(Dlmalloc);
impl Heap for Private {
    #[inline]
    unsafe fn alloc(&mut self, size: usize, align: usize) -> *mut u8 {
        self.0.malloc(size, align)
    }
    #[inline]
    unsafe fn realloc(&mut self, p: *mut u8, old: usize, align: usize, new: usize) -> *mut u8 {
        self.0.realloc(p, old, align, new)
    }
    #[inline]
    unsafe fn free(&mut self, p: *mut u8, _size: usize, _align: usize) {
        self.0.free(p);
    }
}

fn main() {
    let a = vh::args();
    if a.mode != "fp" {
        vh::inconclusive(&format!("unknown mode {}", a.mode));
        return;
    }
    let (Some(shape), Some(order)) = (
        a.rest.first().and_then(|s| shape_by_name(s)),
        a.rest.get(1).and_then(|s| order_by_name(s)),
    ) else {
        vh::inconclusive("bad shape/order");
        return;
    };
    // a crash in here can only come from the allocator (the workload touches its own blocks only)
    PREFIX.store(4, Relaxed);
    OP_KIND.store(7, Relaxed);
    install_crash_handlers();
    let plan = plan(shape, a.seed, 1);
    let mut slots: Vec<Slot> = Vec::with_capacity(plan.len() + 16);
    let mut heap = Private(Dlmalloc::new());
    let mut total = RepStats::default();
    let base_vm = vmsize_pages();
    println!("B 0");
    WHERE.store(W_ALLOC_CALL, Relaxed);
    for rep in 0..a.budget {
        let mut st = RepStats::default();
        unsafe {
            rep_allocate(&mut heap, shape, &plan, &mut slots, &mut st);
            rep_free(&mut heap, order, a.seed ^ rep.wrapping_mul(0x9E37_79B9), &mut slots, &mut st);
        }
        total.peak_live = total.peak_live.max(st.peak_live);
        total.churned += st.churned;
        total.calls += st.calls;
        total.failed += st.failed;
        let s = heap.0.verif_stats();
        println!("R {} {} {} {}", rep, s.footprint / 4096, st.failed, vmsize_pages().saturating_sub(base_vm));
    }
    println!("S {} {} {}", total.peak_live, total.churned, total.calls);
}
