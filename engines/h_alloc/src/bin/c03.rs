//! C03: shadow-model monitor for tiny-std's Dlmalloc (private instance).
//!
//!   c03 hist  <seed> <nops> [w=<start>+<len>,...] [s=<start>+<len>:<r|R|u|U|b>,...] [k=<sweep period>] [k1from=<op>] [style=<n>]
//!       f= : before these op indices the process forks; the CHILD overwrites all its live blocks, frees / reallocs /
//!            mallocs a burst and leaves with _exit; the parent then re-verifies every live block and the heap invariants
//!       s= : around the allocator calls of these op indices the ptrace monitor sysmon (the process must run under it)
//!            is told to FAIL mremap (r: ENOMEM, R: EINVAL), munmap (u: ENOMEM, U: EINVAL) or both (b: ENOMEM)
//!       one history in this process; prints '@@' lines; exit 0 ok, 3 violation reported,
//!       4/5 harness crash / watchdog, 6 block corruption seen at a sweep (parent narrows down)
//!   c03 batch <seed> <budget> tier=<quick|thorough> shard=<i>/<n>
//!       plans histories + refusal windows, re-executes itself once per history (so that a crash
//!       inside the allocator is attributed to an op index), aggregates the children's reports.
use h_alloc::*;
use std::collections::{BTreeMap, BTreeSet};
use std::sync::atomic::Ordering::Relaxed;
use tiny_std::allocator::dlmalloc::{Dlmalloc, VerifStats};
use vh::Rng;
#[path = "/verif/engines/sysmon/marker.rs"]
mod marker;

const K_MALLOC: u8 = 0;
const K_CALLOC: u8 = 2;
const K_REALLOC: u8 = 4;
const K_FREE: u8 = 6;
const IMPOSSIBLE: usize = 1 << 47; // >= user address space: can never be served

const LIVE_BYTES_CAP: usize = 128 << 20;
const LIVE_BLOCKS_CAP: usize = 6000;
const SPARSE_ABOVE: usize = 128 << 10;
const EDGE: usize = 16 * 1024;

// ---------------------------------------------------------------------------------------------
// block patterns
#[inline]
fn pat_word(seed: u64, j: u64) -> u64 {
    let mut z = seed.wrapping_add(j.wrapping_mul(0x9E37_79B9_7F4A_7C15));
    z = (z ^ (z >> 29)).wrapping_mul(0xBF58_476D_1CE4_E5B9);
    z ^ (z >> 32)
}
#[inline]
fn pat_byte(seed: u64, i: usize) -> u8 {
    (pat_word(seed, (i / 8) as u64) >> ((i % 8) * 8)) as u8
}

/// byte ranges of a block that carry the pattern (everything for blocks up to 128 KiB; both 16 KiB
/// edges and the first 64 bytes of every page for larger ones)
fn for_ranges(size: usize, mut f: impl FnMut(usize, usize) -> bool) -> bool {
    if size <= SPARSE_ABOVE {
        return f(0, size);
    }
    if !f(0, EDGE) {
        return false;
    }
    let mut p = EDGE;
    while p + 64 <= size - EDGE {
        if !f(p, p + 64) {
            return false;
        }
        p += 4096;
    }
    f(size - EDGE, size)
}

unsafe fn fill_range(addr: usize, seed: u64, a: usize, b: usize) {
    let mut i = a;
    while i < b && i % 8 != 0 {
        ((addr + i) as *mut u8).write(pat_byte(seed, i));
        i += 1;
    }
    if (addr + i) % 8 == 0 {
        while i + 8 <= b {
            ((addr + i) as *mut u64).write(pat_word(seed, (i / 8) as u64));
            i += 8;
        }
    }
    while i < b {
        ((addr + i) as *mut u8).write(pat_byte(seed, i));
        i += 1;
    }
}
unsafe fn verify_range(addr: usize, seed: u64, a: usize, b: usize) -> Option<usize> {
    let mut i = a;
    while i < b && i % 8 != 0 {
        if ((addr + i) as *const u8).read() != pat_byte(seed, i) {
            return Some(i);
        }
        i += 1;
    }
    if (addr + i) % 8 == 0 {
        while i + 8 <= b {
            if ((addr + i) as *const u64).read() != pat_word(seed, (i / 8) as u64) {
                for j in i..i + 8 {
                    if ((addr + j) as *const u8).read() != pat_byte(seed, j) {
                        return Some(j);
                    }
                }
            }
            i += 8;
        }
    }
    while i < b {
        if ((addr + i) as *const u8).read() != pat_byte(seed, i) {
            return Some(i);
        }
        i += 1;
    }
    None
}
unsafe fn fill(addr: usize, size: usize, seed: u64) {
    WHERE.store(W_BLOCK_WRITE, Relaxed);
    for_ranges(size, |a, b| {
        fill_range(addr, seed, a, b);
        true
    });
    WHERE.store(W_OTHER, Relaxed);
}
/// first mismatching offset below `upto`
unsafe fn verify(addr: usize, size: usize, seed: u64, upto: usize) -> Option<usize> {
    WHERE.store(W_BLOCK_READ, Relaxed);
    let mut bad = None;
    for_ranges(size, |a, b| {
        let (a, b) = (a.min(upto), b.min(upto));
        if a < b {
            bad = verify_range(addr, seed, a, b);
        }
        bad.is_none()
    });
    WHERE.store(W_OTHER, Relaxed);
    bad
}
unsafe fn first_nonzero(addr: usize, size: usize) -> Option<usize> {
    WHERE.store(W_BLOCK_READ, Relaxed);
    let s = std::slice::from_raw_parts(addr as *const u8, size);
    let r = s.iter().position(|&b| b != 0);
    WHERE.store(W_OTHER, Relaxed);
    r
}

// ---------------------------------------------------------------------------------------------
// shadow model
#[derive(Clone, Debug)]
struct Block {
    size: usize,
    align: usize,
    seed: u64,
    id: u64,
    pos: usize,
}
struct Shadow {
    map: BTreeMap<usize, Block>,
    order: Vec<usize>,
    live_bytes: usize,
    next_id: u64,
    max_live: usize,
}
impl Shadow {
    fn overlap(&self, addr: usize, size: usize) -> Option<(usize, usize)> {
        // live blocks are pairwise disjoint, so only the last one starting below our end can overlap
        let end = addr + size.max(1);
        if let Some((&a, b)) = self.map.range(..end).next_back() {
            if a + b.size.max(1) > addr {
                return Some((a, b.size));
            }
        }
        None
    }
    fn insert(&mut self, addr: usize, size: usize, align: usize, seed: u64) {
        let id = self.next_id;
        self.next_id += 1;
        let pos = self.order.len();
        self.order.push(addr);
        self.map.insert(addr, Block { size, align, seed, id, pos });
        self.live_bytes += size;
        self.max_live = self.max_live.max(self.order.len());
    }
    fn remove(&mut self, addr: usize) -> Block {
        let b = self.map.remove(&addr).expect("shadow: unknown block");
        self.order.swap_remove(b.pos);
        if b.pos < self.order.len() {
            let moved = self.order[b.pos];
            self.map.get_mut(&moved).unwrap().pos = b.pos;
        }
        self.live_bytes -= b.size;
        b
    }
}

// ---------------------------------------------------------------------------------------------
#[derive(Clone, Copy, Debug)]
enum Op {
    Malloc { size: usize, align: usize, zero: bool },
    Realloc { addr: usize, new_size: usize },
    Free { addr: usize },
}

#[derive(Clone, Copy, PartialEq, Eq, Debug)]
enum Phase {
    Grow,
    Churn,
    Drain,
    Sweep,
}

struct Gen {
    /// allocator figures before the call (generation hints only): top and dv sizes, and the block
    /// that was most recently carved from top (it is likely to border on top)
    topsize: usize,
    dvsize: usize,
    last_top_block: usize,
    r: Rng,
    style: u64,
    phase: Phase,
    left: u64,
    queue: Vec<usize>,
    sweep_kind: &'static str,
}
impl Gen {
    fn new_phase(&mut self, sh: &Shadow) {
        let n = sh.order.len();
        let pick = self.r.below(10);
        self.phase = if n == 0 {
            Phase::Grow
        } else if n > LIVE_BLOCKS_CAP {
            Phase::Sweep
        } else {
            match pick {
                0..=2 => Phase::Grow,
                3..=5 => Phase::Churn,
                6..=7 => Phase::Drain,
                _ => Phase::Sweep,
            }
        };
        self.left = match self.r.below(3) {
            0 => self.r.range(5, 40),
            1 => self.r.range(40, 200),
            _ => self.r.range(100, 500),
        };
        if self.phase == Phase::Sweep {
            // free (a fraction of) everything in a definite order
            let mut v: Vec<(usize, u64)> = sh.map.iter().map(|(&a, b)| (a, b.id)).collect();
            let kind = self.r.below(6);
            match kind {
                0 => self.sweep_kind = "address-order", // already sorted by address
                1 => {
                    v.reverse();
                    self.sweep_kind = "reverse-address";
                }
                2 => {
                    v.sort_by_key(|x| x.1);
                    self.sweep_kind = "fifo";
                }
                3 => {
                    v.sort_by_key(|x| std::cmp::Reverse(x.1));
                    self.sweep_kind = "lifo";
                }
                4 => {
                    // every second block in address order, then the rest: maximal fragmentation, then coalescing
                    let (a, b): (Vec<_>, Vec<_>) = v.iter().enumerate().partition(|(i, _)| i % 2 == 0);
                    v = a.into_iter().chain(b).map(|(_, x)| *x).collect();
                    self.sweep_kind = "alternate";
                }
                _ => {
                    for i in (1..v.len()).rev() {
                        let j = self.r.below(i as u64 + 1) as usize;
                        v.swap(i, j);
                    }
                    self.sweep_kind = "random";
                }
            }
            let keep = match self.r.below(4) {
                0 => v.len() / 2,
                1 => v.len() / 8,
                _ => 0,
            };
            v.truncate(v.len() - keep);
            v.reverse(); // popped from the back
            self.queue = v.into_iter().map(|x| x.0).collect();
            self.left = self.queue.len() as u64;
            vh::distinct(&format!("phase/sweep/{}", self.sweep_kind));
        }
    }
    fn new_size_for(&mut self, old: usize, room: usize) -> usize {
        let s = match self.r.below(10) {
            0 => old + 1,
            1 => old.saturating_sub(1).max(1),
            2 => old + 8 * self.r.range(1, 6) as usize,
            3 => old * 2,
            4 => (old / 2).max(1),
            5 => old + (old / 8).max(1),
            6 => ((old + 8 + 15) & !15) - 8 + *self.r.pick(&[0usize, 1, 16, 17]), // chunk capacity and just beyond
            7 => (old / 4).max(1),
            _ => gen_size(&mut self.r, self.style, room),
        };
        if s > old && s - old > room {
            old + 1
        } else {
            s
        }
    }
    fn next(&mut self, sh: &Shadow, refusing: bool) -> Op {
        if refusing && self.r.chance(1, 2) {
            // while the kernel refuses, ask for more than the heap is likely to hold
            let room = LIVE_BYTES_CAP.saturating_sub(sh.live_bytes);
            let size = match self.r.below(3) {
                0 => gen_size(&mut self.r, 2, room),
                1 => (1usize << self.r.range(16, 25)) + self.r.below(4096) as usize,
                _ => (16usize << 20) + self.r.below(32 << 20) as usize,
            };
            let align = gen_align(&mut self.r, self.style);
            if !sh.order.is_empty() && self.r.chance(1, 3) {
                let addr = sh.order[self.r.below(sh.order.len() as u64) as usize];
                return Op::Realloc { addr, new_size: size };
            }
            return Op::Malloc { size, align, zero: self.r.chance(1, 4) };
        }
        if self.left == 0 || (self.phase == Phase::Sweep && self.queue.is_empty()) {
            self.new_phase(sh);
        }
        self.left -= 1;
        if self.phase == Phase::Sweep {
            // (a refusal-window op may have moved or replaced a queued block in the meantime)
            while let Some(a) = self.queue.pop() {
                if sh.map.contains_key(&a) {
                    return Op::Free { addr: a };
                }
            }
        }
        let n = sh.order.len();
        let room = LIVE_BYTES_CAP.saturating_sub(sh.live_bytes);
        let p_alloc = match self.phase {
            Phase::Grow => 80,
            Phase::Churn => 50,
            _ => 20,
        };
        let roll = self.r.below(100);
        if self.style == 5 && n > 0 && sh.map.contains_key(&self.last_top_block) && self.r.chance(1, 4) {
            // trim-heavy: work on the block bordering on top: shrink it in place (the tail joins top) or free it
            // (top may cross the trim threshold: sys_trim, release_unused_segments)
            let addr = self.last_top_block;
            let old = sh.map[&addr].size;
            return match self.r.below(3) {
                0 => Op::Free { addr },
                1 => Op::Realloc { addr, new_size: (old * 4 / 7).max(1) },
                _ => Op::Realloc { addr, new_size: (old / 2 + self.r.below(4096) as usize).max(1) },
            };
        }
        if n > 0 && self.r.chance(if self.style == 5 { 25 } else { 15 }, 100) {
            let addr = sh.order[self.r.below(n as u64) as usize];
            let old = sh.map[&addr].size;
            let new_size = if self.r.chance(1, 400) {
                *self.r.pick(&[IMPOSSIBLE, 1 << 62, isize::MAX as usize - 8191])
            } else {
                self.new_size_for(old, room)
            };
            if self.r.chance(1, 6) && sh.map.contains_key(&self.last_top_block) {
                // grow the block bordering on top so that top is consumed exactly / almost / not quite
                let addr = self.last_top_block;
                let chunk = ((sh.map[&addr].size + 8 + 15) & !15).max(32);
                let want = (chunk + self.topsize).saturating_sub(8) as isize + *self.r.pick(&[-32isize, -16, -1, 0, 0, 1, 16]);
                if want > 0 && (want as usize) < room {
                    return Op::Realloc { addr, new_size: want as usize };
                }
            }
            return Op::Realloc { addr, new_size };
        }
        if n == 0 || (roll < p_alloc && n < LIVE_BLOCKS_CAP + 500) {
            let align = gen_align(&mut self.r, self.style);
            let mut size = if self.r.chance(1, 400) {
                *self.r.pick(&[IMPOSSIBLE, 1 << 62, isize::MAX as usize - 8191])
            } else {
                gen_size(&mut self.r, self.style, room)
            };
            if self.r.chance(1, 12) {
                // exactly / almost the size of top or of the designated victim
                let base = if self.r.chance(1, 2) { self.topsize } else { self.dvsize };
                let want = base as isize - 8 + *self.r.pick(&[-32isize, -16, -1, 0, 0, 1, 16]);
                if want > 0 && (want as usize) < room {
                    size = want as usize;
                }
            }
            return Op::Malloc { size, align, zero: self.r.chance(1, 4) };
        }
        // free: random block, or the most recent / oldest one
        let idx = match self.r.below(4) {
            0 => n - 1,
            1 => 0,
            _ => self.r.below(n as u64) as usize,
        };
        Op::Free { addr: sh.order[idx] }
    }
}

fn parse_windows(s: &str) -> Vec<(u64, u64)> {
    let mut v = Vec::new();
    for part in s.split(',') {
        if let Some((a, b)) = part.split_once('+') {
            if let (Ok(a), Ok(b)) = (a.parse(), b.parse()) {
                v.push((a, b));
            }
        }
    }
    v
}

struct Counts {
    ops: [u64; 8],
    nulls_refused: u64,
    served_refused: u64,
    refused_calls: u64,
    refused_free_calls: u64,
    impossible_null: u64,
    sweeps: u64,
    blocks_verified: u64,
    bytes_verified: u64,
    checker_runs: u64,
    realloc_inplace: u64,
    realloc_moved: u64,
    usable_after_refusal: u64,
}

fn stats_json(s: &VerifStats) -> String {
    format!(
        "{{\"footprint\":{},\"topsize\":{},\"dvsize\":{},\"segments\":{},\"segment_bytes\":{},\"smallmap\":{},\"treemap\":{}}}",
        s.footprint, s.topsize, s.dvsize, s.segments, s.segment_bytes, s.smallmap, s.treemap
    )
}

struct Hist {
    seed: u64,
    nops: u64,
    faultspec: String,
    recent: std::collections::VecDeque<String>,
}
impl Hist {
    fn ctx(&self, i: u64) -> String {
        format!(
            "\"op_index\":{},\"seed\":{},\"nops\":{},\"faults\":{},\"profile\":{},\"replay\":{}",
            i,
            self.seed,
            self.nops,
            vh::js(&self.faultspec),
            vh::js(if cfg!(debug_assertions) { "debug" } else { "release" }),
            vh::js(&format!("c03 hist {} {} {}", self.seed, self.nops, self.faultspec))
        )
    }
    fn recent_json(&self) -> String {
        let v: Vec<String> = self.recent.iter().map(|s| vh::js(s)).collect();
        format!("[{}]", v.join(","))
    }
}

fn classify_alloc(b: &VerifStats, a: &VerifStats) -> &'static str {
    if a.footprint > b.footprint {
        if a.segments > b.segments {
            "new-segment"
        } else {
            "grown-segment"
        }
    } else if a.topsize < b.topsize {
        "top"
    } else if a.treemap != b.treemap {
        "tree"
    } else if a.dvsize != b.dvsize {
        "dv"
    } else if a.smallmap != b.smallmap {
        "smallbin"
    } else {
        "bin-maps-unchanged"
    }
}
fn classify_free(b: &VerifStats, a: &VerifStats) -> &'static str {
    if a.footprint < b.footprint {
        if a.segments < b.segments {
            "segment-released"
        } else {
            "trimmed"
        }
    } else if a.topsize > b.topsize {
        "into-top"
    } else if a.dvsize > b.dvsize {
        "into-dv"
    } else if a.treemap != b.treemap || a.smallmap != b.smallmap {
        "binned-new-bin"
    } else {
        "binned"
    }
}

fn hist(seed: u64, nops: u64, rest: &[String]) -> i32 {
    let mut faultspec = String::new();
    let mut sysspec = String::new();
    let mut forks: Vec<u64> = Vec::new();
    let mut k: u64 = 0;
    let mut k1from: u64 = u64::MAX;
    let mut style = seed % 5;
    for a in rest {
        if let Some(v) = a.strip_prefix("w=") {
            faultspec = v.to_string();
        } else if let Some(v) = a.strip_prefix("s=") {
            sysspec = v.to_string();
        } else if let Some(v) = a.strip_prefix("k=") {
            k = v.parse().unwrap_or(0);
        } else if let Some(v) = a.strip_prefix("f=") {
            forks = v.split(',').filter_map(|x| x.parse().ok()).collect();
        } else if let Some(v) = a.strip_prefix("k1from=") {
            k1from = v.parse().unwrap_or(u64::MAX);
        } else if let Some(v) = a.strip_prefix("style=") {
            style = v.parse().unwrap_or(style);
        }
    }
    let windows = parse_windows(&faultspec);
    // (start, len, kind) with kind one of r R u U b
    let syswin: Vec<(u64, u64, u8)> = sysspec
        .split(',')
        .filter_map(|part| {
            let (w, kind) = part.split_once(':')?;
            let (a, b) = w.split_once('+')?;
            Some((a.parse().ok()?, b.parse().ok()?, *kind.as_bytes().first()?))
        })
        .collect();
    // everything needed to re-run this history, as arguments
    let forkspec: Vec<String> = forks.iter().map(|f| f.to_string()).collect();
    let argspec = format!("w={faultspec} s={sysspec} f={} style={style}", forkspec.join(","));
    if k == 0 {
        k = if nops <= 400 { 8 } else { 64 };
    }
    H_SEED.store(seed, Relaxed);
    H_NOPS.store(nops, Relaxed);
    OP_KIND.store(7, Relaxed);
    set_faultspec(&argspec);
    rlimit_init();
    install_crash_handlers();
    set_alarm(if cfg!(debug_assertions) { 600 } else { 300 });
    pretouch_stack(1 << 20);
    // the panic hook restores the limit first, so that unwinding may allocate
    std::panic::set_hook(Box::new(|info| {
        refuse_off();
        let loc = info.location().map(|l| format!("{}:{}", l.file(), l.line())).unwrap_or_default();
        if WHERE.load(Relaxed) == W_OTHER {
            eprintln!("harness panic: {info}");
        }
        *PANIC_LOC.lock().unwrap() = loc;
    }));
    // keep some free space in libc's own heap (its growth is refused in the window as well)
    {
        let v: Vec<Vec<u8>> = (0..8).map(|_| vec![1u8; 60_000]).collect();
        std::hint::black_box(&v);
    }
    if !windows.is_empty() {
        refuse_on();
        let g = os_grants(1 << 16);
        refuse_off();
        if g || !os_grants(1 << 16) {
            vh::inconclusive("RLIMIT_AS refusal window is not effective in this environment");
            return 0;
        }
    }

    let mut a = Dlmalloc::new();
    let mut sh = Shadow { map: BTreeMap::new(), order: Vec::with_capacity(8192), live_bytes: 0, next_id: 0, max_live: 0 };
    let mut g = Gen { topsize: 0, dvsize: 0, last_top_block: 0, r: Rng::new(seed), style, phase: Phase::Grow, left: 0, queue: Vec::new(), sweep_kind: "" };
    let mut pr = Rng::new(seed ^ 0xABCD_EF01);
    let mut c = Counts {
        ops: [0; 8],
        nulls_refused: 0,
        served_refused: 0,
        refused_calls: 0,
        refused_free_calls: 0,
        impossible_null: 0,
        sweeps: 0,
        blocks_verified: 0,
        bytes_verified: 0,
        checker_runs: 0,
        realloc_inplace: 0,
        realloc_moved: 0,
        usable_after_refusal: 0,
    };
    let mut h = Hist { seed, nops, faultspec: argspec.clone(), recent: std::collections::VecDeque::new() };
    if !syswin.is_empty() && !marker::traced() {
        vh::inconclusive("s= windows need the process to run under sysmon");
        return 0;
    }
    let mut sys_calls = 0u64;
    let mut last_clean: u64 = 0;
    let mut had_refusal = false;
    let mut oom_samples = 0;
    let mut rc = 0;
    vh::distinct(&format!("style/{style}"));

    macro_rules! viol {
        ($sig:expr, $i:expr, $($fmt:tt)*) => {{
            vh::viol(&tagged(&$sig), &format!("{{{},{},\"recent_ops\":{}}}", format!($($fmt)*), h.ctx($i), h.recent_json()));
            rc = 3;
        }};
    }

    let mut i: u64 = 0;
    let mut fork_steps = 0u64;
    let mut fork_blocks = 0u64;
    'ops: while i < nops {
        if forks.contains(&i) {
            // ---- fork step: what a forked child does to ITS heap must not reach the parent's live blocks ----
            OP_INDEX.store(i, Relaxed);
            OP_KIND.store(7, Relaxed);
            h.recent.push_back(format!("{i}:fork (child overwrites its {} live blocks, frees/reallocs/mallocs, _exit)", sh.map.len()));
            let blocks: Vec<(usize, Block)> = sh.map.iter().map(|(&ad, b)| (ad, b.clone())).collect();
            let pid = fork_process();
            if pid == 0 {
                let code = match std::panic::catch_unwind(std::panic::AssertUnwindSafe(|| unsafe { forked_child(&mut a, &blocks, seed ^ i) })) {
                    Ok(()) => 0,
                    Err(_) => 9,
                };
                exit_now(code);
            }
            if pid < 0 {
                vh::inconclusive(&format!("fork failed at op {i} (seed {seed})"));
            } else {
                let status = wait_for(pid);
                fork_steps += 1;
                if status != 0 {
                    if status == 9 << 8 {
                        viol!("C03/fork/panic-in-forked-child".to_string(), i, "\"live_blocks\":{}", blocks.len());
                    } else if status != 3 << 8 {
                        // (exit 3: the child's own crash handler has reported)
                        vh::inconclusive(&format!("forked child ended with wait status {status:#x} at op {i} (seed {seed})"));
                    } else {
                        rc = 3;
                    }
                }
                for (ad, b) in &blocks {
                    fork_blocks += 1;
                    if let Some(off) = unsafe { verify(*ad, b.size, b.seed, b.size) } {
                        let got = unsafe { ((*ad + off) as *const u8).read() };
                        viol!("C03/fork/live-block-changed-by-forked-child".to_string(), i,
                            "\"block_size\":{},\"block_align\":{},\"offset\":{},\"byte_is_what_the_child_wrote\":{},\"live_blocks\":{}",
                            b.size, b.align, off, got == pat_byte(b.seed ^ CHILD_XOR, off), blocks.len());
                        break;
                    }
                }
                WHERE.store(W_CHECK_CALL, Relaxed);
                let ran = std::panic::catch_unwind(std::panic::AssertUnwindSafe(|| unsafe { a.verif_check() }));
                WHERE.store(W_OTHER, Relaxed);
                if ran.is_err() {
                    viol!("C03/fork/heap-invariant-broken-after-forked-child".to_string(), i, "\"at\":{}", vh::js(&PANIC_LOC.lock().unwrap()));
                }
                if rc != 0 {
                    break 'ops;
                }
                last_clean = i;
            }
        }
        let refusing = windows.iter().any(|&(s, l)| i >= s && i < s + l);
        let sysfail = syswin.iter().find(|&&(s, l, _)| i >= s && i < s + l).map(|w| w.2);
        {
            let st = a.verif_stats();
            g.topsize = st.topsize;
            g.dvsize = st.dvsize;
        }
        let op = g.next(&sh, refusing);
        let (kind, size, align, new_size) = match op {
            Op::Malloc { size, align, zero } => ((if zero { K_CALLOC } else { K_MALLOC }) + u8::from(align > 16), size, align, 0),
            Op::Realloc { addr, new_size } => {
                let b = &sh.map[&addr];
                (K_REALLOC + u8::from(b.align > 16), b.size, b.align, new_size)
            }
            Op::Free { addr } => {
                let b = &sh.map[&addr];
                (K_FREE, b.size, b.align, 0)
            }
        };
        let kname = KIND_NAMES[kind as usize];
        OP_INDEX.store(i, Relaxed);
        OP_KIND.store(kind, Relaxed);
        OP_SIZE.store(size as u64, Relaxed);
        OP_ALIGN.store(align as u64, Relaxed);
        OP_NEW_SIZE.store(new_size as u64, Relaxed);
        OP_REFUSED.store(refusing, Relaxed);
        if h.recent.len() >= 24 {
            h.recent.pop_front();
        }
        h.recent.push_back(format!(
            "{i}:{kname} size={size} align={align} new_size={new_size}{}{}",
            if refusing { " [kernel refusing]" } else { "" },
            match sysfail {
                Some(b'r') | Some(b'R') => " [mremap fails]",
                Some(b'u') | Some(b'U') => " [munmap fails]",
                Some(_) => " [mremap+munmap fail]",
                None => "",
            }
        ));
        c.ops[kind as usize] += 1;

        // the block an op consumes must still carry what its owner wrote
        if let Op::Realloc { addr, .. } | Op::Free { addr } = op {
            let b = sh.map[&addr].clone();
            if let Some(off) = unsafe { verify(addr, b.size, b.seed, b.size) } {
                vh::viol(
                    &tagged("C03/narrow/live-block-changed"),
                    &format!(
                        "{{\"detected\":\"before {kname}\",\"block_size\":{},\"block_align\":{},\"offset\":{},\"clean_at\":{},{},\"recent_ops\":{}}}",
                        b.size, b.align, off, last_clean, h.ctx(i), h.recent_json()
                    ),
                );
                println!("##NARROW {last_clean}");
                return 6;
            }
        }

        let before = a.verif_stats();
        let free_upper = before.footprint.saturating_sub(sh.live_bytes);
        // ---- the allocator call, alone inside the refusal window --------------------------
        if refusing {
            refuse_on();
        }
        if let Some(kind) = sysfail {
            // from now until DISARM every mremap / munmap of this thread is not executed and fails
            sys_calls += 1;
            let many = 1i64 << 40;
            if matches!(kind, b'r' | b'R' | b'b') {
                FAULT_TAG.fetch_or(1, Relaxed);
                marker::inject(marker::SCOPE_THREAD, 25, 0, if kind == b'R' { -22 } else { -12 }, many);
            }
            if matches!(kind, b'u' | b'U' | b'b') {
                FAULT_TAG.fetch_or(2, Relaxed);
                marker::inject(marker::SCOPE_THREAD, 11, 0, if kind == b'U' { -22 } else { -12 }, many);
            }
        }
        WHERE.store(W_ALLOC_CALL, Relaxed);
        let res = std::panic::catch_unwind(std::panic::AssertUnwindSafe(|| unsafe {
            match op {
                Op::Malloc { size, align, zero } => {
                    if zero {
                        a.calloc(size, align) as usize
                    } else {
                        a.malloc(size, align) as usize
                    }
                }
                Op::Realloc { addr, new_size } => a.realloc(addr as *mut u8, size, align, new_size) as usize,
                Op::Free { addr } => {
                    a.free(addr as *mut u8);
                    0
                }
            }
        }));
        WHERE.store(W_OTHER, Relaxed);
        if sysfail.is_some() {
            marker::disarm();
        }
        refuse_off();
        // ------------------------------------------------------------------------------------
        let p = match res {
            Ok(p) => p,
            Err(e) => {
                let msg = e.downcast_ref::<&str>().map(|s| (*s).to_string()).or_else(|| e.downcast_ref::<String>().cloned()).unwrap_or_default();
                viol!(format!("C03/{kname}/panic-in-allocator"), i, "\"panic\":{},\"at\":{},\"size\":{},\"align\":{},\"new_size\":{},\"kernel_refusing\":{}",
                    vh::js(&msg), vh::js(&PANIC_LOC.lock().unwrap()), size, align, new_size, refusing);
                break 'ops;
            }
        };
        let after = a.verif_stats();
        if refusing {
            had_refusal = true;
            if kind == K_FREE {
                c.refused_free_calls += 1;
            } else {
                c.refused_calls += 1;
            }
            if after.footprint > before.footprint {
                viol!(format!("C03/{kname}/footprint-grew-while-kernel-refused"), i, "\"before\":{},\"after\":{}", stats_json(&before), stats_json(&after));
            }
        }
        let want = match op {
            Op::Malloc { size, .. } => size,
            Op::Realloc { new_size, .. } => new_size,
            Op::Free { .. } => 0,
        };
        let mut path: &str = "null";
        match op {
            Op::Free { addr } => {
                sh.remove(addr);
                path = classify_free(&before, &after);
            }
            Op::Malloc { .. } | Op::Realloc { .. } if p == 0 => {
                // null: legitimate when the kernel refused (by us, or because the size is impossible)
                if want >= IMPOSSIBLE {
                    c.impossible_null += 1;
                } else if refusing {
                    c.nulls_refused += 1;
                    if oom_samples < 2 {
                        oom_samples += 1;
                        vh::sample(
                            &format!("{{\"case\":\"kernel refused\",\"op\":{},\"size\":{},\"align\":{},\"new_size\":{},\"result\":\"null\",\"free_upper_bound\":{},\"stats\":{},{}}}",
                                vh::js(kname), size, align, new_size, free_upper, stats_json(&before), h.ctx(i)),
                            3,
                        );
                    }
                } else if os_grants(want + align + (GRANULARITY << 1)) {
                    viol!(format!("C03/{kname}/null-although-os-grants-memory"), i,
                        "\"size\":{},\"align\":{},\"new_size\":{},\"after_refusal\":{},\"stats\":{}", size, align, new_size, had_refusal, stats_json(&before));
                } else {
                    vh::inconclusive(&format!("op {i}: null and the OS itself refuses {want} bytes (seed {seed})"));
                }
                if let Op::Realloc { addr, .. } = op {
                    // failed realloc: the old block must be untouched and still live
                    let b = sh.map[&addr].clone();
                    if let Some(off) = unsafe { verify(addr, b.size, b.seed, b.size) } {
                        viol!(format!("C03/{kname}/old-block-damaged-by-failed-realloc"), i, "\"offset\":{},\"size\":{},\"new_size\":{}", off, size, new_size);
                    }
                }
            }
            Op::Malloc { size, align, zero } => {
                path = classify_alloc(&before, &after);
                if size >= IMPOSSIBLE {
                    viol!(format!("C03/{kname}/non-null-for-impossible-size"), i, "\"size\":{},\"align\":{}", size, align);
                    break 'ops;
                }
                if p & (align - 1) != 0 {
                    viol!(format!("C03/{kname}/misaligned"), i, "\"size\":{},\"align\":{},\"addr_mod_align\":{}", size, align, p & (align - 1));
                }
                if let Some((oa, os)) = sh.overlap(p, size) {
                    viol!(format!("C03/{kname}/overlaps-live-block"), i, "\"size\":{},\"align\":{},\"other_size\":{},\"new_minus_other_start\":{}", size, align, os, p as i128 - oa as i128);
                    break 'ops;
                }
                if refusing {
                    c.served_refused += 1;
                    if size > free_upper {
                        viol!(format!("C03/{kname}/served-beyond-held-memory-while-kernel-refused"), i, "\"size\":{},\"align\":{},\"free_upper_bound\":{},\"before\":{},\"after\":{}", size, align, free_upper, stats_json(&before), stats_json(&after));
                    }
                    if oom_samples < 2 {
                        oom_samples += 1;
                        vh::sample(&format!("{{\"case\":\"kernel refused\",\"op\":{},\"size\":{},\"align\":{},\"result\":\"served from held memory\",\"path\":{},\"free_upper_bound\":{},{}}}",
                            vh::js(kname), size, align, vh::js(path), free_upper, h.ctx(i)), 3);
                    }
                } else if had_refusal {
                    c.usable_after_refusal += 1;
                }
                if zero {
                    if let Some(off) = unsafe { first_nonzero(p, size) } {
                        viol!(format!("C03/{kname}/not-zeroed"), i, "\"size\":{},\"align\":{},\"offset\":{},\"path\":{}", size, align, off, vh::js(path));
                    }
                }
                let s = pr.next();
                unsafe { fill(p, size, s) };
                sh.insert(p, size, align, s);
                if matches!(path, "top" | "new-segment" | "grown-segment") {
                    g.last_top_block = p;
                }
            }
            Op::Realloc { addr, new_size } => {
                let old = sh.remove(addr);
                if new_size >= IMPOSSIBLE {
                    viol!(format!("C03/{kname}/non-null-for-impossible-size"), i, "\"new_size\":{}", new_size);
                    break 'ops;
                }
                let moved = p != addr;
                if moved {
                    c.realloc_moved += 1;
                } else {
                    c.realloc_inplace += 1;
                }
                path = if moved {
                    "moved"
                } else if after.topsize < before.topsize {
                    "inplace-into-top"
                } else if after.dvsize < before.dvsize {
                    "inplace-into-dv"
                } else if new_size <= old.size {
                    "inplace-shrink"
                } else {
                    "inplace-next-free-or-slack"
                };
                if p & (old.align - 1) != 0 {
                    viol!(format!("C03/{kname}/misaligned"), i, "\"size\":{},\"align\":{},\"new_size\":{},\"addr_mod_align\":{}", old.size, old.align, new_size, p & (old.align - 1));
                }
                if let Some((oa, os)) = sh.overlap(p, new_size) {
                    viol!(format!("C03/{kname}/overlaps-live-block"), i, "\"size\":{},\"new_size\":{},\"other_size\":{},\"new_minus_other_start\":{},\"moved\":{}", old.size, new_size, os, p as i128 - oa as i128, moved);
                    break 'ops;
                }
                if refusing {
                    c.served_refused += 1;
                    let need = if moved { new_size } else { new_size.saturating_sub(old.size) };
                    if need > free_upper {
                        viol!(format!("C03/{kname}/served-beyond-held-memory-while-kernel-refused"), i, "\"size\":{},\"new_size\":{},\"moved\":{},\"free_upper_bound\":{},\"before\":{},\"after\":{}", old.size, new_size, moved, free_upper, stats_json(&before), stats_json(&after));
                    }
                } else if had_refusal {
                    c.usable_after_refusal += 1;
                }
                let common = old.size.min(new_size);
                // same sampled ranges as when the old block was written, cut at the common prefix
                if let Some(off) = unsafe { verify(p, old.size, old.seed, common) } {
                    viol!(format!("C03/{kname}/prefix-not-preserved"), i, "\"size\":{},\"new_size\":{},\"align\":{},\"offset\":{},\"moved\":{},\"path\":{}", old.size, new_size, old.align, off, moved, vh::js(path));
                }
                let s = pr.next();
                unsafe { fill(p, new_size, s) };
                sh.insert(p, new_size, old.align, s);
                if matches!(path, "inplace-into-top") || (moved && after.topsize < before.topsize) {
                    g.last_top_block = p;
                }
            }
        }
        vh::distinct(&format!("{kname}/{}/{}/{}{}", size_class(if kind >= K_REALLOC && kind < K_FREE { new_size } else { size }), align_class(align), path, if refusing { "/refused" } else { "" }));

        // the allocator's own accounting must cover the live bytes
        if after.footprint < sh.live_bytes {
            viol!(format!("C03/{kname}/footprint-below-live-bytes"), i, "\"live_bytes\":{},\"stats\":{}", sh.live_bytes, stats_json(&after));
        }
        // the repository's invariant walker (debug builds only)
        WHERE.store(W_CHECK_CALL, Relaxed);
        let ran = std::panic::catch_unwind(std::panic::AssertUnwindSafe(|| unsafe { a.verif_check() }));
        WHERE.store(W_OTHER, Relaxed);
        match ran {
            Ok(true) => c.checker_runs += 1,
            Ok(false) => {}
            Err(e) => {
                let msg = e.downcast_ref::<&str>().map(|s| (*s).to_string()).or_else(|| e.downcast_ref::<String>().cloned()).unwrap_or_default();
                viol!(format!("C03/{kname}/heap-invariant-broken"), i, "\"panic\":{},\"at\":{},\"size\":{},\"align\":{},\"new_size\":{},\"kernel_refusing\":{},\"path\":{}",
                    vh::js(&msg), vh::js(&PANIC_LOC.lock().unwrap()), size, align, new_size, refusing, vh::js(path));
                break 'ops;
            }
        }
        if rc != 0 {
            break 'ops;
        }

        // all live blocks intact? (every k ops, after every refused call, every op in a narrowing run)
        i += 1;
        let sys_sweep = sysfail.is_some() && (after.footprint != before.footprint || after.topsize != before.topsize || after.segments != before.segments);
        if i % k == 0 || refusing || sys_sweep || i > k1from || i == nops {
            c.sweeps += 1;
            for (&addr, b) in &sh.map {
                c.blocks_verified += 1;
                c.bytes_verified += b.size.min(SPARSE_ABOVE) as u64;
                if let Some(off) = unsafe { verify(addr, b.size, b.seed, b.size) } {
                    if i - last_clean <= 1 {
                        // pinned to one call
                        viol!(format!("C03/{kname}/changes-other-live-block"), i - 1,
                            "\"victim_size\":{},\"victim_align\":{},\"victim_offset\":{},\"victim_minus_result\":{},\"size\":{},\"align\":{},\"new_size\":{},\"path\":{},\"kernel_refusing\":{}",
                            b.size, b.align, off, addr as i128 - p as i128, size, align, new_size, vh::js(path), refusing);
                        break 'ops;
                    }
                    vh::viol(
                        &tagged("C03/narrow/live-block-changed"),
                        &format!("{{\"detected\":\"sweep after op {}\",\"block_size\":{},\"block_align\":{},\"offset\":{},\"clean_at\":{},{},\"recent_ops\":{}}}",
                            i - 1, b.size, b.align, off, last_clean, h.ctx(i - 1), h.recent_json()),
                    );
                    println!("##NARROW {last_clean}");
                    return 6;
                }
            }
            last_clean = i;
        }
    }

    // drain: everything can be given back and the heap ends consistent
    if rc == 0 {
        OP_KIND.store(K_FREE, Relaxed);
        let addrs: Vec<usize> = sh.map.keys().copied().collect();
        let r = std::panic::catch_unwind(std::panic::AssertUnwindSafe(|| unsafe {
            for &ad in &addrs {
                WHERE.store(W_ALLOC_CALL, Relaxed);
                a.free(ad as *mut u8);
                WHERE.store(W_CHECK_CALL, Relaxed);
                a.verif_check();
            }
            WHERE.store(W_OTHER, Relaxed);
        }));
        WHERE.store(W_OTHER, Relaxed);
        if r.is_err() {
            viol!("C03/free/panic-in-allocator".to_string(), nops, "\"phase\":\"final drain\",\"at\":{}", vh::js(&PANIC_LOC.lock().unwrap()));
        }
        let end = a.verif_stats();
        vh::distinct(&format!("final/segments={}", end.segments.min(4)));
    }
    let total: u64 = c.ops.iter().sum();
    vh::eval(total);
    for (j, n) in c.ops.iter().enumerate() {
        if *n > 0 {
            vh::count(&format!("op_{}", KIND_NAMES[j]), *n);
        }
    }
    vh::count("histories", 1);
    if !syswin.is_empty() {
        vh::count("allocator_calls_with_mremap_or_munmap_failing", sys_calls);
    }
    if !forks.is_empty() {
        vh::count("fork_steps", fork_steps);
        vh::count("live_blocks_verified_after_a_forked_child", fork_blocks);
        vh::distinct("fork-step");
    }
    vh::count("refused_alloc_calls", c.refused_calls);
    vh::count("refused_free_calls", c.refused_free_calls);
    vh::count("refused_returned_null", c.nulls_refused);
    vh::count("refused_served_from_held_memory", c.served_refused);
    vh::count("alloc_calls_served_after_a_refusal", c.usable_after_refusal);
    vh::count("impossible_size_returned_null", c.impossible_null);
    vh::count("sweeps_of_all_live_blocks", c.sweeps);
    vh::count("live_block_verifications", c.blocks_verified);
    vh::count("live_bytes_verified", c.bytes_verified);
    vh::count("invariant_walker_runs", c.checker_runs);
    vh::count("realloc_in_place", c.realloc_inplace);
    vh::count("realloc_moved", c.realloc_moved);
    println!("##MAXLIVE {}", sh.max_live);
    if faultspec.is_empty() && sysspec.is_empty() {
        let _ = &forkspec;
        vh::sample(
            &format!("{{\"case\":\"history\",\"seed\":{seed},\"nops\":{nops},\"style\":{style},\"ops_run\":{total},\"max_live_blocks\":{},\"profile\":{},\"distinct_cells\":{}}}",
                sh.max_live, vh::js(if cfg!(debug_assertions) { "debug" } else { "release" }), vh::distinct_count()),
            1,
        );
    }
    rc
}

const CHILD_XOR: u64 = 0x5555_AAAA_5555_AAAA;

/// Runs in the forked child only: scribble over every live block, then use the (child's copy of the) allocator.
unsafe fn forked_child(a: &mut Dlmalloc, blocks: &[(usize, Block)], seed: u64) {
    let mut r = Rng::new(seed);
    for (ad, b) in blocks {
        fill(*ad, b.size, b.seed ^ CHILD_XOR);
    }
    WHERE.store(W_ALLOC_CALL, Relaxed);
    for (j, (ad, b)) in blocks.iter().enumerate().take(64) {
        match j % 3 {
            0 => a.free(*ad as *mut u8),
            1 => {
                let p = a.realloc(*ad as *mut u8, b.size, b.align, b.size / 2 + 1);
                if !p.is_null() {
                    p.write_bytes(0xEE, b.size / 2 + 1);
                }
            }
            _ => {
                let new = (b.size * 2).min(1 << 20) + 1;
                let p = a.realloc(*ad as *mut u8, b.size, b.align, new);
                if !p.is_null() {
                    p.write_bytes(0xEE, new);
                }
            }
        }
    }
    for _ in 0..48 {
        let size = gen_size(&mut r, 0, 1 << 20);
        let p = a.malloc(size, gen_align(&mut r, 0));
        if !p.is_null() {
            p.write_bytes(0xEE, size);
            if r.chance(1, 2) {
                a.free(p);
            }
        }
    }
    WHERE.store(W_OTHER, Relaxed);
}

static PANIC_LOC: std::sync::Mutex<String> = std::sync::Mutex::new(String::new());

/// "C03/<op>/<what>" -> "C03/<op>/mremap-fails/<what>" once the monitor has failed such calls in this history
fn tagged(sig: &str) -> String {
    let tag = fault_tag();
    if tag.is_empty() {
        return sig.to_string();
    }
    let mut it = sig.splitn(3, '/');
    match (it.next(), it.next(), it.next()) {
        (Some(a), Some(b), Some(c)) => format!("{a}/{b}{tag}/{c}"),
        _ => sig.to_string(),
    }
}

// ---------------------------------------------------------------------------------------------
// batch: plan + run children
struct Agg {
    evals: u64,
    counts: BTreeMap<String, u64>,
    distinct: BTreeSet<String>,
    samples: Vec<String>,
    viol_sigs: BTreeMap<String, u64>,
    max_live: u64,
    held: Vec<String>,
    sysmon: String,
}

fn run_child(exe: &std::path::Path, seed: u64, nops: u64, extra: &[String], agg: &mut Agg, sample_quota: usize) -> (i32, Option<u64>) {
    // histories with s= windows run under the ptrace monitor
    let traced = extra.iter().any(|e| e.starts_with("s=")) && !agg.sysmon.is_empty();
    let log = format!("/tmp/c03-sysmon-{}.log", std::process::id());
    let mut cmd = if traced {
        let mut c = std::process::Command::new(&agg.sysmon);
        c.args(["--log", &log, "--timeout-s", "900", "--idle-ms", "0", "--"]).arg(exe);
        c
    } else {
        std::process::Command::new(exe)
    };
    cmd.arg("hist").arg(seed.to_string()).arg(nops.to_string());
    for e in extra {
        cmd.arg(e);
    }
    let out = match cmd.output() {
        Ok(o) => o,
        Err(e) => {
            vh::inconclusive(&format!("cannot start child: {e}"));
            return (-1, None);
        }
    };
    if traced {
        // what did the monitor really fail? ("S seq tgid tid nr a0..a5 ret i")
        if let Ok(t) = std::fs::read_to_string(&log) {
            for l in t.lines() {
                if l.starts_with("S ") {
                    // evidence only (not a verdict): the flags of every anonymous mmap issued in the traced process
                    // (HEAD's allocator and the harness itself use MAP_PRIVATE|MAP_ANONYMOUS = 0x22)
                    let f: Vec<&str> = l.split(' ').collect();
                    if f.len() > 11 && f[4] == "9" && f[9].starts_with("ffffffff") && !f[11].starts_with('-') {
                        *agg.counts.entry(format!("traced_anonymous_mmap_flags_0x{}", f[8])).or_insert(0) += 1;
                    }
                }
                if l.starts_with("S ") && l.ends_with(" i") {
                    let nr = l.split(' ').nth(4).unwrap_or("");
                    let name = match nr {
                        "25" => "monitor_failed_mremap_calls",
                        "11" => "monitor_failed_munmap_calls",
                        _ => continue,
                    };
                    *agg.counts.entry(name.to_string()).or_insert(0) += 1;
                }
            }
        }
        let _ = std::fs::remove_file(&log);
        if out.status.code() == Some(124) || out.status.code() == Some(125) {
            vh::inconclusive(&format!("sysmon watchdog/error ({:?}) for seed={seed} nops={nops} {extra:?}", out.status.code()));
            return (-1, None);
        }
    }
    let text = String::from_utf8_lossy(&out.stdout);
    let mut narrow = None;
    let mut reported = false;
    let mut held_viols: Vec<String> = Vec::new();
    for line in text.lines() {
        if let Some(v) = line.strip_prefix("##NARROW ") {
            narrow = v.trim().parse().ok();
        } else if let Some(v) = line.strip_prefix("##MAXLIVE ") {
            agg.max_live = agg.max_live.max(v.trim().parse().unwrap_or(0));
        } else if let Some(v) = line.strip_prefix("@@EVAL ") {
            agg.evals += v.trim().parse::<u64>().unwrap_or(0);
        } else if let Some(v) = line.strip_prefix("@@COUNT ") {
            if let Some((name, n)) = v.rsplit_once(' ') {
                *agg.counts.entry(name.to_string()).or_insert(0) += n.parse::<u64>().unwrap_or(0);
            }
        } else if let Some(v) = line.strip_prefix("@@DISTINCT ") {
            agg.distinct.insert(v.to_string());
        } else if let Some(v) = line.strip_prefix("@@SAMPLE ") {
            if agg.samples.len() < sample_quota {
                agg.samples.push(v.to_string());
            }
        } else if line.starts_with("@@VIOL ") {
            reported = true;
            held_viols.push(line.to_string());
        } else if line.starts_with("@@INCONCLUSIVE ") {
            reported = true;
            println!("{line}");
        }
    }
    let code = out.status.code();
    for v in held_viols {
        let sig = v.split(' ').nth(1).unwrap_or("").to_string();
        if sig.starts_with("C03/narrow") && sig.ends_with("/live-block-changed") && code == Some(6) {
            // handled by the caller (narrowing re-run); kept as fallback
            agg.held.push(v);
            continue;
        }
        let n = agg.viol_sigs.entry(sig).or_insert(0);
        *n += 1;
        if *n <= 3 {
            println!("{v}");
        }
    }
    match code {
        Some(c) => (c, narrow),
        None => {
            if !reported {
                // killed by a signal our handlers do not see (SIGKILL from the OOM killer, ...)
                vh::inconclusive(&format!(
                    "child for seed={seed} nops={nops} {extra:?} died without a report: {:?}; stderr: {}",
                    out.status,
                    String::from_utf8_lossy(&out.stderr).chars().take(300).collect::<String>()
                ));
            }
            (-2, narrow)
        }
    }
}

/// run one planned history; on a pattern mismatch re-run it with a sweep after every op from the
/// last clean sweep on, so that the damaging call gets named
fn run_planned(exe: &std::path::Path, seed: u64, nops: u64, extra: &[String], agg: &mut Agg) {
    let (code, narrow) = run_child(exe, seed, nops, extra, agg, 10);
    if code == 6 {
        let held: Vec<String> = std::mem::take(&mut agg.held);
        let mut e2 = extra.to_vec();
        e2.push(format!("k1from={}", narrow.unwrap_or(0)));
        let before: u64 = agg.viol_sigs.values().sum();
        let (c2, _) = run_child(exe, seed, nops, &e2, agg, 10);
        let after: u64 = agg.viol_sigs.values().sum();
        agg.held.clear();
        if after == before {
            // not reproduced with per-op sweeps (status c2): report what was seen
            let _ = c2;
            for h in held {
                println!("{}", h.replacen("C03/narrow", "C03/unattributed", 1));
            }
        }
    } else if code != 0 && code != 3 && code != 4 && code != 5 && code >= 0 {
        vh::inconclusive(&format!("child for seed={seed} nops={nops} {extra:?} exited with unexpected status {code}"));
    }
}

fn batch(seed: u64, budget: u64, rest: &[String]) {
    let mut thorough = false;
    let mut sysmon = String::new();
    let (mut shard, mut nshard) = (0u64, 1u64);
    for a in rest {
        if let Some(v) = a.strip_prefix("tier=") {
            thorough = v == "thorough";
        } else if let Some(v) = a.strip_prefix("sysmon=") {
            sysmon = v.to_string();
        } else if let Some(v) = a.strip_prefix("shard=") {
            if let Some((i, n)) = v.split_once('/') {
                shard = i.parse().unwrap_or(0);
                nshard = n.parse().unwrap_or(1);
            }
        }
    }
    disable_aslr_for_children();
    let exe = std::env::current_exe().expect("current_exe");
    let mut agg = Agg { evals: 0, counts: BTreeMap::new(), distinct: BTreeSet::new(), samples: Vec::new(), viol_sigs: BTreeMap::new(), max_live: 0, held: Vec::new(), sysmon: String::new() };
    agg.sysmon = sysmon;
    let mut r = Rng::new(seed.wrapping_mul(1_000_003).wrapping_add(shard));
    // `budget` = number of plain histories for this shard
    let debug = cfg!(debug_assertions);
    let mut positions = 0u64;
    for hno in 0..budget {
        let hseed = seed.wrapping_mul(100_000).wrapping_add(shard * 10_000 + hno);
        let nops = if thorough {
            *r.pick(&[500u64, 2000, 2000, 5000, 20_000])
        } else {
            *r.pick(&[1000u64, 2000, 2000, 3000])
        };
        let nops = if debug && nops > 5000 { 5000 } else { nops };
        // fork steps at seeded points (plain run and refusal run alike)
        let fpts: Vec<String> = (0..3).map(|_| r.below(nops).to_string()).collect();
        let farg = format!("f={}", fpts.join(","));
        // 1. plain
        run_planned(&exe, hseed, nops, &[farg.clone()], &mut agg);
        // 2. the same history with sampled refusal windows (single calls and runs of j calls)
        let nwin = if thorough { 40 } else { 24 };
        let mut ws = Vec::new();
        for _ in 0..nwin {
            let start = r.below(nops);
            let len = if r.chance(1, 4) { r.range(2, 60) } else { 1 };
            ws.push(format!("{start}+{len}"));
            positions += len;
        }
        run_planned(&exe, hseed, nops, &[format!("w={}", ws.join(",")), farg], &mut agg);
    }
    // 3. short histories with a refusal at every op index, one child per position (exhaustive)
    let n_short = if thorough { (budget / 4).max(1) } else { u64::from(shard % 4 == 0) };
    for sno in 0..n_short {
        let hseed = seed.wrapping_mul(7_000).wrapping_add(500_000 + shard * 1000 + sno);
        let nops = if thorough { *r.pick(&[120u64, 200, 300]) } else { 150 };
        run_planned(&exe, hseed, nops, &[], &mut agg);
        for pos in 0..nops {
            run_planned(&exe, hseed, nops, &[format!("w={pos}+1")], &mut agg);
            positions += 1;
        }
        // and "refuse for the next j calls" from a few starting points
        for _ in 0..8 {
            let start = r.below(nops);
            let j = r.range(2, 40);
            run_planned(&exe, hseed, nops, &[format!("w={start}+{j}")], &mut agg);
            positions += j;
        }
        *agg.counts.entry("short_histories_with_refusal_at_every_op_index".into()).or_insert(0) += 1;
    }
    // 4. trim-heavy histories under the ptrace monitor, which fails mremap / munmap inside the allocator calls:
    //    for the whole history, and at sampled op indices only
    if !agg.sysmon.is_empty() {
        let n_sys = if thorough { budget.max(4) } else { 2 };
        for sno in 0..n_sys {
            let hseed = seed.wrapping_mul(9_000).wrapping_add(900_000 + shard * 1000 + sno);
            let nops = if thorough { *r.pick(&[300u64, 600, 1500]) } else { *r.pick(&[250u64, 400]) };
            let style = if sno % 4 == 3 { "style=2" } else { "style=5" };
            let kinds: &[&str] = if thorough || (shard + sno) % 2 == 0 { &["r", "u", "b", "R", "U"] } else { &["r", "b"] };
            for kind in kinds {
                run_planned(&exe, hseed, nops, &[format!("s=0+{nops}:{kind}"), style.to_string()], &mut agg);
                *agg.counts.entry("histories_with_mremap_or_munmap_failing_throughout".into()).or_insert(0) += 1;
            }
            // k-th call: the failure only around sampled single ops / short runs
            let mut ws = Vec::new();
            for _ in 0..30 {
                let start = r.below(nops);
                let len = if r.chance(1, 3) { r.range(2, 30) } else { 1 };
                ws.push(format!("{start}+{len}:{}", r.pick(&["r", "r", "u", "b", "R"])));
            }
            run_planned(&exe, hseed, nops, &[format!("s={}", ws.join(",")), style.to_string()], &mut agg);
            *agg.counts.entry("histories_with_mremap_or_munmap_failing_at_sampled_calls".into()).or_insert(0) += 1;
        }
    }
    vh::eval(agg.evals);
    for (k, v) in &agg.counts {
        vh::count(k, *v);
    }
    vh::count("refusal_positions_planned", positions);
    for d in &agg.distinct {
        vh::distinct(d);
    }
    for s in agg.samples.iter().take(8) {
        println!("@@SAMPLE {s}");
    }
    println!("##MAXLIVE {}", agg.max_live);
}

fn main() {
    let a = vh::args();
    match a.mode.as_str() {
        "hist" => {
            let rc = hist(a.seed, a.budget, &a.rest);
            std::process::exit(rc);
        }
        "batch" => batch(a.seed, a.budget, &a.rest),
        m => vh::inconclusive(&format!("unknown mode {m}")),
    }
}
