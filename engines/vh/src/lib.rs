//! Support code shared by the harness binaries: seeded PRNG, the '@@' report protocol
//! (see /verif/lib/vlib.py), panic capture.
use std::collections::BTreeSet;
use std::fmt::Write as _;
use std::io::Write as _;
use std::sync::Mutex;

/// splitmix64 / xorshift style PRNG, deterministic from the seed.
#[derive(Clone, Debug)]
pub struct Rng(pub u64);

impl Rng {
    pub fn new(seed: u64) -> Self {
        let mut r = Rng(seed ^ 0x9E37_79B9_7F4A_7C15);
        r.next();
        r
    }
    pub fn fork(&mut self, salt: u64) -> Rng {
        Rng::new(self.next() ^ salt.wrapping_mul(0xD6E8_FEB8_6659_FD93))
    }
    #[inline]
    pub fn next(&mut self) -> u64 {
        self.0 = self.0.wrapping_add(0x9E37_79B9_7F4A_7C15);
        let mut z = self.0;
        z = (z ^ (z >> 30)).wrapping_mul(0xBF58_476D_1CE4_E5B9);
        z = (z ^ (z >> 27)).wrapping_mul(0x94D0_49BB_1331_11EB);
        z ^ (z >> 31)
    }
    /// uniform in 0..n (n > 0)
    #[inline]
    pub fn below(&mut self, n: u64) -> u64 {
        self.next() % n
    }
    #[inline]
    pub fn range(&mut self, lo: u64, hi_incl: u64) -> u64 {
        lo + self.below(hi_incl - lo + 1)
    }
    #[inline]
    pub fn chance(&mut self, num: u64, den: u64) -> bool {
        self.below(den) < num
    }
    pub fn pick<'a, T>(&mut self, xs: &'a [T]) -> &'a T {
        &xs[self.below(xs.len() as u64) as usize]
    }
    pub fn bytes(&mut self, n: usize) -> Vec<u8> {
        (0..n).map(|_| self.next() as u8).collect()
    }
}

static DISTINCT: Mutex<BTreeSet<String>> = Mutex::new(BTreeSet::new());
static SAMPLES: Mutex<usize> = Mutex::new(0);

fn emit(line: &str) {
    let out = std::io::stdout();
    let mut l = out.lock();
    let _ = l.write_all(line.as_bytes());
    let _ = l.write_all(b"\n");
}

pub fn eval(n: u64) {
    emit(&format!("@@EVAL {n}"));
}
pub fn count(name: &str, n: u64) {
    emit(&format!("@@COUNT {name} {n}"));
}
/// Coarse class key of a non-trivial case; printed once per process.
pub fn distinct(key: &str) {
    let mut d = DISTINCT.lock().unwrap();
    if d.len() < 100_000 && d.insert(key.to_string()) {
        emit(&format!("@@DISTINCT {key}"));
    }
}
pub fn distinct_count() -> usize {
    DISTINCT.lock().unwrap().len()
}
/// `json` must be a valid JSON value on one line. At most `cap` samples per process.
pub fn sample(json: &str, cap: usize) {
    let mut s = SAMPLES.lock().unwrap();
    if *s < cap {
        *s += 1;
        emit(&format!("@@SAMPLE {json}"));
    }
}
pub fn viol(signature: &str, detail_json: &str) {
    let sig: String = signature
        .chars()
        .map(|c| if c.is_whitespace() { '_' } else { c })
        .collect();
    emit(&format!("@@VIOL {sig} {detail_json}"));
}
pub fn inconclusive(text: &str) {
    emit(&format!("@@INCONCLUSIVE {}", text.replace('\n', " ")));
}

/// JSON string literal
pub fn js(s: &str) -> String {
    let mut o = String::with_capacity(s.len() + 2);
    o.push('"');
    for c in s.chars() {
        match c {
            '"' => o.push_str("\\\""),
            '\\' => o.push_str("\\\\"),
            '\n' => o.push_str("\\n"),
            '\r' => o.push_str("\\r"),
            '\t' => o.push_str("\\t"),
            c if (c as u32) < 0x20 => {
                let _ = write!(o, "\\u{:04x}", c as u32);
            }
            c => o.push(c),
        }
    }
    o.push('"');
    o
}

/// Printable rendering of a byte string (escapes non-ASCII as \xNN), as a JSON string
pub fn jb(b: &[u8]) -> String {
    let mut s = String::new();
    for &c in b.iter().take(96) {
        if (0x20..0x7f).contains(&c) && c != b'\\' {
            s.push(c as char);
        } else {
            let _ = write!(s, "\\x{c:02x}");
        }
    }
    if b.len() > 96 {
        let _ = write!(s, "...(len {})", b.len());
    }
    js(&s)
}

/// Run `f`, turning a panic into Err(message). The default panic hook is silenced once.
pub fn catch<T>(f: impl FnOnce() -> T) -> Result<T, String> {
    static HOOK: std::sync::Once = std::sync::Once::new();
    HOOK.call_once(|| {
        std::panic::set_hook(Box::new(|_| {}));
    });
    match std::panic::catch_unwind(std::panic::AssertUnwindSafe(f)) {
        Ok(v) => Ok(v),
        Err(e) => {
            let msg = if let Some(s) = e.downcast_ref::<&str>() {
                (*s).to_string()
            } else if let Some(s) = e.downcast_ref::<String>() {
                s.clone()
            } else {
                "panic (non-string payload)".to_string()
            };
            Err(msg)
        }
    }
}

/// Common argv: <mode> <seed> <budget> [extra...]
pub struct Args {
    pub mode: String,
    pub seed: u64,
    pub budget: u64,
    pub rest: Vec<String>,
}

pub fn args() -> Args {
    let a: Vec<String> = std::env::args().collect();
    Args {
        mode: a.get(1).cloned().unwrap_or_else(|| "quick".into()),
        seed: a.get(2).and_then(|s| s.parse().ok()).unwrap_or(1),
        budget: a.get(3).and_then(|s| s.parse().ok()).unwrap_or(1000),
        rest: a.iter().skip(4).cloned().collect(),
    }
}

pub const IS_MIRI: bool = cfg!(miri);
