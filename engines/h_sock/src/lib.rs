//! Shared pieces of the C16 harness: libc FFI used only for the *harness's own* observations
//! (independent peers, poll, fstat identity, guard pages, fork), and the position-dependent
//! byte pattern. Nothing in here goes through tiny-std / rusl.
#![allow(clippy::missing_safety_doc)]

#[cfg(not(miri))]
#[path = "/verif/engines/sysmon/marker.rs"]
pub mod marker;
#[cfg(not(miri))]
pub mod intr;
#[cfg(not(miri))]
pub mod mon;
#[cfg(not(miri))]
pub mod origins;
#[cfg(not(miri))]
pub mod stream;
#[cfg(not(miri))]
pub mod timed;
#[cfg(not(miri))]
pub mod trunc;

pub mod sys {
    use std::os::fd::{FromRawFd, IntoRawFd};
    use std::os::unix::fs::MetadataExt;

    #[repr(C)]
    #[derive(Clone, Copy)]
    pub struct PollFd {
        pub fd: i32,
        pub events: i16,
        pub revents: i16,
    }
    pub const POLLIN: i16 = 1;
    pub const POLLOUT: i16 = 4;
    pub const POLLERR: i16 = 8;
    pub const POLLHUP: i16 = 0x10;

    #[repr(C)]
    pub struct SockAddrIn {
        pub family: u16,
        pub port_be: u16,
        pub addr: [u8; 4],
        pub pad: [u8; 8],
    }
    #[repr(C)]
    pub struct SockAddrUn {
        pub family: u16,
        pub path: [u8; 108],
    }
    #[repr(C)]
    pub struct SigAction {
        pub handler: usize,
        pub mask: [u64; 16],
        pub flags: i32,
        pub restorer: usize,
    }
    #[repr(C)]
    pub struct StackT {
        pub sp: *mut u8,
        pub flags: i32,
        pub size: usize,
    }

    extern "C" {
        pub fn socket(domain: i32, ty: i32, proto: i32) -> i32;
        pub fn socketpair(domain: i32, ty: i32, proto: i32, sv: *mut i32) -> i32;
        pub fn bind(fd: i32, addr: *const u8, len: u32) -> i32;
        pub fn listen(fd: i32, backlog: i32) -> i32;
        pub fn connect(fd: i32, addr: *const u8, len: u32) -> i32;
        pub fn accept(fd: i32, addr: *mut u8, len: *mut u32) -> i32;
        pub fn getsockname(fd: i32, addr: *mut u8, len: *mut u32) -> i32;
        pub fn setsockopt(fd: i32, level: i32, name: i32, val: *const u8, len: u32) -> i32;
        pub fn getsockopt(fd: i32, level: i32, name: i32, val: *mut u8, len: *mut u32) -> i32;
        pub fn close(fd: i32) -> i32;
        pub fn poll(fds: *mut PollFd, n: u64, timeout_ms: i32) -> i32;
        pub fn fcntl(fd: i32, cmd: i32, arg: i64) -> i32;
        pub fn fork() -> i32;
        pub fn waitpid(pid: i32, status: *mut i32, options: i32) -> i32;
        pub fn _exit(code: i32) -> !;
        pub fn pipe(fds: *mut i32) -> i32;
        pub fn read(fd: i32, buf: *mut u8, n: usize) -> isize;
        pub fn write(fd: i32, buf: *const u8, n: usize) -> isize;
        pub fn dup2(a: i32, b: i32) -> i32;
        pub fn mmap(addr: *mut u8, len: usize, prot: i32, flags: i32, fd: i32, off: i64) -> *mut u8;
        pub fn mprotect(addr: *mut u8, len: usize, prot: i32) -> i32;
        pub fn munmap(addr: *mut u8, len: usize) -> i32;
        pub fn sigaction(sig: i32, act: *const SigAction, old: *mut SigAction) -> i32;
        pub fn sigaltstack(ss: *const StackT, old: *mut StackT) -> i32;
        pub fn kill(pid: i32, sig: i32) -> i32;
        pub fn getpid() -> i32;
        pub fn syscall(nr: i64, ...) -> i64;
        pub fn __errno_location() -> *mut i32;
        pub fn shutdown(fd: i32, how: i32) -> i32;
    }

    pub fn errno() -> i32 {
        unsafe { *__errno_location() }
    }
    pub fn gettid() -> i32 {
        unsafe { syscall(186) as i32 }
    }

    pub const AF_UNIX: i32 = 1;
    pub const AF_INET: i32 = 2;
    pub const SOCK_STREAM: i32 = 1;
    pub const SOCK_NONBLOCK: i32 = 0o4000;
    pub const SOCK_CLOEXEC: i32 = 0o2000000;
    pub const O_NONBLOCK: i32 = 0o4000;
    pub const F_GETFL: i32 = 3;
    pub const F_SETFL: i32 = 4;
    pub const SOL_SOCKET: i32 = 1;
    pub const SO_ACCEPTCONN: i32 = 30;
    pub const SO_PASSCRED: i32 = 16;
    pub const SO_SNDBUF: i32 = 7;
    pub const SO_RCVBUF: i32 = 8;

    pub fn un_addr(path: &str) -> (SockAddrUn, u32) {
        let mut a = SockAddrUn {
            family: AF_UNIX as u16,
            path: [0; 108],
        };
        let b = path.as_bytes();
        assert!(b.len() < 108);
        a.path[..b.len()].copy_from_slice(b);
        (a, (2 + b.len() + 1) as u32)
    }
    pub fn in_addr(port: u16) -> SockAddrIn {
        SockAddrIn {
            family: AF_INET as u16,
            port_be: port.to_be(),
            addr: [127, 0, 0, 1],
            pad: [0; 8],
        }
    }

    /// Harness-owned (libc) TCP listener on 127.0.0.1:0 with the given backlog; returns (fd, port).
    pub fn tcp_listener(backlog: i32) -> (i32, u16) {
        unsafe {
            let fd = socket(AF_INET, SOCK_STREAM | SOCK_CLOEXEC, 0);
            assert!(fd >= 0);
            let a = in_addr(0);
            assert_eq!(0, bind(fd, (&a as *const SockAddrIn).cast(), 16), "bind errno {}", errno());
            assert_eq!(0, listen(fd, backlog));
            (fd, local_port(fd).unwrap())
        }
    }
    pub fn local_port(fd: i32) -> Option<u16> {
        unsafe {
            let mut a = in_addr(0);
            let mut l = 16u32;
            if getsockname(fd, (&mut a as *mut SockAddrIn).cast(), &mut l) != 0 || a.family != AF_INET as u16 {
                return None;
            }
            Some(u16::from_be(a.port_be))
        }
    }
    pub fn local_unix_path(fd: i32) -> Option<String> {
        unsafe {
            let mut a = SockAddrUn {
                family: 0,
                path: [0; 108],
            };
            let mut l = 110u32;
            if getsockname(fd, (&mut a as *mut SockAddrUn).cast(), &mut l) != 0 || a.family != AF_UNIX as u16 {
                return None;
            }
            let n = a.path.iter().position(|&c| c == 0).unwrap_or(108);
            Some(String::from_utf8_lossy(&a.path[..n]).into_owned())
        }
    }
    pub fn unix_listener(path: &str, backlog: i32) -> i32 {
        unsafe {
            let fd = socket(AF_UNIX, SOCK_STREAM | SOCK_CLOEXEC, 0);
            assert!(fd >= 0);
            let (a, l) = un_addr(path);
            assert_eq!(0, bind(fd, (&a as *const SockAddrUn).cast(), l), "bind errno {}", errno());
            assert_eq!(0, listen(fd, backlog));
            fd
        }
    }
    /// blocking libc connect; returns fd or -errno
    pub fn unix_connect(path: &str, nonblock: bool) -> i32 {
        unsafe {
            let fd = socket(AF_UNIX, SOCK_STREAM | SOCK_CLOEXEC | if nonblock { SOCK_NONBLOCK } else { 0 }, 0);
            let (a, l) = un_addr(path);
            if connect(fd, (&a as *const SockAddrUn).cast(), l) != 0 {
                let e = errno();
                close(fd);
                return -e;
            }
            fd
        }
    }
    pub fn tcp_connect(port: u16, nonblock: bool) -> i32 {
        unsafe {
            let fd = socket(AF_INET, SOCK_STREAM | SOCK_CLOEXEC | if nonblock { SOCK_NONBLOCK } else { 0 }, 0);
            let a = in_addr(port);
            if connect(fd, (&a as *const SockAddrIn).cast(), 16) != 0 {
                let e = errno();
                if !(nonblock && e == 115) {
                    close(fd);
                    return -e;
                }
            }
            fd
        }
    }
    pub fn is_nonblock(fd: i32) -> Option<bool> {
        let r = unsafe { fcntl(fd, F_GETFL, 0) };
        if r < 0 {
            None
        } else {
            Some(r & O_NONBLOCK != 0)
        }
    }
    pub fn is_listening(fd: i32) -> bool {
        let mut v = 0i32;
        let mut l = 4u32;
        unsafe { getsockopt(fd, SOL_SOCKET, SO_ACCEPTCONN, (&mut v as *mut i32).cast(), &mut l) == 0 && v == 1 }
    }
    /// zero-timeout poll by the harness itself: returned revents (0 = not ready)
    pub fn poll_now(fd: i32, events: i16) -> i16 {
        let mut p = PollFd {
            fd,
            events,
            revents: 0,
        };
        let r = unsafe { poll(&mut p, 1, 0) };
        if r <= 0 {
            0
        } else {
            p.revents
        }
    }
    pub fn poll_wait(fd: i32, events: i16, ms: i32) -> i16 {
        let mut p = PollFd {
            fd,
            events,
            revents: 0,
        };
        loop {
            let r = unsafe { poll(&mut p, 1, ms) };
            if r < 0 && errno() == 4 {
                continue;
            }
            return if r <= 0 { 0 } else { p.revents };
        }
    }
    /// (dev, ino) of an open descriptor, via std (no struct stat layout assumptions)
    pub fn fd_identity(fd: i32) -> Option<(u64, u64)> {
        if unsafe { fcntl(fd, 1 /*F_GETFD*/, 0) } < 0 {
            return None;
        }
        let f = unsafe { std::fs::File::from_raw_fd(fd) };
        let r = f.metadata().ok().map(|m| (m.dev(), m.ino()));
        let _ = f.into_raw_fd();
        r
    }
    /// The single-field newtypes of tiny-std (`TcpListener(OwnedFd)` ...) expose no descriptor for
    /// listeners; read the i32 and let the caller validate it against getsockname.
    pub fn peek_fd<T>(x: &T) -> Option<i32> {
        if std::mem::size_of::<T>() != 4 {
            return None;
        }
        let v = unsafe { *(x as *const T).cast::<i32>() };
        if v >= 0 {
            Some(v)
        } else {
            None
        }
    }
    /// CPU time (utime+stime, clock ticks) and state of a task from /proc
    pub fn proc_cpu(pid: i32) -> Option<(char, u64)> {
        let s = std::fs::read_to_string(format!("/proc/{pid}/stat")).ok()?;
        let r = s.rfind(')')?;
        let f: Vec<&str> = s[r + 2..].split(' ').collect();
        let st = f.first()?.chars().next()?;
        let ut: u64 = f.get(11)?.parse().ok()?;
        let stt: u64 = f.get(12)?.parse().ok()?;
        Some((st, ut + stt))
    }
    pub fn task_syscall(pid: i32, tid: i32) -> Option<String> {
        std::fs::read_to_string(format!("/proc/{pid}/task/{tid}/syscall")).ok().map(|s| s.trim().to_string())
    }
}

pub mod pat {
    #[inline]
    pub fn word(seed: u64, w: u64) -> u64 {
        let mut z = seed ^ w.wrapping_mul(0x9E37_79B9_7F4A_7C15).wrapping_add(0x1234_5678_9ABC_DEF1);
        z = (z ^ (z >> 30)).wrapping_mul(0xBF58_476D_1CE4_E5B9);
        z = (z ^ (z >> 27)).wrapping_mul(0x94D0_49BB_1331_11EB);
        z ^ (z >> 31)
    }
    #[inline]
    pub fn byte(seed: u64, i: u64) -> u8 {
        (word(seed, i / 8) >> (8 * (i % 8))) as u8
    }
    /// buf[k] = byte(seed, off + k)
    pub fn fill(seed: u64, off: u64, buf: &mut [u8]) {
        let mut i = off;
        let mut k = 0usize;
        while k < buf.len() && i % 8 != 0 {
            buf[k] = byte(seed, i);
            k += 1;
            i += 1;
        }
        while k + 8 <= buf.len() {
            buf[k..k + 8].copy_from_slice(&word(seed, i / 8).to_le_bytes());
            k += 8;
            i += 8;
        }
        while k < buf.len() {
            buf[k] = byte(seed, i);
            k += 1;
            i += 1;
        }
    }
    /// index of the first byte of `got` that differs from the pattern at stream offset `off`
    pub fn first_mismatch(seed: u64, off: u64, got: &[u8], scratch: &mut Vec<u8>) -> Option<usize> {
        scratch.resize(got.len(), 0);
        fill(seed, off, scratch);
        if scratch.as_slice() == got {
            return None;
        }
        got.iter().zip(scratch.iter()).position(|(a, b)| a != b)
    }
    /// where in the stream [0,total) does `window` (>= 8 bytes) occur? (only called on failure)
    pub fn locate(seed: u64, total: u64, window: &[u8]) -> Option<u64> {
        if window.len() < 8 {
            return None;
        }
        let mut all = vec![0u8; total as usize];
        fill(seed, 0, &mut all);
        let w = &window[..window.len().min(16)];
        all.windows(w.len()).position(|x| x == w).map(|p| p as u64)
    }
}
