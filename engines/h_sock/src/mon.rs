//! Registry of in-flight blocking tiny-std calls + the monitor thread that judges
//! "still parked although the awaited readiness holds" and "bytes accepted by write never arrived".
//! The judgement is made from state (the harness's own zero-timeout poll, /proc/<pid>/task/<tid>/syscall
//! showing the thread inside ppoll, the call's sequence number unchanged), sampled repeatedly;
//! a plain "took too long" is never a verdict.
use crate::sys;
use std::sync::atomic::{AtomicBool, AtomicI32, AtomicU64, Ordering::Relaxed};
use std::time::Instant;

pub const NSLOTS: usize = 64;

pub struct Slot {
    pub seq: AtomicU64, // odd = inside a call
    pub op: AtomicI32,  // index into OPS
    pub fd: AtomicI32,
    pub events: AtomicI32,
    pub tid: AtomicI32,
    pub since_ms: AtomicU64,
    pub used: AtomicBool,
    pub transport: AtomicI32, // 0 unix 1 tcp
    pub limit_ms: AtomicU64,  // u64::MAX = the call carries no time limit; 0 = try variant
}

pub const OPS: [&str; 9] = ["read", "write", "accept", "connect", "read_with_timeout", "accept_with_timeout", "connect_with_timeout", "try_accept", "try_connect"];

#[allow(clippy::declare_interior_mutable_const)]
const EMPTY: Slot = Slot {
    seq: AtomicU64::new(0),
    op: AtomicI32::new(0),
    fd: AtomicI32::new(-1),
    events: AtomicI32::new(0),
    tid: AtomicI32::new(0),
    since_ms: AtomicU64::new(0),
    used: AtomicBool::new(false),
    transport: AtomicI32::new(0),
    limit_ms: AtomicU64::new(u64::MAX),
};
pub static SLOTS: [Slot; NSLOTS] = [EMPTY; NSLOTS];

/// state of the transfer currently running in this process (one at a time per process)
pub static CASE_LEN: AtomicU64 = AtomicU64::new(0);
pub static WRITTEN: AtomicU64 = AtomicU64::new(0);
pub static READ: AtomicU64 = AtomicU64::new(0);
pub static WRITER_DONE: AtomicBool = AtomicBool::new(false);
pub static WRITER_HOLDS_OPEN: AtomicBool = AtomicBool::new(false);
pub static CASE_START_MS: AtomicU64 = AtomicU64::new(0);
pub static CASE_DESC: std::sync::Mutex<String> = std::sync::Mutex::new(String::new());

fn start() -> &'static Instant {
    static T0: std::sync::OnceLock<Instant> = std::sync::OnceLock::new();
    T0.get_or_init(Instant::now)
}
pub fn now_ms() -> u64 {
    start().elapsed().as_millis() as u64
}

pub fn claim() -> &'static Slot {
    for s in &SLOTS {
        if s.used.compare_exchange(false, true, Relaxed, Relaxed).is_ok() {
            s.tid.store(sys::gettid(), Relaxed);
            return s;
        }
    }
    panic!("out of monitor slots");
}
pub fn release(s: &Slot) {
    s.used.store(false, Relaxed);
}

/// run one blocking call of the library with its (op, fd, awaited events) visible to the monitor
pub fn tracked<T>(s: &Slot, op: usize, transport: i32, fd: i32, events: i16, f: impl FnOnce() -> T) -> T {
    tracked_timed(s, op, transport, fd, events, None, f)
}

/// like `tracked`; `limit` = Some(d) for time-limited calls (Some(ZERO) for try variants)
pub fn tracked_timed<T>(s: &Slot, op: usize, transport: i32, fd: i32, events: i16, limit: Option<std::time::Duration>, f: impl FnOnce() -> T) -> T {
    s.limit_ms.store(limit.map_or(u64::MAX, |d| d.as_millis() as u64), Relaxed);
    s.op.store(op as i32, Relaxed);
    s.fd.store(fd, Relaxed);
    s.events.store(i32::from(events), Relaxed);
    s.transport.store(transport, Relaxed);
    s.since_ms.store(now_ms(), Relaxed);
    s.seq.fetch_add(1, Relaxed);
    let r = f();
    s.seq.fetch_add(1, Relaxed);
    r
}

pub fn tname(t: i32) -> &'static str {
    if t == 0 {
        "unix"
    } else {
        "tcp"
    }
}

/// Spawn the monitor. `grace_ms`: how long a call must have been pending before it is looked at.
pub fn spawn_monitor(grace_ms: u64) {
    let _ = start();
    std::thread::spawn(move || {
        let pid = unsafe { sys::getpid() };
        let mut streak: [(u64, u32, u32); NSLOTS] = [(0, 0, 0); NSLOTS]; // (seq, ready-parked samples, lost samples)
        let mut tstreak: [(u64, u32); NSLOTS] = [(0, 0); NSLOTS]; // time-limited call inside a system call without a timeout
        loop {
            std::thread::sleep(std::time::Duration::from_millis(300));
            // harness-level watchdog: one transfer stuck for two minutes is inconclusive, not a verdict
            let cs = CASE_START_MS.load(Relaxed);
            if cs != 0 && now_ms().saturating_sub(cs) > 120_000 {
                let mut where_ = String::new();
                if let Ok(rd) = std::fs::read_dir(format!("/proc/{pid}/task")) {
                    for t in rd.flatten() {
                        if let Ok(tid) = t.file_name().to_string_lossy().parse::<i32>() {
                            where_.push_str(&format!("[{tid}: {}] ", sys::task_syscall(pid, tid).unwrap_or_default().chars().take(40).collect::<String>()));
                        }
                    }
                }
                vh::inconclusive(&format!("transfer made no progress for 120 s; threads {where_} case {}", CASE_DESC.lock().unwrap()));
                flush_exit(0);
            }
            for (i, s) in SLOTS.iter().enumerate() {
                if !s.used.load(Relaxed) {
                    continue;
                }
                let seq = s.seq.load(Relaxed);
                // A time-limited (or try) call may only ever wait in a system call that carries its
                // limit. Refuting: limit long passed, thread inside read/accept4/connect/... on a
                // descriptor without O_NONBLOCK, same call, five samples in a row.
                let lim = s.limit_ms.load(Relaxed);
                if seq % 2 == 1 && lim != u64::MAX && now_ms().saturating_sub(s.since_ms.load(Relaxed)) > lim + 1000 {
                    if tstreak[i].0 != seq {
                        tstreak[i] = (seq, 0);
                    }
                    let sc = sys::task_syscall(pid, s.tid.load(Relaxed)).unwrap_or_default();
                    let mut it = sc.split_whitespace();
                    let nr: i64 = it.next().and_then(|x| x.parse().ok()).unwrap_or(-1);
                    let a0 = it.next().and_then(|x| i64::from_str_radix(x.trim_start_matches("0x"), 16).ok()).unwrap_or(-1);
                    let blocking_kind = matches!(nr, 0 | 1 | 42 | 43 | 44 | 45 | 46 | 47 | 288);
                    let nb = if blocking_kind { sys::is_nonblock(a0 as i32) } else { None };
                    if blocking_kind && nb == Some(false) && s.seq.load(Relaxed) == seq {
                        tstreak[i].1 += 1;
                        if tstreak[i].1 >= 5 {
                            let op = OPS[s.op.load(Relaxed) as usize];
                            let tr = tname(s.transport.load(Relaxed));
                            let what = if lim == 0 { "try-call-parked-in-blocking-syscall" } else { "timed-call-parked-in-blocking-syscall" };
                            vh::viol(
                                &format!("C16/{tr}/{op}/{what}"),
                                &format!(
                                    "{{\"op\":\"{op}\",\"limit_ms\":{lim},\"pending_ms\":{},\"thread_syscall\":{},\"descriptor\":{a0},\"descriptor_O_NONBLOCK\":false,\"samples\":{},\"case\":{}}}",
                                    now_ms().saturating_sub(s.since_ms.load(Relaxed)),
                                    vh::js(&sc),
                                    tstreak[i].1,
                                    vh::js(&CASE_DESC.lock().unwrap())
                                ),
                            );
                            flush_exit(3);
                        }
                    } else {
                        tstreak[i].1 = 0;
                    }
                }
                if seq % 2 == 0 || now_ms().saturating_sub(s.since_ms.load(Relaxed)) < grace_ms {
                    streak[i] = (seq, 0, 0);
                    continue;
                }
                if streak[i].0 != seq {
                    streak[i] = (seq, 0, 0);
                }
                let fd = s.fd.load(Relaxed);
                let ev = s.events.load(Relaxed) as i16;
                let tid = s.tid.load(Relaxed);
                let sc = sys::task_syscall(pid, tid).unwrap_or_default();
                let in_ppoll = sc.starts_with("271 ");
                let rev = sys::poll_now(fd, ev);
                let op = OPS[s.op.load(Relaxed) as usize];
                let tr = tname(s.transport.load(Relaxed));
                if in_ppoll && rev & ev != 0 && s.seq.load(Relaxed) == seq {
                    streak[i].1 += 1;
                    if streak[i].1 >= 5 {
                        vh::viol(
                            &format!("C16/{tr}/{op}/parked-although-awaited-readiness-holds"),
                            &format!(
                                "{{\"op\":\"{op}\",\"fd\":{fd},\"awaited_events\":{ev},\"harness_poll_revents\":{rev},\"thread_syscall\":{},\"samples\":{},\"case\":{}}}",
                                vh::js(&sc),
                                streak[i].1,
                                vh::js(&CASE_DESC.lock().unwrap())
                            ),
                        );
                        flush_exit(3);
                    }
                } else {
                    streak[i].1 = 0;
                }
                // reader parked on an empty socket while the writer has finished successfully and
                // keeps its end open: the bytes the library reported as written are gone
                if (op == "read") && in_ppoll && rev == 0 && WRITER_DONE.load(Relaxed) && WRITER_HOLDS_OPEN.load(Relaxed) && READ.load(Relaxed) < WRITTEN.load(Relaxed) {
                    streak[i].2 += 1;
                    if streak[i].2 >= 5 {
                        vh::viol(
                            &format!("C16/{tr}/stream/bytes-reported-written-never-arrive"),
                            &format!(
                                "{{\"written_ok\":{},\"received\":{},\"reader_fd\":{fd},\"reader_thread_syscall\":{},\"case\":{}}}",
                                WRITTEN.load(Relaxed),
                                READ.load(Relaxed),
                                vh::js(&sc),
                                vh::js(&CASE_DESC.lock().unwrap())
                            ),
                        );
                        flush_exit(3);
                    }
                } else {
                    streak[i].2 = 0;
                }
            }
        }
    });
}

pub fn flush_exit(code: i32) -> ! {
    use std::io::Write;
    let _ = std::io::stdout().flush();
    std::process::exit(code)
}

/// errno of a tiny-std error (0 = none, -1 = Timeout, -2 = uncategorized)
pub fn errno_of(e: &tiny_std::Error) -> i32 {
    match e {
        tiny_std::Error::Os {
            code, ..
        } => code.raw(),
        tiny_std::Error::Timeout => -1,
        tiny_std::Error::Uncategorized(_) => -2,
    }
}
