//! Every way of obtaining a stream x the timed / blocking / interrupted / buffer-filling operations
//! on that stream. The peer of every stream is a harness-owned libc socket, so "silent", "late" and
//! "draining late" are under the harness's control.
//!
//! Refuting events: the monitor's "time-limited call parked in a system call without a timeout on a
//! descriptor without O_NONBLOCK" (mon.rs), Timeout earlier than the limit, EINTR surfaced, wrong
//! data. A stream's blocking mode by itself is recorded per origin, never judged.
//! Under sysmon the timed calls sit between BEGIN/END markers (scenario 100 + origin for
//! read_with_timeout on the stream, 200 + origin for the obtaining call itself).
use crate::intr::{conclude, ended, keep, out_of, pester, start_timed, Out, Tot, Verdict};
use crate::marker;
use crate::mon::{self, errno_of};
use crate::{pat, sys};
use std::sync::{Arc, Mutex};
use std::time::{Duration, Instant};
use tiny_std::io::{Read, Write};
use tiny_std::net::{Ip, SocketAddress, TcpListener, TcpStream, TcpTryConnect, UnixListener, UnixStream};
use tiny_std::unix::fd::AsRawFd;
use tiny_std::UnixStr;
use vh::Rng;

pub const ORIGINS: [&str; 12] = [
    "unix-accept",
    "unix-accept_with_timeout",
    "unix-try_accept",
    "unix-connect",
    "unix-try_connect",
    "tcp-accept",
    "tcp-accept_with_timeout",
    "tcp-try_accept",
    "tcp-connect",
    "tcp-connect_with_timeout",
    "tcp-try_connect-then-try_connect",
    "tcp-try_connect-then-connect_blocking",
];

pub enum OStream {
    U(UnixStream),
    T(TcpStream),
}
impl OStream {
    fn fd(&self) -> i32 {
        match self {
            OStream::U(s) => s.as_raw_fd().value(),
            OStream::T(s) => s.as_raw_fd().value(),
        }
    }
    fn read(&mut self, b: &mut [u8]) -> tiny_std::Result<usize> {
        match self {
            OStream::U(s) => s.read(b),
            OStream::T(s) => s.read(b),
        }
    }
    fn write_all(&mut self, b: &[u8]) -> tiny_std::Result<()> {
        match self {
            OStream::U(s) => s.write_all(b),
            OStream::T(s) => s.write_all(b),
        }
    }
}

fn addr(port: u16) -> SocketAddress {
    SocketAddress::new(Ip::V4([127, 0, 0, 1]), port)
}

fn announce(fd: i32) {
    let nb = sys::is_nonblock(fd).map_or(-1, i64::from);
    marker::report(100, i64::from(fd), nb, 0, 0);
}

type Kept = Option<Box<dyn std::any::Any + Send>>;

/// run an obtaining call on a worker (tracked, possibly time-limited), let `peer` act once it waits
fn obtain<T: Send + 'static>(
    op: usize,
    tr: i32,
    fd: i32,
    events: i16,
    limit: Option<Duration>,
    scn: i64,
    f: impl FnOnce() -> tiny_std::Result<T> + Send + 'static,
    peer: impl FnOnce(),
) -> Result<T, String> {
    let w = start_timed(op, tr, fd, events, false, limit, move || {
        if scn != 0 {
            marker::begin(scn, 0, i64::from(fd));
        }
        let r = f();
        if scn != 0 {
            marker::end(scn, 0, 0, 0, 0);
        }
        keep(out_of(r, |_| Vec::new()))
    });
    // let it reach its wait (or finish), then the peer acts
    for _ in 0..100 {
        if crate::intr::in_ppoll(w.tid) || ended(&w) {
            break;
        }
        std::thread::sleep(Duration::from_micros(300));
    }
    peer();
    match w.handle.join() {
        Ok((Out::Ok(_), _, Some(b))) => b.downcast::<T>().map(|b| *b).map_err(|_| "downcast".to_string()),
        Ok((o, _, _)) => Err(format!("{o:?}")),
        Err(_) => Err("worker panicked".into()),
    }
}

struct Conn {
    stream: OStream,
    peer: i32,
    keep_fds: Vec<i32>,
    keep_any: Kept,
}

fn get_stream(origin: usize, dir: &str, tag: u64) -> Result<Conn, String> {
    let tcp = origin >= 5;
    let tr = i32::from(tcp);
    match origin {
        0..=2 | 5..=7 => {
            // server side: tiny-std listener, harness connects
            let kind = origin % 5; // 0 accept, 1 accept_with_timeout, 2 try_accept
            let path = format!("{dir}/o{tag}");
            let mut peer = -1;
            if tcp {
                let mut l = TcpListener::bind(&addr(0)).map_err(|e| format!("bind {e}"))?;
                let lfd = sys::peek_fd(&l).filter(|&f| sys::is_listening(f)).ok_or("listener fd")?;
                let port = sys::local_port(lfd).ok_or("port")?;
                announce(lfd);
                let connect = |peer: &mut i32| *peer = sys::tcp_connect(port, false);
                let s = match kind {
                    0 => obtain(2, tr, lfd, sys::POLLIN, None, 0, move || l.accept().map(|s| (s, l)), || connect(&mut peer)),
                    1 => obtain(5, tr, lfd, sys::POLLIN, Some(Duration::from_secs(20)), 200 + origin as i64, move || l.accept_with_timeout(Duration::from_secs(20)).map(|s| (s, l)), || connect(&mut peer)),
                    _ => {
                        connect(&mut peer);
                        if sys::poll_wait(lfd, sys::POLLIN, 10_000) & sys::POLLIN == 0 {
                            return Err("listener never readable".into());
                        }
                        obtain(7, tr, lfd, sys::POLLIN, Some(Duration::ZERO), 200 + origin as i64, move || l.try_accept().and_then(|o| o.ok_or(tiny_std::Error::Timeout)).map(|s| (s, l)), || {})
                    }
                }?;
                Ok(Conn {
                    stream: OStream::T(s.0),
                    peer,
                    keep_fds: vec![],
                    keep_any: Some(Box::new(s.1)),
                })
            } else {
                let _ = std::fs::remove_file(&path);
                let up = format!("{path}\0");
                let mut l = UnixListener::bind(UnixStr::try_from_str(&up).unwrap()).map_err(|e| format!("bind {e}"))?;
                let lfd = sys::peek_fd(&l).filter(|&f| sys::is_listening(f)).ok_or("listener fd")?;
                announce(lfd);
                let p2 = path.clone();
                let connect = move |peer: &mut i32| *peer = sys::unix_connect(&p2, false);
                let s = match kind {
                    0 => obtain(2, tr, lfd, sys::POLLIN, None, 0, move || l.accept().map(|s| (s, l)), || connect(&mut peer)),
                    1 => obtain(5, tr, lfd, sys::POLLIN, Some(Duration::from_secs(20)), 200 + origin as i64, move || l.accept_with_timeout(Duration::from_secs(20)).map(|s| (s, l)), || connect(&mut peer)),
                    _ => {
                        connect(&mut peer);
                        if sys::poll_wait(lfd, sys::POLLIN, 10_000) & sys::POLLIN == 0 {
                            return Err("listener never readable".into());
                        }
                        obtain(7, tr, lfd, sys::POLLIN, Some(Duration::ZERO), 200 + origin as i64, move || l.try_accept().and_then(|o| o.ok_or(tiny_std::Error::Timeout)).map(|s| (s, l)), || {})
                    }
                }?;
                Ok(Conn {
                    stream: OStream::U(s.0),
                    peer,
                    keep_fds: vec![],
                    keep_any: Some(Box::new(s.1)),
                })
            }
        }
        3 | 4 => {
            let path = format!("{dir}/oc{tag}");
            let _ = std::fs::remove_file(&path);
            let lfd = sys::unix_listener(&path, 8);
            let up = format!("{path}\0");
            let s = if origin == 3 {
                obtain(3, tr, -1, sys::POLLOUT, None, 0, move || UnixStream::connect(UnixStr::try_from_str(&up).unwrap()), || {})
            } else {
                obtain(8, tr, -1, sys::POLLOUT, Some(Duration::ZERO), 200 + origin as i64, move || UnixStream::try_connect(UnixStr::try_from_str(&up).unwrap()).and_then(|o| o.ok_or(tiny_std::Error::Timeout)), || {})
            }?;
            if sys::poll_wait(lfd, sys::POLLIN, 10_000) & sys::POLLIN == 0 {
                return Err("harness listener never readable".into());
            }
            let peer = unsafe { sys::accept(lfd, std::ptr::null_mut(), std::ptr::null_mut()) };
            Ok(Conn {
                stream: OStream::U(s),
                peer,
                keep_fds: vec![lfd],
                keep_any: None,
            })
        }
        _ => {
            let (lfd, port) = sys::tcp_listener(8);
            let s = match origin {
                8 => obtain(3, tr, -1, sys::POLLOUT, None, 0, move || TcpStream::connect(&addr(port)), || {}),
                9 => obtain(6, tr, -1, sys::POLLOUT, Some(Duration::from_secs(20)), 200 + origin as i64, move || TcpStream::connect_with_timeout(&addr(port), Duration::from_secs(20)), || {}),
                10 => obtain(
                    8,
                    tr,
                    -1,
                    sys::POLLOUT,
                    Some(Duration::ZERO),
                    200 + origin as i64,
                    move || {
                        let mut cur = TcpStream::try_connect(&addr(port))?;
                        let mut spins = 0u32;
                        loop {
                            match cur {
                                TcpTryConnect::Connected(s) => return Ok(s),
                                TcpTryConnect::InProgress(p) => {
                                    spins += 1;
                                    if spins > 100_000 {
                                        return Err(tiny_std::Error::Timeout);
                                    }
                                    cur = p.try_connect()?;
                                }
                            }
                        }
                    },
                    || {},
                ),
                _ => obtain(
                    3,
                    tr,
                    -1,
                    sys::POLLOUT,
                    None,
                    0,
                    move || match TcpStream::try_connect(&addr(port))? {
                        TcpTryConnect::Connected(s) => Ok(s),
                        TcpTryConnect::InProgress(p) => p.connect_blocking(),
                    },
                    || {},
                ),
            }?;
            if sys::poll_wait(lfd, sys::POLLIN, 10_000) & sys::POLLIN == 0 {
                return Err("harness listener never readable".into());
            }
            let peer = unsafe { sys::accept(lfd, std::ptr::null_mut(), std::ptr::null_mut()) };
            Ok(Conn {
                stream: OStream::T(s),
                peer,
                keep_fds: vec![lfd],
                keep_any: None,
            })
        }
    }
}

fn tname(origin: usize) -> &'static str {
    if origin >= 5 {
        "tcp"
    } else {
        "unix"
    }
}

pub fn run_origins(seed: u64, reps: u64, dir: &str) {
    crate::intr::install_handler();
    mon::spawn_monitor(6000);
    let mut r = Rng::new(seed);
    let mut tot = Tot::default();
    let mut done_ops = 0u64;
    for rep in 0..reps {
        for origin in 0..ORIGINS.len() {
            let oname = ORIGINS[origin];
            let tr = tname(origin);
            let tri = i32::from(origin >= 5);
            *mon::CASE_DESC.lock().unwrap() = format!("stream obtained by {oname}, rep {rep}");
            let conn = match get_stream(origin, dir, rep * 100 + origin as u64) {
                Ok(c) => c,
                Err(m) => {
                    vh::inconclusive(&format!("origins: could not obtain a stream via {oname}: {m}"));
                    continue;
                }
            };
            let Conn {
                stream,
                peer,
                keep_fds,
                keep_any,
            } = conn;
            if peer < 0 {
                vh::inconclusive(&format!("origins: harness peer for {oname} missing"));
                continue;
            }
            let sfd = stream.fd();
            let nb = sys::is_nonblock(sfd);
            vh::count(&format!("origin_{oname}_stream_O_NONBLOCK_{}", nb.map_or("unknown".into(), |b| u8::from(b).to_string())), 1);
            let st = Arc::new(Mutex::new(stream));
            // ---- A: read_with_timeout, silent peer (TCP only: UnixStream has no timed read)
            if origin >= 5 {
                let lim = Duration::from_millis(*r.pick(&[40u64, 90, 200]));
                *mon::CASE_DESC.lock().unwrap() = format!("read_with_timeout({lim:?}) with a silent peer on a stream obtained by {oname}");
                announce(sfd);
                let s2 = st.clone();
                let scn = 100 + origin as i64;
                let w = start_timed(4, tri, sfd, sys::POLLIN, false, Some(lim), move || {
                    let mut g = s2.lock().unwrap();
                    let mut b = [0u8; 8];
                    marker::begin(scn, 0, i64::from(sfd));
                    let res = match &mut *g {
                        OStream::T(s) => s.read_with_timeout(&mut b, lim),
                        OStream::U(_) => unreachable!(),
                    };
                    marker::end(scn, 0, 0, 0, 0);
                    keep::<()>((out_of(res, |&n| b[..n.min(8)].to_vec()).0, None))
                });
                if let Ok((out, el, _)) = w.handle.join() {
                    vh::eval(1);
                    done_ops += 1;
                    match out {
                        Out::Timeout if el >= lim => {
                            vh::distinct(&format!("origin/{oname}/read_with_timeout-silent-peer"));
                            vh::count("origins_timed_read_silent_peer_timeouts", 1);
                        }
                        Out::Timeout => vh::viol(
                            &format!("C16/{tr}/read_with_timeout/timeout-earlier-than-limit"),
                            &format!("{{\"origin\":\"{oname}\",\"requested_ns\":{},\"elapsed_ns\":{}}}", lim.as_nanos(), el.as_nanos()),
                        ),
                        Out::Errno(4) => vh::viol(&format!("C16/{tr}/read_with_timeout/eintr-surfaced"), &format!("{{\"origin\":\"{oname}\"}}")),
                        o => vh::inconclusive(&format!("origins {oname}: timed read with silent peer gave {o:?}")),
                    }
                }
            }
            // ---- B/C: (timed) read with a late peer
            for timed in [true, false] {
                if timed && origin < 5 {
                    continue;
                }
                let lim = Duration::from_secs(30);
                *mon::CASE_DESC.lock().unwrap() = format!("{} with a late peer on a stream obtained by {oname}", if timed { "read_with_timeout(30s)" } else { "read" });
                let s2 = st.clone();
                let w = start_timed(if timed { 4 } else { 0 }, tri, sfd, sys::POLLIN, false, timed.then_some(lim), move || {
                    let mut g = s2.lock().unwrap();
                    let mut b = [0u8; 8];
                    let res = match (&mut *g, timed) {
                        (OStream::T(s), true) => s.read_with_timeout(&mut b, lim),
                        (s, _) => s.read(&mut b),
                    };
                    keep::<()>((out_of(res, |&n| b[..n.min(8)].to_vec()).0, None))
                });
                let parked = crate::intr::wait_in_ppoll(w.tid, 300);
                let early = ended(&w);
                let msg = (seed ^ (rep << 8) ^ origin as u64 ^ u64::from(timed)).to_le_bytes();
                unsafe { sys::write(peer, msg.as_ptr(), 8) };
                if let Ok((out, _el, _)) = w.handle.join() {
                    vh::eval(1);
                    done_ops += 1;
                    let opn = if timed { "read_with_timeout" } else { "read" };
                    match out {
                        Out::Ok(b) if b == msg && !early => {
                            vh::distinct(&format!("origin/{oname}/{opn}-late-peer"));
                            vh::count("origins_reads_completed_after_late_peer", u64::from(parked));
                        }
                        Out::Ok(b) => vh::viol(&format!("C16/{tr}/{opn}/wrong-data"), &format!("{{\"origin\":\"{oname}\",\"want\":{},\"got\":{},\"returned_before_peer_wrote\":{early}}}", vh::jb(&msg), vh::jb(&b))),
                        Out::Errno(11) => vh::viol(&format!("C16/{tr}/{opn}/returned-wouldblock"), &format!("{{\"origin\":\"{oname}\"}}")),
                        Out::Errno(4) => vh::viol(&format!("C16/{tr}/{opn}/eintr-surfaced"), &format!("{{\"origin\":\"{oname}\"}}")),
                        o => vh::inconclusive(&format!("origins {oname}: {opn} with late peer gave {o:?}")),
                    }
                }
            }
            // ---- D: blocking read interrupted by SIGUSR1 while it waits, then the peer writes
            {
                *mon::CASE_DESC.lock().unwrap() = format!("read interrupted by SIGUSR1 on a stream obtained by {oname}");
                let s2 = st.clone();
                let w = start_timed(0, tri, sfd, sys::POLLIN, false, None, move || {
                    let mut g = s2.lock().unwrap();
                    let mut b = [0u8; 8];
                    let res = g.read(&mut b);
                    keep::<()>((out_of(res, |&n| b[..n.min(8)].to_vec()).0, None))
                });
                let k = 1 + r.below(3);
                let sig = pester(&w, &mut r, k, false, 3000);
                let early = ended(&w);
                let msg = (seed.rotate_left(13) ^ (rep << 8) ^ origin as u64).to_le_bytes();
                unsafe { sys::write(peer, msg.as_ptr(), 8) };
                if let Ok((out, el, _)) = w.handle.join() {
                    done_ops += 1;
                    conclude(
                        &Verdict {
                            tr,
                            op: "read",
                            limit: None,
                            peer_acts: true,
                            want: Some(msg.to_vec()),
                        },
                        &sig,
                        early,
                        &out,
                        el,
                        false,
                        &mut tot,
                    );
                    if matches!(out, Out::Ok(_)) && sig.landed > 0 {
                        vh::distinct(&format!("origin/{oname}/read-interrupted-by-signal"));
                    }
                }
            }
            // ---- E: a write that fills the buffers; the peer starts draining late
            {
                let len = if origin >= 5 { (8usize << 20) + (r.below(4 << 20) as usize) } else { (1usize << 20) | (r.below(2 << 20) as usize) };
                *mon::CASE_DESC.lock().unwrap() = format!("write_all of {len} bytes, peer drains late, stream obtained by {oname}");
                let pseed = r.next();
                let s2 = st.clone();
                let w = start_timed(1, tri, sfd, sys::POLLOUT, false, None, move || {
                    let mut g = s2.lock().unwrap();
                    let mut buf = vec![0u8; len];
                    pat::fill(pseed, 0, &mut buf);
                    let res = g.write_all(&buf);
                    keep::<()>((out_of(res, |()| Vec::new()).0, None))
                });
                let parked = crate::intr::wait_in_ppoll(w.tid, 200);
                std::thread::sleep(Duration::from_millis(10));
                let mut got = 0usize;
                let mut ok = true;
                let mut buf = vec![0u8; 1 << 16];
                let mut scratch = Vec::new();
                let t0 = Instant::now();
                while got < len && t0.elapsed().as_secs() < 60 {
                    if sys::poll_wait(peer, sys::POLLIN, 200) & (sys::POLLIN | sys::POLLHUP) == 0 {
                        if w.handle.is_finished() {
                            break;
                        }
                        continue;
                    }
                    let n = unsafe { sys::read(peer, buf.as_mut_ptr(), buf.len()) };
                    if n <= 0 {
                        break;
                    }
                    if pat::first_mismatch(pseed, got as u64, &buf[..n as usize], &mut scratch).is_some() {
                        ok = false;
                    }
                    got += n as usize;
                }
                if let Ok((out, _, _)) = w.handle.join() {
                    vh::eval(1);
                    done_ops += 1;
                    match out {
                        Out::Ok(_) if ok && got == len => {
                            vh::distinct(&format!("origin/{oname}/large-write-peer-drains-late"));
                            vh::count("origins_large_writes_verified_bytes", len as u64);
                            vh::count("origins_large_writes_parked_on_full_buffer", u64::from(parked));
                        }
                        Out::Ok(_) => vh::viol(&format!("C16/{tr}/stream/large-write-corrupt-or-short"), &format!("{{\"origin\":\"{oname}\",\"len\":{len},\"received\":{got},\"pattern_ok\":{ok}}}")),
                        Out::Errno(11) => vh::viol(&format!("C16/{tr}/write/returned-wouldblock"), &format!("{{\"origin\":\"{oname}\",\"received\":{got}}}")),
                        o => vh::inconclusive(&format!("origins {oname}: large write gave {o:?} after {got} of {len} bytes")),
                    }
                }
            }
            drop(st);
            drop(keep_any);
            unsafe {
                sys::close(peer);
                for f in keep_fds {
                    sys::close(f);
                }
            }
        }
    }
    vh::count("origins_operations_run", done_ops);
    vh::count("origins_handlers_run_while_parked", tot.signals);
    let _ = errno_of;
}
