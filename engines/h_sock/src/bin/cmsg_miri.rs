//! C16, pure part: ControlMessageIterator over hand-built control buffers (no system calls), meant
//! for Miri (also runs natively). usage: cmsg_miri run <seed> <ncases> [unaligned] [only=<n>:<tight>:<cred>:<box>[:<start_mod8>]]
//! The buffer is an exact-size, 8-aligned allocation holding exactly what the kernel would have
//! written (msg_controllen = its length), so any access past the data is an out-of-bounds access
//! that Miri reports. Expected output = the descriptor lists that were put in.
use rusl::platform::{ControlMessageSend, IoSliceMut, MsgHdrBorrow};
use vh::Rng;

fn align8(x: usize) -> usize {
    (x + 7) & !7
}

struct Buf {
    ptr: *mut u8,
    len: usize,
}
impl Buf {
    fn new(len: usize) -> Self {
        let ptr = unsafe { std::alloc::alloc_zeroed(std::alloc::Layout::from_size_align(len.max(1), 8).unwrap()) };
        Buf {
            ptr,
            len,
        }
    }
    fn slice(&mut self) -> &mut [u8] {
        unsafe { std::slice::from_raw_parts_mut(self.ptr, self.len) }
    }
}
impl Drop for Buf {
    fn drop(&mut self) {
        unsafe { std::alloc::dealloc(self.ptr, std::alloc::Layout::from_size_align(self.len.max(1), 8).unwrap()) }
    }
}

fn put_rec(b: &mut [u8], off: usize, level: i32, ty: i32, payload: &[u8]) -> usize {
    let len = 16 + payload.len();
    b[off..off + 8].copy_from_slice(&(len as u64).to_le_bytes());
    b[off + 8..off + 12].copy_from_slice(&level.to_le_bytes());
    b[off + 12..off + 16].copy_from_slice(&ty.to_le_bytes());
    b[off + 16..off + 16 + payload.len()].copy_from_slice(payload);
    off + align8(len)
}

#[repr(C)]
struct RawMsgHdr {
    name: *const u8,
    namelen: u32,
    iov: *mut u8,
    iovlen: usize,
    control: *mut u8,
    controllen: usize,
    flags: i32,
}

/// Err((symptom, still_a_prefix_of_expected, text))
fn one(n: usize, tight: bool, cred: bool, boxed: bool, off: usize) -> Result<(), (String, bool, String)> {
    // layout: [SCM_CREDENTIALS (12 bytes)] SCM_RIGHTS (4n bytes); `tight` = no trailing padding
    let fds: Vec<i32> = (0..n as i32).map(|i| 1000 + i * 3).collect();
    let mut payload = Vec::new();
    for f in &fds {
        payload.extend_from_slice(&f.to_le_bytes());
    }
    let pre = if cred { 32 } else { 0 };
    let total = pre + if tight { 16 + 4 * n } else { align8(16 + 4 * n) };
    // what the kernel would write
    let mut recs = vec![0u8; total];
    {
        let b = &mut recs[..];
        let mut o = 0;
        if cred {
            o = put_rec(b, o, 1, 2, &[7u8; 12]);
        }
        let len = 16 + payload.len();
        b[o..o + 8].copy_from_slice(&(len as u64).to_le_bytes());
        b[o + 8..o + 12].copy_from_slice(&1i32.to_le_bytes());
        b[o + 12..o + 16].copy_from_slice(&1i32.to_le_bytes());
        b[o + 16..o + len].copy_from_slice(&payload);
    }
    // the caller's buffer: a slice starting `off` bytes into an 8-aligned allocation that ends with
    // the slice; for off != 0 it has room for the data behind the first aligned address
    let lead = (8 - off) % 8;
    let mut buf = Buf::new(off + lead + total);
    let (slice_lo, slice_len) = (buf.ptr as usize + off, lead + total);
    let mut data = [0u8; 8];
    let io = &mut [IoSliceMut::new(&mut data)];
    let ctrl = &mut buf.slice()[off..];
    let mut hdr_stack;
    let mut hdr_box;
    let hdr: &mut MsgHdrBorrow = if boxed {
        hdr_box = Box::new(MsgHdrBorrow::create_recv(io, Some(ctrl)));
        &mut hdr_box
    } else {
        hdr_stack = MsgHdrBorrow::create_recv(io, Some(ctrl));
        &mut hdr_stack
    };
    // play the kernel: write the records where msg_control points, update msg_controllen
    assert_eq!(std::mem::size_of::<MsgHdrBorrow>(), std::mem::size_of::<RawMsgHdr>());
    unsafe {
        let raw = (hdr as *mut MsgHdrBorrow).cast::<RawMsgHdr>();
        let (c, l) = ((*raw).control as usize, (*raw).controllen);
        if l > 0 && (c < slice_lo || c + l > slice_lo + slice_len) {
            return Err(("range".into(), false, format!("msg_control at slice offset {} with msg_controllen {l} leaves the {slice_len}-byte slice", c as i64 - slice_lo as i64)));
        }
        if l < total {
            return Err(("range".into(), false, format!("only {l} of {slice_len} bytes offered to the kernel, {total} needed")));
        }
        std::ptr::copy_nonoverlapping(recs.as_ptr(), (*raw).control, total);
        (*raw).controllen = total;
    }
    let hdr: &MsgHdrBorrow = hdr;
    let mut got: Vec<Vec<i32>> = Vec::new();
    let mut it = hdr.control_messages();
    let cap = 8;
    let mut steps = 0;
    loop {
        if steps >= cap {
            let pre = got.first() == Some(&fds);
            return Err(("nontermination".into(), pre, format!("step cap; got {got:?}")));
        }
        steps += 1;
        match vh::catch(|| it.next()) {
            Err(m) => {
                let pre = got.is_empty() || got == vec![fds.clone()];
                return Err(("panic".into(), pre && m.contains("overflow"), m));
            }
            Ok(None) => break,
            Ok(Some(ControlMessageSend::ScmRights(s))) => got.push(s.iter().map(|f| f.value()).collect()),
        }
    }
    if got == vec![fds.clone()] {
        Ok(())
    } else {
        Err(("wrong-fd-list".into(), got.first() == Some(&fds), format!("want [{fds:?}] got {got:?}")))
    }
}

fn main() {
    let a = vh::args();
    let mut r = Rng::new(a.seed);
    let mut only = None;
    let unaligned = a.rest.iter().any(|x| x == "unaligned");
    for x in &a.rest {
        if let Some(v) = x.strip_prefix("only=") {
            let p: Vec<usize> = v.split(':').map(|s| s.parse().unwrap()).collect();
            only = Some((p[0], p[1] != 0, p[2] != 0, p[3] != 0, p.get(4).copied().unwrap_or(0)));
        }
    }
    let mut cases = Vec::new();
    if let Some(c) = only {
        cases.push(c);
    } else {
        for i in 0..a.budget {
            let n = match i % 5 {
                0 => 1,
                1 => 2,
                2 => 3,
                3 => r.range(4, 40) as usize,
                _ => r.range(1, 253) as usize,
            };
            let off = if unaligned { 1 + (i as usize + r.below(7) as usize) % 7 } else { 0 };
            cases.push((n.min(if unaligned { 40 } else { 253 }), r.chance(1, 3), r.chance(1, 4), r.chance(1, 2), off));
        }
    }
    for (n, tight, cred, boxed, off) in cases {
        // announce before running: if Miri stops the program, the last announced case is the witness
        eprintln!("CASE n={n} tight={tight} cred={cred} boxed={boxed} start_mod8={off}");
        vh::eval(1);
        let spec = format!("{{\"n\":{n},\"tight\":{tight},\"passcred_record\":{cred},\"msghdr_boxed\":{boxed},\"start_mod8\":{off},\"miri\":{}}}", vh::IS_MIRI);
        match one(n, tight, cred, boxed, off) {
            Ok(()) => {
                vh::distinct(&format!("cmsg-pure/n={}/tight={tight}/cred={cred}/boxed={boxed}/start_mod8={off}", if n <= 3 { n.to_string() } else { "many".into() }));
                vh::sample(&format!("{{\"kind\":\"cmsg-pure\",\"case\":{spec},\"ok\":true}}"), 2);
                vh::count("cmsg_pure_cases_clean", 1);
            }
            Err((sym, pre, m)) => {
                let sig = if sym == "range" {
                    "C16/recvmsg/kernel-write-outside-control-buffer".to_string()
                } else if pre {
                    format!("C16/cmsg-iter/end-of-buffer-test-uses-local-addresses/{sym}")
                } else {
                    "C16/cmsg-iter/fd-list-mismatch".to_string()
                };
                vh::viol(
                    &sig,
                    &format!("{{\"case\":{spec},\"detector\":\"pure iterator on hand-built buffer\",\"what\":{}}}", vh::js(&m)),
                );
            }
        }
    }
}
