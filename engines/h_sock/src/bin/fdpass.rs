//! C16 fd passing: SCM_RIGHTS through rusl sendmsg/recvmsg + ControlMessageIterator.
//!
//! usage: fdpass run <seed> <ncases> [place=heap|guard|stack|any] [only=<n>:<a>:<b>:<fill>:<place>:<hdr>:<cred>]
//!
//! One case = (n descriptors, control buffer of CMSG_SPACE(4n) - a + b bytes, fill, placement of
//! the buffer, placement of the msghdr, SO_PASSCRED on/off). The parent sends with
//! `MsgHdrBorrow::create_send(.., ScmRights)` + `rusl::network::sendmsg`; a forked child receives
//! with `rusl::network::recvmsg`, then
//!   * reference: walks the cmsghdr records in control[0..msg_controllen] (as updated by the
//!     kernel) itself -> list of descriptor lists the kernel delivered;
//!   * subject: `hdr.control_messages()` stepped under catch_unwind with a step cap; every yielded
//!     slice is bounds-checked against control[0..msg_controllen] before it is read;
//!   * identity: fstat (dev, ino) of every delivered descriptor against the sent order.
//! The child runs the iterator with the buffer (a) as an exact-size heap allocation (ASan build:
//! report = over-read), (b) ending at a PROT_NONE page (SIGSEGV with si_addr inside the guard page
//! = over-read), (c) on the stack. Crashes, ASan reports and spinning are classified by the parent.
use h_sock::sys;
use rusl::platform::{ControlMessageSend, IoSlice, IoSliceMut, MsgHdrBorrow, NonNegativeI32};
use std::sync::atomic::{AtomicUsize, Ordering};
use vh::Rng;

const PREFIX: &str = "C16/cmsg-iter/end-of-buffer-test-uses-local-addresses";

#[repr(C)]
struct RawMsgHdr {
    name: *const u8,
    namelen: u32,
    iov: *mut u8,
    iovlen: usize,
    control: *mut u8,
    controllen: usize,
    flags: i32,
}

fn cmsg_align(x: usize) -> usize {
    (x + 7) & !7
}
fn cmsg_space(data: usize) -> usize {
    cmsg_align(data) + 16
}

#[derive(Clone, Debug)]
struct Case {
    n: usize,
    a: usize,
    b: usize,
    fill: u8,  // 0 = 0xFF, 1 = 0x00, 2 = crafted stale header after the expected data
    place: u8, // 0 heap exact, 1 guard page, 2 stack, 3 sub-slice with canaries, 4 sub-slice ending at the allocation end, 5 sub-slice ending at a PROT_NONE page
    hdr: u8,   // 0 msghdr on stack, 1 msghdr boxed
    cred: bool,
    dlen: usize,
    off: usize,   // places 3..5: start of the slice relative to an 8-aligned address (0..=7)
    extra: usize, // places 3..5: 0..=7 more bytes, so that sizes are not only multiples of 4
}
impl Case {
    fn size(&self) -> usize {
        let base = cmsg_space(4 * self.n) + if self.cred { 32 } else { 0 };
        (base + self.b).saturating_sub(self.a) + self.extra
    }
    /// start offset modulo 8 the slice really gets (the guard placement derives it from the size)
    fn start_mod8(&self) -> usize {
        match self.place {
            3 | 4 => self.off,
            5 => (8 - self.size() % 8) % 8,
            _ => 0,
        }
    }
    fn nclass(&self) -> &'static str {
        match self.n {
            0 => "0",
            1 => "1",
            2..=3 => "2-3",
            4..=16 => "4-16",
            17..=200 => "17-200",
            201..=252 => "201-252",
            _ => "253",
        }
    }
    fn bufclass(&self) -> String {
        format!("space-{}+{}", self.a, self.b)
    }
    fn fillname(&self) -> &'static str {
        ["ff", "00", "stalehdr"][self.fill as usize]
    }
    fn placename(&self) -> &'static str {
        ["heap-exact", "guard-page", "stack", "subslice-canaries", "subslice-alloc-end", "subslice-guard-page"][self.place as usize]
    }
    fn json(&self) -> String {
        format!(
            "{{\"n\":{},\"ctrl_size\":{},\"start_mod8\":{},\"minus\":{},\"plus\":{},\"fill\":\"{}\",\"place\":\"{}\",\"msghdr\":\"{}\",\"passcred\":{},\"data_len\":{}}}",
            self.n,
            self.size(),
            self.start_mod8(),
            self.a,
            self.b,
            self.fillname(),
            self.placename(),
            if self.hdr == 0 { "stack" } else { "box" },
            self.cred,
            self.dlen
        )
    }
    fn spec(&self) -> String {
        format!("{}:{}:{}:{}:{}:{}:{}:{}:{}", self.n, self.a, self.b, self.fill, self.place, self.hdr, u8::from(self.cred), self.off, self.extra)
    }
}

// ---------------------------------------------------------------- child side

static GUARD_LO: AtomicUsize = AtomicUsize::new(0);
static GUARD_HI: AtomicUsize = AtomicUsize::new(0);
static PHASE: AtomicUsize = AtomicUsize::new(0); // 1 recv, 2 iterate, 3 compare
static RESFD: AtomicUsize = AtomicUsize::new(0);
const CANARY: u8 = 0xC7;

extern "C" fn on_segv(_sig: i32, info: *const u8, uctx: *const u8) {
    // async-signal-safe: raw reads, write(2), _exit
    unsafe {
        let addr = *(info.add(16) as *const usize);
        let rsp = *(uctx.add(40 + 15 * 8) as *const usize);
        let lo = GUARD_LO.load(Ordering::Relaxed);
        let hi = GUARD_HI.load(Ordering::Relaxed);
        let class = if addr >= lo && addr < hi {
            b'G'
        } else if addr.abs_diff(rsp) < 256 * 1024 {
            b'S'
        } else {
            b'O'
        };
        let mut buf = [0u8; 64];
        let mut k = 0;
        for &c in b"segv=" {
            buf[k] = c;
            k += 1;
        }
        buf[k] = class;
        k += 1;
        for &c in b";phase=" {
            buf[k] = c;
            k += 1;
        }
        buf[k] = b'0' + PHASE.load(Ordering::Relaxed) as u8;
        k += 1;
        for &c in b";addr=" {
            buf[k] = c;
            k += 1;
        }
        for i in (0..16).rev() {
            let d = ((addr >> (i * 4)) & 15) as u8;
            buf[k] = if d < 10 { b'0' + d } else { b'a' + d - 10 };
            k += 1;
        }
        buf[k] = b';';
        k += 1;
        buf[k] = b'\n';
        k += 1;
        sys::write(RESFD.load(Ordering::Relaxed) as i32, buf.as_ptr(), k);
        sys::_exit(70);
    }
}

fn install_segv() {
    unsafe {
        let sz = 64 * 1024;
        let st = sys::mmap(std::ptr::null_mut(), sz, 3, 0x22, -1, 0);
        let ss = sys::StackT {
            sp: st,
            flags: 0,
            size: sz,
        };
        sys::sigaltstack(&ss, std::ptr::null_mut());
        let sa = sys::SigAction {
            handler: on_segv as *const () as usize,
            mask: [0; 16],
            flags: 0x0800_0000 | 4, // SA_ONSTACK | SA_SIGINFO
            restorer: 0,
        };
        sys::sigaction(11, &sa, std::ptr::null_mut());
        sys::sigaction(7, &sa, std::ptr::null_mut());
    }
}

#[repr(align(8))]
struct StackBuf([u8; 2048]);

/// reference walk of control[0..len]: list of (level, type, fds) per record, as the kernel wrote them
fn reference_parse(ctrl: &[u8]) -> Vec<(i32, i32, Vec<i32>)> {
    let mut out = Vec::new();
    let mut o = 0usize;
    while o + 16 <= ctrl.len() {
        let len = u64::from_le_bytes(ctrl[o..o + 8].try_into().unwrap()) as usize;
        let level = i32::from_le_bytes(ctrl[o + 8..o + 12].try_into().unwrap());
        let ty = i32::from_le_bytes(ctrl[o + 12..o + 16].try_into().unwrap());
        if len < 16 || o + len > ctrl.len() {
            break;
        }
        let mut v = Vec::new();
        let mut p = o + 16;
        while p + 4 <= o + len {
            v.push(i32::from_le_bytes(ctrl[p..p + 4].try_into().unwrap()));
            p += 4;
        }
        out.push((level, ty, v));
        o += cmsg_align(len);
    }
    out
}

fn fmt_lists(l: &[Vec<i32>]) -> String {
    l.iter()
        .map(|v| v.iter().map(|x| x.to_string()).collect::<Vec<_>>().join(","))
        .collect::<Vec<_>>()
        .join("|")
}

fn child(case: &Case, sock: i32, resfd: i32, idents: &[(u64, u64)]) -> ! {
    RESFD.store(resfd as usize, Ordering::Relaxed);
    install_segv();
    let size = case.size();
    let mut res = String::new();
    // ---- place the control buffer
    let mut stackbuf = StackBuf([0u8; 2048]);
    let mut canaries: Vec<(usize, usize)> = Vec::new(); // (address, length) of bytes that nobody may change
    // panics that cannot unwind (misaligned dereference checks) abort: let their text reach the parent
    let _ = vh::catch(|| ());
    std::panic::set_hook(Box::new(|info| {
        eprintln!("PANIC {info}");
    }));
    let ctrl_ptr: *mut u8 = unsafe {
        match case.place {
            0 => std::alloc::alloc(std::alloc::Layout::from_size_align(size.max(1), 8).unwrap()),
            1 => {
                let pg = 4096usize;
                let need = cmsg_align(size).max(8);
                let pages = need.div_ceil(pg);
                let base = sys::mmap(std::ptr::null_mut(), (pages + 1) * pg, 3, 0x22, -1, 0);
                assert!(base as isize != -1);
                let guard = base.add(pages * pg);
                assert_eq!(0, sys::mprotect(guard, pg, 0));
                GUARD_LO.store(guard as usize, Ordering::Relaxed);
                GUARD_HI.store(guard as usize + pg, Ordering::Relaxed);
                guard.sub(need)
            }
            2 => {
                assert!(size <= 2048);
                stackbuf.0.as_mut_ptr()
            }
            3 => {
                let total = 32 + case.off + size + 32;
                let base = std::alloc::alloc(std::alloc::Layout::from_size_align(total, 8).unwrap());
                std::ptr::write_bytes(base, CANARY, total);
                canaries.push((base as usize, 32 + case.off));
                canaries.push((base as usize + 32 + case.off + size, 32));
                base.add(32 + case.off)
            }
            4 => {
                let total = 8 + case.off + size;
                let base = std::alloc::alloc(std::alloc::Layout::from_size_align(total, 8).unwrap());
                std::ptr::write_bytes(base, CANARY, total);
                canaries.push((base as usize, 8 + case.off));
                base.add(8 + case.off)
            }
            _ => {
                let pg = 4096usize;
                let need = size + 40;
                let pages = need.div_ceil(pg);
                let base = sys::mmap(std::ptr::null_mut(), (pages + 1) * pg, 3, 0x22, -1, 0);
                assert!(base as isize != -1);
                let guard = base.add(pages * pg);
                assert_eq!(0, sys::mprotect(guard, pg, 0));
                GUARD_LO.store(guard as usize, Ordering::Relaxed);
                GUARD_HI.store(guard as usize + pg, Ordering::Relaxed);
                let start = guard.sub(size);
                std::ptr::write_bytes(start.sub(32), CANARY, 32);
                canaries.push((start as usize - 32, 32));
                start
            }
        }
    };
    let ctrl: &mut [u8] = unsafe { std::slice::from_raw_parts_mut(ctrl_ptr, size) };
    match case.fill {
        0 => ctrl.fill(0xFF),
        1 => ctrl.fill(0),
        _ => {
            ctrl.fill(0);
            // a plausible stale record right where the kernel's data will end
            // (relative to the first 8-aligned byte of the slice, where an aligning receiver would start)
            let lead = (8 - ctrl_ptr as usize % 8) % 8;
            let so = cmsg_space(4 * case.n) + if case.cred { 32 } else { 0 };
            let so = lead + if case.n == 0 { so - 16 } else { so };
            if so + 24 <= size {
                ctrl[so..so + 8].copy_from_slice(&20u64.to_le_bytes());
                ctrl[so + 8..so + 12].copy_from_slice(&1i32.to_le_bytes());
                ctrl[so + 12..so + 16].copy_from_slice(&1i32.to_le_bytes());
                ctrl[so + 16..so + 20].copy_from_slice(&0i32.to_le_bytes());
            }
        }
    }
    let ctrl_addr = ctrl_ptr as usize;
    let mut data = [0u8; 128];
    let data_ptr = data.as_ptr();
    let io = &mut [IoSliceMut::new(&mut data)];
    PHASE.store(1, Ordering::Relaxed);
    // msghdr placement: on this frame or boxed
    let mut hdr_stack;
    let mut hdr_box;
    let hdr: &mut MsgHdrBorrow = if case.hdr == 0 {
        hdr_stack = MsgHdrBorrow::create_recv(io, Some(ctrl));
        &mut hdr_stack
    } else {
        hdr_box = Box::new(MsgHdrBorrow::create_recv(io, Some(ctrl)));
        &mut hdr_box
    };
    assert_eq!(std::mem::size_of::<MsgHdrBorrow>(), std::mem::size_of::<RawMsgHdr>());
    // what the kernel is about to be told: must lie inside the supplied slice
    let (pre_ctrl, pre_len) = unsafe {
        let raw = (hdr as *const MsgHdrBorrow).cast::<RawMsgHdr>();
        ((*raw).control as usize, (*raw).controllen)
    };
    if pre_len > 0 && (pre_ctrl < ctrl_addr || pre_ctrl + pre_len > ctrl_addr + size) {
        res.push_str(&format!("range_bad={}:{};", pre_ctrl as i64 - ctrl_addr as i64, pre_len));
    }
    let fd = NonNegativeI32::try_new(sock).unwrap();
    let r = rusl::network::recvmsg(fd, hdr, 0);
    let nbytes = match r {
        Ok(n) => n,
        Err(e) => {
            res.push_str(&format!("recv_err={};", e.code.map_or(-1, |c| c.raw())));
            finish(resfd, &res, 0)
        }
    };
    let (kctrl, controllen, flags) = unsafe {
        let raw = (hdr as *const MsgHdrBorrow).cast::<RawMsgHdr>();
        ((*raw).control as usize, (*raw).controllen, (*raw).flags)
    };
    // canaries around the slice: the kernel must not have touched them
    for (ci, &(ca, cl)) in canaries.iter().enumerate() {
        let b = unsafe { std::slice::from_raw_parts(ca as *const u8, cl) };
        let changed = b.iter().filter(|&&x| x != CANARY).count();
        if changed > 0 {
            let first = b.iter().position(|&x| x != CANARY).unwrap();
            let rel = (ca + first) as i64 - (ctrl_addr + size) as i64;
            res.push_str(&format!("canary_bad={ci}:{changed}:{rel};"));
        }
    }
    res.push_str(&format!("recv={nbytes};controllen={controllen};flags={flags};kctrl_off={};", kctrl as i64 - ctrl_addr as i64));
    if controllen > 0 && (kctrl < ctrl_addr || kctrl > ctrl_addr + size) {
        res.push_str("controllen_gt_size=1;");
        finish(resfd, &res, 0);
    }
    // the part of what the kernel reports that lies inside the supplied slice
    let kctrl = if controllen == 0 { ctrl_addr } else { kctrl };
    let inside = controllen.min(ctrl_addr + size - kctrl);
    if inside < controllen {
        res.push_str(&format!("reported_past_slice={};", controllen - inside));
    }
    let controllen = inside;
    let snapshot: Vec<u8> = unsafe { std::slice::from_raw_parts(kctrl as *const u8, controllen).to_vec() };
    let recs = reference_parse(&snapshot);
    let ref_lists: Vec<Vec<i32>> = recs.iter().filter(|r| r.0 == 1 && r.1 == 1).map(|r| r.2.clone()).collect();
    res.push_str(&format!("nrec={};ref={};", recs.len(), fmt_lists(&ref_lists)));
    // data bytes
    let got_data = unsafe { std::slice::from_raw_parts(data_ptr, nbytes.min(128)) };
    let data_ok = nbytes == case.dlen && got_data.iter().enumerate().all(|(i, &b)| b == (i as u8) ^ 0x5A);
    res.push_str(&format!("data_ok={};", u8::from(data_ok)));
    // identity of what the kernel delivered, against the sent order
    let mut ident_ok = true;
    let mut k = 0usize;
    for l in &ref_lists {
        for &f in l {
            let id = sys::fd_identity(f);
            if k >= idents.len() || id != Some(idents[k]) {
                ident_ok = false;
            }
            k += 1;
        }
    }
    res.push_str(&format!("ident_ok={};delivered={k};", u8::from(ident_ok)));
    // ---- the subject
    PHASE.store(2, Ordering::Relaxed);
    eprintln!("PHASE iterate ctrl=0x{ctrl_addr:x} size={size} controllen={controllen}");
    let cap = recs.len() + 8;
    let mut got: Vec<Vec<i32>> = Vec::new();
    let mut outcome = "done";
    let mut panic_msg = String::new();
    {
        let hdr_ref: &MsgHdrBorrow = hdr;
        let mut it = hdr_ref.control_messages();
        let mut steps = 0usize;
        loop {
            if steps >= cap {
                outcome = "stepcap";
                break;
            }
            steps += 1;
            match vh::catch(|| it.next()) {
                Err(m) => {
                    outcome = "panic";
                    panic_msg = m;
                    break;
                }
                Ok(None) => break,
                Ok(Some(ControlMessageSend::ScmRights(s))) => {
                    let p = s.as_ptr() as usize;
                    let bytes = s.len().saturating_mul(4);
                    if p < kctrl || p.saturating_add(bytes) > kctrl + controllen {
                        outcome = "slice-outside";
                        res.push_str(&format!("bad_slice_off={};bad_slice_len={};", p as i64 - kctrl as i64, s.len()));
                        break;
                    }
                    got.push(s.iter().map(|f| f.value()).collect());
                }
            }
        }
    }
    PHASE.store(3, Ordering::Relaxed);
    res.push_str(&format!("outcome={outcome};got={};", fmt_lists(&got)));
    if !panic_msg.is_empty() {
        res.push_str(&format!("panic={};", panic_msg.replace([';', '\n', '='], " ")));
    }
    let prefix_ok = got.len() >= ref_lists.len() && got[..ref_lists.len()] == ref_lists[..];
    // next() computes the successor header before it yields the current record, so a panic while
    // `got` is still a prefix of the reference happened in that successor computation
    let got_is_prefix = got.len() <= ref_lists.len() && got[..] == ref_lists[..got.len()];
    res.push_str(&format!("prefix_ok={};equal={};gprefix={};", u8::from(prefix_ok), u8::from(got == ref_lists), u8::from(got_is_prefix)));
    finish(resfd, &res, 0)
}

fn finish(resfd: i32, res: &str, code: i32) -> ! {
    let line = format!("{res}\n");
    unsafe {
        sys::write(resfd, line.as_ptr(), line.len());
        sys::_exit(code)
    }
}

// ---------------------------------------------------------------- parent side

struct Files {
    fds: Vec<i32>,
    idents: Vec<(u64, u64)>,
    dir: String,
}

fn open_files(seed: u64) -> Files {
    use std::os::fd::IntoRawFd;
    let base = std::env::var("C16_TMP").unwrap_or_else(|_| "/tmp".into());
    let dir = format!("{base}/c16-fdpass-{}-{}", std::process::id(), seed);
    let _ = std::fs::remove_dir_all(&dir);
    std::fs::create_dir_all(&dir).unwrap();
    let mut fds = Vec::new();
    let mut idents = Vec::new();
    for i in 0..253 {
        let p = format!("{dir}/f{i}");
        std::fs::write(&p, format!("{i}")).unwrap();
        let fd = std::fs::File::open(&p).unwrap().into_raw_fd();
        idents.push(sys::fd_identity(fd).unwrap());
        fds.push(fd);
    }
    Files {
        fds,
        idents,
        dir,
    }
}

fn kv(line: &str, key: &str) -> Option<String> {
    for tok in line.split(';') {
        if let Some((k, v)) = tok.trim().split_once('=') {
            if k == key {
                return Some(v.to_string());
            }
        }
    }
    None
}

fn read_all_nonblock(fd: i32, into: &mut Vec<u8>) -> bool {
    // returns true on EOF
    let mut buf = [0u8; 4096];
    loop {
        let n = unsafe { sys::read(fd, buf.as_mut_ptr(), buf.len()) };
        if n > 0 {
            into.extend_from_slice(&buf[..n as usize]);
            if into.len() > 200_000 {
                return true;
            }
        } else if n == 0 {
            return true;
        } else {
            return false; // EAGAIN
        }
    }
}

struct Tot {
    cases: u64,
    clean: u64,
    delivered_fds: u64,
    trunc: u64,
    viols: u64,
    by_symptom: std::collections::BTreeMap<String, u64>,
}

fn viol(t: &mut Tot, sig: &str, case: &Case, extra: &str) {
    t.viols += 1;
    let sym = sig.rsplit('/').next().unwrap_or("").to_string();
    let c = t.by_symptom.entry(sym).or_insert(0);
    *c += 1;
    if *c <= 6 {
        vh::viol(sig, &format!("{{\"case\":{},\"replay\":{},{extra}}}", case.json(), vh::js(&case.spec())));
    }
}

fn run_case(case: &Case, files: &Files, t: &mut Tot, build: &str) {
    use std::io::Write;
    let _ = std::io::stdout().flush();
    let mut sv = [0i32; 2];
    let mut rp = [0i32; 2];
    let mut ep = [0i32; 2];
    unsafe {
        assert_eq!(0, sys::socketpair(sys::AF_UNIX, sys::SOCK_STREAM, 0, sv.as_mut_ptr()));
        assert_eq!(0, sys::pipe(rp.as_mut_ptr()));
        assert_eq!(0, sys::pipe(ep.as_mut_ptr()));
        if case.cred {
            let one = 1i32;
            sys::setsockopt(sv[1], sys::SOL_SOCKET, sys::SO_PASSCRED, (&one as *const i32).cast(), 4);
        }
    }
    // ---- send through rusl
    let payload: Vec<u8> = (0..case.dlen).map(|i| (i as u8) ^ 0x5A).collect();
    let send_fds: Vec<NonNegativeI32> = files.fds[..case.n].iter().map(|&f| NonNegativeI32::try_new(f).unwrap()).collect();
    let io_out = [IoSlice::new(&payload)];
    let sent = {
        let snd = MsgHdrBorrow::create_send(None, &io_out, Some(ControlMessageSend::ScmRights(&send_fds)));
        rusl::network::sendmsg(NonNegativeI32::try_new(sv[0]).unwrap(), &snd, 0)
    };
    t.cases += 1;
    vh::eval(1);
    match sent {
        Ok(n) if n == case.dlen => {}
        other => {
            viol(
                t,
                "C16/fdpass/sendmsg/failed-or-short",
                case,
                &format!("\"result\":{}", vh::js(&format!("{other:?}"))),
            );
            unsafe {
                for f in sv.iter().chain(rp.iter()).chain(ep.iter()) {
                    sys::close(*f);
                }
            }
            return;
        }
    }
    let pid = unsafe { sys::fork() };
    if pid == 0 {
        unsafe {
            sys::close(sv[0]);
            sys::close(rp[0]);
            sys::close(ep[0]);
            sys::dup2(ep[1], 2);
        }
        child(case, sv[1], rp[1], &files.idents);
    }
    unsafe {
        sys::close(sv[1]);
        sys::close(rp[1]);
        sys::close(ep[1]);
        for f in [rp[0], ep[0]] {
            let fl = sys::fcntl(f, sys::F_GETFL, 0);
            sys::fcntl(f, sys::F_SETFL, i64::from(fl | sys::O_NONBLOCK));
        }
    }
    // ---- wait for the child: result pipe EOF, with a CPU-time based spin detector
    let mut resbuf = Vec::new();
    let mut errbuf = Vec::new();
    let (mut eof_r, mut eof_e) = (false, false);
    let t0 = std::time::Instant::now();
    let cpu0 = sys::proc_cpu(pid).map_or(0, |c| c.1);
    let mut spun = None;
    let mut wall_to = false;
    while !(eof_r && eof_e) {
        let mut p = [
            sys::PollFd {
                fd: if eof_r { -1 } else { rp[0] },
                events: sys::POLLIN,
                revents: 0,
            },
            sys::PollFd {
                fd: if eof_e { -1 } else { ep[0] },
                events: sys::POLLIN,
                revents: 0,
            },
        ];
        unsafe { sys::poll(p.as_mut_ptr(), 2, 100) };
        if !eof_r {
            eof_r = read_all_nonblock(rp[0], &mut resbuf);
        }
        if !eof_e {
            eof_e = read_all_nonblock(ep[0], &mut errbuf);
        }
        if let Some((st, cpu)) = sys::proc_cpu(pid) {
            if cpu.saturating_sub(cpu0) >= 150 && st == 'R' {
                spun = Some(cpu - cpu0);
                break;
            }
        }
        if t0.elapsed().as_secs() > 60 {
            wall_to = true;
            break;
        }
    }
    let mut status = 0i32;
    unsafe {
        if spun.is_some() || wall_to {
            sys::kill(pid, 9);
        }
        sys::waitpid(pid, &mut status, 0);
        sys::close(sv[0]);
        sys::close(rp[0]);
        sys::close(ep[0]);
    }
    let res = String::from_utf8_lossy(&resbuf).to_string();
    let err = String::from_utf8_lossy(&errbuf).to_string();
    let cell = format!("fdpass/n={}/buf={}", case.nclass(), case.bufclass());
    let cell2 = format!("fdpass-shape/fill={}/place={}/msghdr={}/passcred={}", case.fillname(), case.placename(), if case.hdr == 0 { "stack" } else { "box" }, u8::from(case.cred));
    // ---- classify
    if let Some(ticks) = spun {
        let phase = if err.contains("PHASE iterate") { 2 } else { 0 };
        if phase == 2 {
            viol(
                t,
                &format!("{PREFIX}/nontermination"),
                case,
                &format!("\"evidence\":\"child consumed {ticks} clock ticks of CPU in state R after entering the iterator over a {}-byte control buffer; no result\",\"build\":{}", case.size(), vh::js(build)),
            );
        } else {
            vh::inconclusive(&format!("fdpass child spinning outside the iterator phase: {}", case.json()));
        }
        return;
    }
    if wall_to {
        vh::inconclusive(&format!("fdpass child watchdog (no CPU use): {}", case.json()));
        return;
    }
    let exited = status & 0x7f == 0;
    let code = (status >> 8) & 0xff;
    let termsig = status & 0x7f;
    if err.contains("AddressSanitizer") {
        let head = err.lines().find(|l| l.contains("ERROR: AddressSanitizer")).unwrap_or("").to_string();
        let access = err.lines().find(|l| l.starts_with("READ of size") || l.starts_with("WRITE of size")).unwrap_or("").to_string();
        let region = err.lines().find(|l| l.contains("-byte region")).unwrap_or("").to_string();
        let frames: Vec<&str> = err.lines().filter(|l| l.trim_start().starts_with('#')).take(6).collect();
        let in_iter = err.contains("PHASE iterate");
        if in_iter && access.starts_with("READ") {
            viol(
                t,
                &format!("{PREFIX}/overread"),
                case,
                &format!(
                    "\"detector\":\"asan\",\"report\":{},\"access\":{},\"region\":{},\"frames\":{}",
                    vh::js(&head),
                    vh::js(&access),
                    vh::js(&region),
                    vh::js(&frames.join(" | "))
                ),
            );
        } else {
            viol(
                t,
                "C16/fdpass/asan-report-outside-iterator",
                case,
                &format!("\"report\":{},\"access\":{},\"stderr_tail\":{}", vh::js(&head), vh::js(&access), vh::js(&err[err.len().saturating_sub(1500)..])),
            );
        }
        return;
    }
    if let Some(class) = kv(&res, "segv") {
        let phase = kv(&res, "phase").unwrap_or_default();
        let addr = kv(&res, "addr").unwrap_or_default();
        let extra = format!("\"detector\":\"guard-page/SIGSEGV\",\"fault_addr\":\"0x{addr}\",\"phase\":{},\"build\":{}", vh::js(&phase), vh::js(build));
        if phase == "2" || phase == "3" {
            match class.as_str() {
                "G" => viol(t, &format!("{PREFIX}/overread"), case, &extra),
                "S" => viol(t, &format!("{PREFIX}/nontermination"), case, &format!("{extra},\"evidence\":\"stack overflow by unbounded recursion inside ControlMessageIterator::next\"")),
                _ => viol(t, &format!("{PREFIX}/overread"), case, &format!("{extra},\"note\":\"wild read outside buffer and guard page\"")),
            }
        } else {
            vh::inconclusive(&format!("fdpass child SIGSEGV outside iterator phase {phase}: {}", case.json()));
        }
        return;
    }
    let misaligned = err.contains("misaligned pointer dereference") || (err.contains("unsafe precondition(s) violated") && err.contains("aligned"));
    if !exited && termsig == 6 && misaligned && err.contains("PHASE iterate") {
        let line = err.lines().find(|l| l.contains("misaligned pointer dereference") || l.contains("unsafe precondition")).unwrap_or("").to_string();
        viol(
            t,
            "C16/cmsg-iter/unaligned-control-buffer/misaligned-access-abort",
            case,
            &format!("\"abort_message\":{},\"build\":{},\"note\":\"create_recv accepts any &mut [u8]; the iterator dereferences *mut CmsgHdr and builds &[Fd] at the slice's own alignment\"", vh::js(&line), vh::js(build)),
        );
        return;
    }
    let heap_corrupt = ["malloc(): ", "realloc(): ", "free(): ", "malloc assertion failure", "corrupted size", "corrupted double-linked"].iter().any(|m| err.contains(m));
    if !exited && termsig == 6 && heap_corrupt && matches!(case.place, 3 | 4) {
        // the harness never writes next to the slice; the allocator found its bookkeeping behind it overwritten
        let line = err.lines().find(|l| l.contains("alloc") || l.contains("free()") || l.contains("corrupted")).unwrap_or("").to_string();
        viol(
            t,
            "C16/recvmsg/kernel-write-outside-control-buffer",
            case,
            &format!("\"detector\":\"allocator bookkeeping directly behind the slice (slice end == allocation end) was overwritten; glibc aborted\",\"abort_message\":{},\"build\":{}", vh::js(&line), vh::js(build)),
        );
        return;
    }
    if !exited || code != 0 {
        vh::inconclusive(&format!("fdpass child ended abnormally (signal {termsig}, code {code}) {} stderr: {}", case.json(), &err[err.len().saturating_sub(300)..].replace('\n', " ")));
        return;
    }
    if let Some(e) = kv(&res, "recv_err") {
        // recvmsg itself failing on a healthy socket with a queued message
        viol(t, "C16/fdpass/recvmsg/failed", case, &format!("\"errno\":{e}"));
        return;
    }
    if kv(&res, "controllen_gt_size").is_some() {
        vh::inconclusive(&format!("kernel reported msg_controllen > supplied size: {}", case.json()));
        return;
    }
    let flags: i32 = kv(&res, "flags").and_then(|v| v.parse().ok()).unwrap_or(0);
    let delivered: usize = kv(&res, "delivered").and_then(|v| v.parse().ok()).unwrap_or(0);
    let ctrunc = flags & 8 != 0;
    t.delivered_fds += delivered as u64;
    if ctrunc {
        t.trunc += 1;
    }
    let outcome = kv(&res, "outcome").unwrap_or_default();
    let refl = kv(&res, "ref").unwrap_or_default();
    let gotl = kv(&res, "got").unwrap_or_default();
    let detail = format!(
        "\"kernel_delivered\":{},\"iterator_yielded\":{},\"msg_controllen\":{},\"msg_flags\":{},\"build\":{}",
        vh::js(&refl),
        vh::js(&gotl),
        kv(&res, "controllen").unwrap_or_default(),
        flags,
        vh::js(build)
    );
    let mut bad = false;
    if let Some(rb) = kv(&res, "range_bad") {
        bad = true;
        viol(
            t,
            "C16/recvmsg/kernel-write-outside-control-buffer",
            case,
            &format!("{detail},\"detector\":\"msg_control/msg_controllen handed to the kernel leave the supplied slice\",\"control_offset_from_slice_start:controllen\":{}", vh::js(&rb)),
        );
    }
    if let Some(cb) = kv(&res, "canary_bad") {
        bad = true;
        viol(
            t,
            "C16/recvmsg/kernel-write-outside-control-buffer",
            case,
            &format!("{detail},\"detector\":\"canary bytes next to the slice changed during recvmsg\",\"canary_index:bytes_changed:first_changed_offset_from_slice_end\":{}", vh::js(&cb)),
        );
    } else if kv(&res, "reported_past_slice").is_some() && kv(&res, "range_bad").is_none() {
        bad = true;
        viol(t, "C16/recvmsg/kernel-write-outside-control-buffer", case, &format!("{detail},\"detector\":\"msg_controllen after recvmsg reaches past the slice end\""));
    }
    // sender side / kernel delivery
    if kv(&res, "data_ok").as_deref() != Some("1") {
        bad = true;
        viol(t, "C16/fdpass/data-bytes-mismatch", case, &detail);
    }
    if kv(&res, "ident_ok").as_deref() != Some("1") {
        bad = true;
        viol(t, "C16/fdpass/delivered-descriptor-identity-mismatch", case, &detail);
    }
    if !ctrunc && delivered != case.n {
        bad = true;
        viol(t, "C16/fdpass/sent-descriptors-not-delivered", case, &detail);
    }
    // iterator
    let prefix_ok = kv(&res, "prefix_ok").as_deref() == Some("1");
    let equal = kv(&res, "equal").as_deref() == Some("1");
    match outcome.as_str() {
        "done" if equal => {}
        "panic" => {
            bad = true;
            let pm = kv(&res, "panic").unwrap_or_default();
            if kv(&res, "gprefix").as_deref() == Some("1") && pm.contains("overflow") {
                viol(t, &format!("{PREFIX}/panic"), case, &format!("{detail},\"panic\":{}", vh::js(&pm)));
            } else {
                viol(t, "C16/cmsg-iter/panic-inside-delivered-data", case, &format!("{detail},\"panic\":{}", vh::js(&pm)));
            }
        }
        "stepcap" => {
            bad = true;
            if prefix_ok {
                viol(t, &format!("{PREFIX}/nontermination"), case, &format!("{detail},\"evidence\":\"step cap reached: iterator still yielding after all kernel records\""));
            } else {
                viol(t, "C16/cmsg-iter/fd-list-mismatch", case, &detail);
            }
        }
        "slice-outside" => {
            bad = true;
            let off = kv(&res, "bad_slice_off").unwrap_or_default();
            let len = kv(&res, "bad_slice_len").unwrap_or_default();
            if prefix_ok {
                viol(t, &format!("{PREFIX}/wrong-fd-list"), case, &format!("{detail},\"yielded_slice_offset_from_buffer\":{off},\"yielded_slice_len\":{len},\"note\":\"slice lies outside control[0..msg_controllen]\""));
            } else {
                viol(t, "C16/cmsg-iter/fd-list-mismatch", case, &detail);
            }
        }
        _ => {
            bad = true;
            if prefix_ok {
                viol(t, &format!("{PREFIX}/wrong-fd-list"), case, &detail);
            } else {
                viol(t, "C16/cmsg-iter/fd-list-mismatch", case, &detail);
            }
        }
    }
    if !bad {
        t.clean += 1;
    }
    vh::distinct(&cell);
    vh::distinct(&cell2);
    vh::sample(
        &format!(
            "{{\"kind\":\"fdpass\",\"case\":{},\"delivered\":{delivered},\"ctrunc\":{ctrunc},\"outcome\":{},\"build\":{}}}",
            case.json(),
            vh::js(&outcome),
            vh::js(build)
        ),
        3,
    );
}

fn gen_case(r: &mut Rng, i: u64, place_sel: &str, asan: bool) -> Case {
    let n = match (i + r.below(3)) % 9 {
        0 => 0,
        1 => 1,
        2 => r.range(2, 3),
        3 => r.range(4, 16),
        4 => r.range(17, 200),
        5 => r.range(201, 252),
        6 => 253,
        7 => 3,
        _ => r.range(1, 8),
    } as usize;
    let a = *r.pick(&[0usize, 0, 4, 8]);
    let b = *r.pick(&[0usize, 0, 4, 8, 64]);
    let fill = if r.chance(5, 10) {
        0
    } else if r.chance(1, 2) {
        2
    } else {
        1
    };
    let place = match place_sel {
        "heap" => 0,
        "guard" => 1,
        "stack" => 2,
        _ => {
            if asan {
                *r.pick(&[0u8, 0, 2])
            } else {
                *r.pick(&[0u8, 1, 1, 2])
            }
        }
    };
    let mut c = Case {
        n,
        a,
        b,
        fill,
        place,
        hdr: r.below(2) as u8,
        cred: r.chance(1, 5),
        dlen: r.range(1, 64) as usize,
        off: 0,
        extra: 0,
    };
    if place_sel == "any" && r.chance(2, 5) {
        // sub-slices of a larger region: any start alignment, sizes not only multiples of 4
        c.place = if asan { *r.pick(&[3u8, 4, 4]) } else { *r.pick(&[3u8, 3, 4, 5, 5]) };
        c.off = r.below(8) as usize;
        c.extra = if r.chance(1, 2) { 0 } else { r.below(8) as usize };
    }
    if c.place == 2 && c.size() > 2048 {
        c.place = 0;
    }
    c
}

fn main() {
    let a = vh::args();
    let build = format!(
        "{}{}",
        if cfg!(debug_assertions) { "debug" } else { "release" },
        if std::env::var("C16_ASAN").is_ok() { "+asan" } else { "" }
    );
    let asan = std::env::var("C16_ASAN").is_ok();
    let mut place_sel = "any".to_string();
    let mut only: Option<Case> = None;
    for x in &a.rest {
        if let Some(v) = x.strip_prefix("place=") {
            place_sel = v.to_string();
        }
        if let Some(v) = x.strip_prefix("only=") {
            let p: Vec<usize> = v.split(':').map(|s| s.parse().unwrap()).collect();
            only = Some(Case {
                n: p[0],
                a: p[1],
                b: p[2],
                fill: p[3] as u8,
                place: p[4] as u8,
                hdr: p[5] as u8,
                cred: p[6] != 0,
                dlen: 5,
                off: p.get(7).copied().unwrap_or(0),
                extra: p.get(8).copied().unwrap_or(0),
            });
        }
    }
    let files = open_files(a.seed);
    let mut t = Tot {
        cases: 0,
        clean: 0,
        delivered_fds: 0,
        trunc: 0,
        viols: 0,
        by_symptom: Default::default(),
    };
    let mut r = Rng::new(a.seed);
    if let Some(c) = only {
        run_case(&c, &files, &mut t, &build);
    } else {
        for i in 0..a.budget {
            let c = gen_case(&mut r, i, &place_sel, asan);
            run_case(&c, &files, &mut t, &build);
        }
    }
    vh::count("fdpass_cases", t.cases);
    vh::count("fdpass_cases_clean", t.clean);
    vh::count("fdpass_descriptors_delivered", t.delivered_fds);
    vh::count("fdpass_ctrunc_cases", t.trunc);
    vh::count("fdpass_violating_observations", t.viols);
    for (k, v) in &t.by_symptom {
        vh::count(&format!("fdpass_symptom_{k}"), *v);
    }
    let _ = std::fs::remove_dir_all(&files.dir);
}
