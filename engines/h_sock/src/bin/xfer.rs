//! C16 streams: xfer stream <seed> <ncases> [mode=threads|procs] [transport=unix|tcp|any] [maxlen=N]
//!              xfer timeouts <seed> <reps> | xfer tries <seed> <reps> | xfer edge <seed> 1 | xfer intr <seed> <reps> [inject] | xfer trunc <seed> <reps>
#[cfg(not(miri))]
fn main() {
    use h_sock::{mon, stream, timed};
    let a = vh::args();
    let base = std::env::var("C16_TMP").unwrap_or_else(|_| "/tmp".into());
    let dir = format!("{base}/c16-x{}-{}", std::process::id(), a.seed % 100_000);
    let _ = std::fs::remove_dir_all(&dir);
    std::fs::create_dir_all(&dir).unwrap();
    match a.mode.as_str() {
        "stream" => {
            let mut procs = false;
            let mut transport = "any".to_string();
            let mut maxlen = 8usize << 20;
            let mut retry_profile = false;
            let mut only: Option<u64> = None;
            for x in &a.rest {
                if let Some(v) = x.strip_prefix("mode=") {
                    procs = v == "procs";
                }
                if let Some(v) = x.strip_prefix("transport=") {
                    transport = v.to_string();
                }
                if let Some(v) = x.strip_prefix("only=") {
                    only = v.parse().ok();
                }
                if x == "profile=retry" {
                    retry_profile = true;
                }
                if let Some(v) = x.strip_prefix("maxlen=") {
                    maxlen = v.parse().unwrap();
                }
            }
            mon::spawn_monitor(4000);
            let mut r = vh::Rng::new(a.seed);
            let mut t = stream::Totals::default();
            for i in 0..a.budget {
                let mut p = stream::gen_plan(&mut r, i, maxlen, procs, &transport);
                p.shard = a.seed;
                if only.is_some_and(|o| o != i) {
                    if retry_profile {
                        r.below(3 << 20);
                    }
                    continue;
                }
                if retry_profile {
                    // few system calls, both buffers driven to their limits: for traced runs
                    p.len = (1usize << 20) + (r.below(3 << 20) as usize);
                    p.len = p.len.min(maxlen);
                    p.wchunk = if i % 2 == 0 { 4 } else { 3 };
                    p.rchunk = if i % 2 == 0 { 3 } else { 4 };
                    p.think = if i % 2 == 0 { 1 } else { 2 };
                    p.order = 1 + (i % 2) as u8;
                    p.close = 0;
                    p.rapi = (i % 3) as u8;
                }
                if procs {
                    stream::run_procs(&p, &dir, &mut t);
                } else {
                    stream::run_threads(&p, &dir, &mut t);
                }
            }
            stream::report(&t);
        }
        "intr" => h_sock::intr::run_intr(a.seed, a.budget, &dir, a.rest.iter().any(|x| x == "inject")),
        "origins" => h_sock::origins::run_origins(a.seed, a.budget, &dir),
        "timeouts" => timed::run_timeouts(a.seed, a.budget, &dir),
        "tries" => timed::run_tries(a.seed, a.budget, &dir),
        "edge" => timed::run_edge(&dir),
        "trunc" => h_sock::trunc::run_trunc(a.seed, a.budget, &dir),
        m => {
            eprintln!("unknown mode {m}");
            std::process::exit(2);
        }
    }
    let _ = std::fs::remove_dir_all(&dir);
}
#[cfg(miri)]
fn main() {}
