//! Peer closes mid-message: an independent (libc) peer delivers k of the n bytes a reader asked
//! `read_exact` for (k seeded in 0..=n, 1..3 chunks), then closes or shuts its sending side down.
//! Oracle (bytes intact): Ok(()) only if all n bytes arrived and equal what was sent; with k < n
//! the call has to fail. `read_to_end` after a partial message + close returns exactly the k bytes.
use crate::{pat, sys};
use std::time::Duration;
use tiny_std::io::Read;
use tiny_std::net::{Ip, SocketAddress, TcpStream, UnixStream};
use tiny_std::UnixStr;

const SENTINEL: u8 = 0xA5;

enum S {
    U(UnixStream),
    T(TcpStream),
}

fn pair(tcp: bool, dir: &str, id: u64) -> Option<(S, i32, i32)> {
    unsafe {
        if tcp {
            let (lfd, port) = sys::tcp_listener(4);
            let s = TcpStream::connect(&SocketAddress::new(Ip::V4([127, 0, 0, 1]), port)).ok();
            let peer = if s.is_some() { sys::accept(lfd, std::ptr::null_mut(), std::ptr::null_mut()) } else { -1 };
            if peer < 0 {
                sys::close(lfd);
                return None;
            }
            Some((S::T(s?), peer, lfd))
        } else {
            let path = format!("{dir}/tr{id}.sock");
            let _ = std::fs::remove_file(&path);
            let lfd = sys::unix_listener(&path, 4);
            let p0 = format!("{path}\0");
            let s = UnixStream::connect(UnixStr::try_from_str(&p0).ok()?).ok();
            let peer = if s.is_some() { sys::accept(lfd, std::ptr::null_mut(), std::ptr::null_mut()) } else { -1 };
            let _ = std::fs::remove_file(&path);
            if peer < 0 {
                sys::close(lfd);
                return None;
            }
            Some((S::U(s?), peer, lfd))
        }
    }
}

pub fn run_trunc(seed: u64, reps: u64, dir: &str) {
    let mut r = vh::Rng::new(seed ^ 0x7472_756e);
    let mut done = 0u64;
    for id in 0..reps {
        let tcp = id % 2 == 1;
        let tn = if tcp { "tcp" } else { "unix" };
        let api = (id / 2) % 3; // 0,1 read_exact   2 read_to_end
        let n = match r.below(4) {
            0 => r.range(1, 16),
            1 => r.range(17, 600),
            2 => r.range(601, 9000),
            _ => r.range(9001, 40_000),
        } as usize;
        let k = match r.below(5) {
            0 => n, // positive control
            1 => 0,
            2 => n - 1,
            3 => (n / 2).max(1).min(n - 1),
            _ => r.below(n as u64) as usize,
        }
        .min(n);
        let chunks = r.range(1, 3) as usize;
        let shut = r.chance(1, 2);
        let pseed = r.next();
        let gap_us = *r.pick(&[0u64, 0, 200, 1500]);
        let Some((mut s, peer, lfd)) = pair(tcp, dir, id) else {
            vh::inconclusive(&format!("trunc: {tn} pair could not be set up (case {id})"));
            continue;
        };
        let mut sent = vec![0u8; k];
        pat::fill(pseed, 0, &mut sent);
        let data = sent.clone();
        let h = std::thread::spawn(move || {
            // cut points
            let mut off = 0usize;
            let mut ok = true;
            for c in 0..chunks {
                let end = if c + 1 == chunks { data.len() } else { (data.len() * (c + 1) / chunks).max(off) };
                while off < end {
                    let w = unsafe { sys::write(peer, data[off..].as_ptr(), end - off) };
                    if w <= 0 {
                        if w < 0 && sys::errno() == 4 {
                            continue;
                        }
                        ok = false;
                        break;
                    }
                    off += w as usize;
                }
                if gap_us > 0 {
                    std::thread::sleep(Duration::from_micros(gap_us));
                }
            }
            unsafe {
                if shut {
                    sys::shutdown(peer, 1);
                } else {
                    sys::close(peer);
                }
            }
            ok
        });
        let case = format!(
            "\"replay\":\"trunc:{seed}:{reps}\",\"id\":{id},\"transport\":\"{tn}\",\"n\":{n},\"k_sent_before_close\":{k},\"chunks\":{chunks},\"peer_end\":\"{}\",\"gap_us\":{gap_us}",
            if shut { "shutdown(SHUT_WR)" } else { "close" }
        );
        if api < 2 {
            let mut buf = vec![SENTINEL; n];
            let res = match &mut s {
                S::U(u) => u.read_exact(&mut buf),
                S::T(t) => t.read_exact(&mut buf),
            };
            let wrote = h.join().unwrap_or(false);
            if !wrote {
                vh::inconclusive(&format!("trunc: peer could not write its {k} bytes (case {id})"));
            } else {
                vh::eval(1);
                done += 1;
                match res {
                    Ok(()) if k < n => {
                        let untouched = buf[k..].iter().filter(|&&b| b == SENTINEL).count();
                        vh::viol(
                            &format!("C16/{tn}/read_exact/ok-on-truncated-stream"),
                            &format!("{{{case},\"result\":\"Ok(())\",\"tail_bytes_still_sentinel\":{untouched},\"tail_len\":{}}}", n - k),
                        );
                    }
                    Ok(()) => {
                        if buf != sent {
                            let at = buf.iter().zip(sent.iter()).position(|(a, b)| a != b).unwrap_or(0);
                            vh::viol(&format!("C16/{tn}/read_exact/wrong-data"), &format!("{{{case},\"first_mismatch\":{at}}}"));
                        } else {
                            vh::distinct(&format!("trunc/{tn}/read_exact/full-message-then-close"));
                        }
                    }
                    Err(e) if k == n => {
                        vh::viol(&format!("C16/{tn}/read_exact/err-on-complete-message"), &format!("{{{case},\"result\":{}}}", vh::js(&format!("{e:?}"))));
                    }
                    Err(_) => {
                        // the delivered prefix, as far as it was stored, must be the bytes sent
                        if buf[..k] != sent[..] && buf[..k].iter().any(|&b| b != SENTINEL) {
                            let at = buf.iter().zip(sent.iter()).position(|(a, b)| a != b).unwrap_or(0);
                            vh::viol(&format!("C16/{tn}/read_exact/wrong-data"), &format!("{{{case},\"first_mismatch\":{at},\"result\":\"Err\"}}"));
                        } else {
                            vh::distinct(&format!("trunc/{tn}/read_exact/err-on-{}", if k == 0 { "empty-stream" } else { "partial-message" }));
                        }
                    }
                }
            }
        } else {
            let mut v: Vec<u8> = Vec::new();
            let res = match &mut s {
                S::U(u) => u.read_to_end(&mut v),
                S::T(t) => t.read_to_end(&mut v),
            };
            let wrote = h.join().unwrap_or(false);
            if !wrote {
                vh::inconclusive(&format!("trunc: peer could not write its {k} bytes (case {id})"));
            } else {
                vh::eval(1);
                done += 1;
                match res {
                    Ok(m) if m == k && v == sent => vh::distinct(&format!("trunc/{tn}/read_to_end/partial-message-then-close")),
                    Ok(m) => {
                        let at = v.iter().zip(sent.iter()).position(|(a, b)| a != b);
                        vh::viol(
                            &format!("C16/{tn}/read_to_end/{}", if v.len() != k || m != k { "wrong-length" } else { "wrong-data" }),
                            &format!("{{{case},\"returned\":{m},\"vec_len\":{},\"first_mismatch\":{}}}", v.len(), at.map_or(-1, |x| x as i64)),
                        );
                    }
                    Err(e) => vh::viol(&format!("C16/{tn}/read_to_end/err-on-orderly-close"), &format!("{{{case},\"result\":{}}}", vh::js(&format!("{e:?}")))),
                }
            }
        }
        drop(s);
        unsafe {
            if shut {
                sys::close(peer);
            }
            sys::close(lfd);
        }
    }
    vh::count("peer_closes_mid_message_cases", done);
}
