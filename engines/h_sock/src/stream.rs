//! Stream integrity: payload with position-dependent bytes through tiny-std Unix/TCP streams,
//! seeded chunking / think times / connect-accept-close orders; receiver-side oracle.
use crate::mon::{self, errno_of, tracked};
use crate::{pat, sys};
use std::sync::atomic::Ordering::Relaxed;
use std::time::Duration;
use tiny_std::io::{Read, Write};
use tiny_std::net::{Ip, SocketAddress, TcpListener, TcpStream, TcpTryConnect, UnixListener, UnixStream};
use tiny_std::unix::fd::AsRawFd;
use tiny_std::UnixStr;
use vh::Rng;

pub enum Stream {
    U(UnixStream),
    T(TcpStream),
}
impl Stream {
    pub fn fd(&self) -> i32 {
        match self {
            Stream::U(s) => s.as_raw_fd().value(),
            Stream::T(s) => s.as_raw_fd().value(),
        }
    }
    pub fn tr(&self) -> i32 {
        match self {
            Stream::U(_) => 0,
            Stream::T(_) => 1,
        }
    }
    fn read(&mut self, b: &mut [u8]) -> tiny_std::Result<usize> {
        match self {
            Stream::U(s) => s.read(b),
            Stream::T(s) => s.read(b),
        }
    }
    fn read_exact(&mut self, b: &mut [u8]) -> tiny_std::Result<()> {
        match self {
            Stream::U(s) => s.read_exact(b),
            Stream::T(s) => s.read_exact(b),
        }
    }
    fn read_to_end(&mut self, v: &mut Vec<u8>) -> tiny_std::Result<usize> {
        match self {
            Stream::U(s) => s.read_to_end(v),
            Stream::T(s) => s.read_to_end(v),
        }
    }
    fn write(&mut self, b: &[u8]) -> tiny_std::Result<usize> {
        match self {
            Stream::U(s) => s.write(b),
            Stream::T(s) => s.write(b),
        }
    }
    fn write_all(&mut self, b: &[u8]) -> tiny_std::Result<()> {
        match self {
            Stream::U(s) => s.write_all(b),
            Stream::T(s) => s.write_all(b),
        }
    }
}

pub enum Listener {
    U(UnixListener),
    T(TcpListener),
}

#[derive(Clone, Debug)]
pub struct Plan {
    pub shard: u64,
    pub id: u64,
    pub pseed: u64,
    pub tcp: bool,
    pub len: usize,
    pub c2s: bool,
    pub wchunk: u8,
    pub rchunk: u8,
    pub think: u8, // 0 none 1 reader-slow (send buffer fills) 2 writer-slow (receive side empties) 3 jitter both
    pub wapi: u8,  // 0 write 1 write_all
    pub rapi: u8,  // 0 read 1 read_exact 2 read_to_end
    pub order: u8,
    pub close: u8, // 0 writer closes at end, reader to EOF; 1 reader stops at len, writer holds open; 2 reader closes early
    pub procs: bool,
}

pub const CHUNKS: [&str; 7] = ["1", "tiny", "small", "page", "large", "whole", "mixed"];
pub const ORDERS: [&str; 7] = ["connect-then-accept", "accept-parked-then-connect", "accept_with_timeout-then-connect", "try-variants", "connect-before-listen", "write-close-before-accept", "listener-dropped-before-transfer"];
pub const THINKS: [&str; 4] = ["none", "reader-slow", "writer-slow", "jitter"];
pub const CLOSES: [&str; 3] = ["writer-closes-reader-to-eof", "reader-stops-at-len", "reader-closes-early"];

impl Plan {
    pub fn len_class(&self) -> &'static str {
        match self.len {
            0 => "0",
            1 => "1",
            2..=4095 => "lt4K",
            4096..=65535 => "4K-64K",
            65536..=1_048_575 => "64K-1M",
            _ => "1M-8M",
        }
    }
    pub fn json(&self) -> String {
        format!(
            "{{\"replay\":\"stream:{}:{}:{}\",\"id\":{},\"pattern_seed\":{},\"transport\":\"{}\",\"len\":{},\"direction\":\"{}\",\"writer_chunks\":\"{}\",\"reader_chunks\":\"{}\",\"think\":\"{}\",\"writer_api\":\"{}\",\"reader_api\":\"{}\",\"order\":\"{}\",\"close\":\"{}\",\"two_processes\":{}}}",
            self.shard,
            self.id,
            if self.procs { "procs" } else { "threads" },
            self.id,
            self.pseed,
            if self.tcp { "tcp" } else { "unix" },
            self.len,
            if self.c2s { "client->server" } else { "server->client" },
            CHUNKS[self.wchunk as usize],
            CHUNKS[self.rchunk as usize],
            THINKS[self.think as usize],
            ["write", "write_all"][self.wapi as usize],
            ["read", "read_exact", "read_to_end"][self.rapi as usize],
            ORDERS[self.order as usize],
            CLOSES[self.close as usize],
            self.procs
        )
    }
    pub fn tname(&self) -> &'static str {
        if self.tcp {
            "tcp"
        } else {
            "unix"
        }
    }
}

pub fn gen_plan(r: &mut Rng, id: u64, maxlen: usize, procs: bool, transport: &str) -> Plan {
    let tcp = match transport {
        "unix" => false,
        "tcp" => true,
        _ => (id + r.below(2)) % 2 == 0,
    };
    let len = match (id / 2 + r.below(2)) % 8 {
        0 => 0,
        1 => 1,
        2 => r.range(2, 4095),
        3 => r.range(4096, 65535),
        4 | 5 => r.range(65536, 1_048_575),
        6 => r.range(1_048_576, 3 << 20),
        _ => r.range(3 << 20, 8 << 20),
    } as usize;
    let len = len.min(maxlen);
    let mut p = Plan {
        shard: 0,
        id,
        pseed: r.next(),
        tcp,
        len,
        c2s: r.chance(1, 2),
        wchunk: r.below(7) as u8,
        rchunk: r.below(7) as u8,
        think: r.below(4) as u8,
        wapi: r.below(2) as u8,
        rapi: r.below(3) as u8,
        order: r.below(7) as u8,
        close: *r.pick(&[0u8, 0, 0, 1, 1, 2]),
        procs,
    };
    // keep op counts bounded: byte-sized chunks only for small payloads
    let bound = |c: u8, len: usize| -> u8 {
        if c == 0 && len > 20_000 {
            1
        } else if c == 1 && len > 2_000_000 {
            2
        } else {
            c
        }
    };
    p.wchunk = bound(p.wchunk, len);
    p.rchunk = bound(p.rchunk, len);
    if p.rapi == 2 && p.close != 0 {
        p.rapi = 0; // read_to_end needs EOF
    }
    if p.close == 2 {
        p.rapi = 0;
    }
    if p.order == 5 {
        p.c2s = true;
        // everything must fit into the socket buffers of a not yet accepted connection,
        // whatever the per-skb overhead: few, large writes
        p.len = p.len.min(32 * 1024);
        p.wchunk = if p.wchunk % 2 == 0 { 3 } else { 5 };
        p.close = 0;
        p.think = 0;
    }
    if procs {
        // establishing orders that need both ends in one process are not available
        p.order = *r.pick(&[0u8, 1, 2, 6]);
    }
    p
}

fn next_chunk(class: u8, r: &mut Rng, remaining_hint: usize) -> usize {
    let c = if class == 6 { r.below(6) as u8 } else { class };
    match c {
        0 => 1,
        1 => r.range(1, 64) as usize,
        2 => r.range(65, 4096) as usize,
        3 => 4096,
        4 => r.range(65536, 1 << 20) as usize,
        _ => remaining_hint.max(1),
    }
}

pub struct Stats {
    pub ops: u64,
    pub partial: u64,
    pub not_ready: u64,
    pub bytes: u64,
    pub errno: i32,
    pub ok: bool,
}

fn ustr(path: &str) -> String {
    format!("{path}\0")
}

fn viol(sig: &str, p: &Plan, extra: &str) {
    vh::viol(sig, &format!("{{\"case\":{},{extra}}}", p.json()));
}

/// the sending role
pub fn writer(mut s: Stream, p: &Plan, rs: u64) -> Stats {
    let slot = mon::claim();
    let mut r = Rng::new(rs ^ 0x77);
    let mut st = Stats {
        ops: 0,
        partial: 0,
        not_ready: 0,
        bytes: 0,
        errno: 0,
        ok: true,
    };
    let (fd, tr) = (s.fd(), s.tr());
    let mut buf: Vec<u8> = Vec::new();
    let mut off = 0usize;
    let mut sleeps = 0u32;
    if p.think == 2 && p.len > 0 {
        std::thread::sleep(Duration::from_millis(20)); // reader arrives first and finds nothing
    }
    while off < p.len {
        let c = next_chunk(p.wchunk, &mut r, p.len - off).min(p.len - off);
        buf.resize(c, 0);
        pat::fill(p.pseed, off as u64, &mut buf);
        if (p.think == 2 || p.think == 3) && sleeps < 150 && r.chance(1, 6) {
            sleeps += 1;
            std::thread::sleep(Duration::from_micros(r.range(50, 900)));
        }
        if sys::poll_now(fd, sys::POLLOUT) & sys::POLLOUT == 0 {
            st.not_ready += 1;
        }
        st.ops += 1;
        let res = if p.wapi == 0 {
            tracked(slot, 1, tr, fd, sys::POLLOUT, || s.write(&buf))
        } else {
            tracked(slot, 1, tr, fd, sys::POLLOUT, || s.write_all(&buf).map(|()| c))
        };
        match res {
            Ok(n) => {
                if n > c || (n == 0 && c > 0) {
                    st.ok = false;
                    viol(&format!("C16/{}/write/impossible-count", p.tname()), p, &format!("\"asked\":{c},\"returned\":{n},\"offset\":{off}"));
                    break;
                }
                if n < c {
                    st.partial += 1;
                }
                off += n;
                mon::WRITTEN.store(off as u64, Relaxed);
            }
            Err(e) => {
                st.errno = errno_of(&e);
                st.ok = false;
                break;
            }
        }
    }
    st.bytes = off as u64;
    if st.errno == 0 && st.ok {
        mon::WRITER_DONE.store(true, Relaxed);
    }
    if p.close == 1 && st.ok {
        // hold the connection open until the reader has everything (or gives up)
        mon::WRITER_HOLDS_OPEN.store(true, Relaxed);
        if p.procs {
            // the reader is another process: wait for it to close its end
            sys::poll_wait(fd, sys::POLLIN, 60_000);
        } else {
            let t0 = std::time::Instant::now();
            while mon::READ.load(Relaxed) < p.len as u64 && !READER_GONE.load(Relaxed) && t0.elapsed().as_secs() < 120 {
                std::thread::sleep(Duration::from_micros(200));
            }
        }
    }
    drop(s);
    mon::release(slot);
    st
}

pub static READER_GONE: std::sync::atomic::AtomicBool = std::sync::atomic::AtomicBool::new(false);

fn check_bytes(p: &Plan, pos: usize, got: &[u8], scratch: &mut Vec<u8>) -> bool {
    if let Some(i) = pat::first_mismatch(p.pseed, pos as u64, got, scratch) {
        let at = pos + i;
        let window = &got[i..got.len().min(i + 16)];
        let whence = pat::locate(p.pseed, (p.len as u64).max(at as u64 + 64), window);
        let kind = match whence {
            Some(j) if (j as usize) < at => "duplicate-or-replayed-bytes",
            Some(_) => "gap-lost-bytes",
            None => "corrupt-bytes",
        };
        viol(
            &format!("C16/{}/stream/{kind}", p.tname()),
            p,
            &format!(
                "\"stream_offset\":{at},\"expected_byte\":{},\"got_byte\":{},\"received_window_is_stream_offset\":{}",
                pat::byte(p.pseed, at as u64),
                got[i],
                whence.map_or("null".to_string(), |j| j.to_string())
            ),
        );
        return false;
    }
    true
}

/// the receiving role; returns stats, `bytes` = verified bytes received
pub fn reader(mut s: Stream, p: &Plan, rs: u64) -> Stats {
    let slot = mon::claim();
    let mut r = Rng::new(rs ^ 0x1234);
    let mut st = Stats {
        ops: 0,
        partial: 0,
        not_ready: 0,
        bytes: 0,
        errno: 0,
        ok: true,
    };
    let (fd, tr) = (s.fd(), s.tr());
    let mut buf: Vec<u8> = Vec::new();
    let mut scratch: Vec<u8> = Vec::new();
    let mut pos = 0usize;
    let mut sleeps = 0u32;
    let early_at = if p.close == 2 { r.range(0, p.len as u64) as usize } else { usize::MAX };
    if p.think == 1 && p.len > 0 {
        std::thread::sleep(Duration::from_millis(25)); // let the writer run into a full buffer
    }
    let mut eof = false;
    loop {
        if p.close == 1 && pos >= p.len {
            break;
        }
        if pos >= early_at {
            break;
        }
        if (p.think == 1 || p.think == 3) && sleeps < 150 && r.chance(1, 6) {
            sleeps += 1;
            std::thread::sleep(Duration::from_micros(r.range(50, 900)));
        }
        let c = next_chunk(p.rchunk, &mut r, p.len.saturating_sub(pos).max(1)).min(2 << 20);
        if sys::poll_now(fd, sys::POLLIN) == 0 {
            st.not_ready += 1;
        }
        st.ops += 1;
        match p.rapi {
            2 => {
                let mut v = Vec::new();
                match tracked(slot, 0, tr, fd, sys::POLLIN, || s.read_to_end(&mut v)) {
                    Ok(n) => {
                        if n != v.len() {
                            st.ok = false;
                            viol(&format!("C16/{}/read_to_end/count-differs-from-appended", p.tname()), p, &format!("\"returned\":{n},\"appended\":{}", v.len()));
                        }
                        if !check_bytes(p, 0, &v[..v.len().min(p.len + 64)], &mut scratch) {
                            st.ok = false;
                        }
                        pos = v.len();
                        eof = true;
                    }
                    Err(e) => {
                        st.errno = errno_of(&e);
                        st.ok = false;
                    }
                }
                break;
            }
            1 => {
                let want = c.min(p.len - pos.min(p.len));
                if want == 0 {
                    // everything is here; one plain read to see EOF
                    buf.resize(16, 0);
                    match tracked(slot, 0, tr, fd, sys::POLLIN, || s.read(&mut buf)) {
                        Ok(0) => eof = true,
                        Ok(n) => {
                            pos += n; // extra bytes: judged below
                        }
                        Err(e) => {
                            st.errno = errno_of(&e);
                            st.ok = false;
                        }
                    }
                    break;
                }
                buf.resize(want, 0);
                match tracked(slot, 0, tr, fd, sys::POLLIN, || s.read_exact(&mut buf)) {
                    Ok(()) => {
                        if !check_bytes(p, pos, &buf, &mut scratch) {
                            st.ok = false;
                            break;
                        }
                        pos += want;
                        mon::READ.store(pos as u64, Relaxed);
                    }
                    Err(e) => {
                        // "Failed to fill whole buffer" = EOF inside the chunk
                        st.errno = errno_of(&e);
                        if st.errno == -2 {
                            eof = true;
                            st.errno = 0;
                        } else {
                            st.ok = false;
                        }
                        break;
                    }
                }
            }
            _ => {
                buf.resize(c, 0);
                match tracked(slot, 0, tr, fd, sys::POLLIN, || s.read(&mut buf)) {
                    Ok(0) => {
                        eof = true;
                        break;
                    }
                    Ok(n) => {
                        if n > c {
                            st.ok = false;
                            viol(&format!("C16/{}/read/impossible-count", p.tname()), p, &format!("\"asked\":{c},\"returned\":{n}"));
                            break;
                        }
                        if n < c {
                            st.partial += 1;
                        }
                        if !check_bytes(p, pos, &buf[..n], &mut scratch) {
                            st.ok = false;
                            break;
                        }
                        pos += n;
                        mon::READ.store(pos as u64, Relaxed);
                    }
                    Err(e) => {
                        st.errno = errno_of(&e);
                        st.ok = false;
                        break;
                    }
                }
            }
        }
    }
    mon::READ.store(pos as u64, Relaxed);
    st.bytes = pos as u64;
    READER_GONE.store(true, Relaxed);
    drop(s);
    mon::release(slot);
    if eof {
        st.errno = if st.errno == 0 { -100 } else { st.errno }; // -100 = clean EOF seen
    }
    st
}

fn addr(port: u16) -> SocketAddress {
    SocketAddress::new(Ip::V4([127, 0, 0, 1]), port)
}

pub fn listener_fd(l: &Listener, want_path: &str, want_port: u16) -> Option<i32> {
    let fd = match l {
        Listener::U(x) => sys::peek_fd(x)?,
        Listener::T(x) => sys::peek_fd(x)?,
    };
    if !sys::is_listening(fd) {
        return None;
    }
    match l {
        Listener::U(_) => (sys::local_unix_path(fd)? == want_path).then_some(fd),
        Listener::T(_) => (sys::local_port(fd)? == want_port).then_some(fd),
    }
}

fn wait_parked(tid: i32) -> bool {
    let pid = unsafe { sys::getpid() };
    for _ in 0..300 {
        if sys::task_syscall(pid, tid).is_some_and(|s| s.starts_with("271 ")) {
            return true;
        }
        std::thread::sleep(Duration::from_millis(1));
    }
    false
}

pub struct Estab {
    pub client: Stream,
    pub server: Stream,
    pub accept_parked: bool,
}

/// bind a tiny-std listener; returns (listener, path, port)
pub fn bind(p: &Plan, dir: &str) -> Result<(Listener, String, u16), String> {
    if p.tcp {
        let l = TcpListener::bind(&addr(0)).map_err(|e| format!("tcp bind: {e}"))?;
        let a = l.local_addr().map_err(|e| format!("local_addr: {e}"))?;
        // SocketAddress has no accessors: recover the port independently through the descriptor
        let fd = sys::peek_fd(&l).ok_or("no fd")?;
        let port = sys::local_port(fd).ok_or("getsockname")?;
        let _ = a;
        Ok((Listener::T(l), String::new(), port))
    } else {
        let path = format!("{dir}/s{}", p.id);
        let _ = std::fs::remove_file(&path);
        let u = ustr(&path);
        let l = UnixListener::bind(UnixStr::try_from_str(&u).map_err(|e| format!("{e}"))?).map_err(|e| format!("unix bind: {e}"))?;
        Ok((Listener::U(l), path, 0))
    }
}

pub fn connect(p: &Plan, path: &str, port: u16, l: Option<&TcpListener>) -> tiny_std::Result<Stream> {
    if p.tcp {
        // the address the library itself reports for its listener, when we have the listener
        let a = match l {
            Some(l) => l.local_addr()?,
            None => addr(port),
        };
        Ok(Stream::T(TcpStream::connect(&a)?))
    } else {
        let u = ustr(path);
        Ok(Stream::U(UnixStream::connect(UnixStr::try_from_str(&u).unwrap())?))
    }
}

fn accept_tracked(l: &mut Listener, lfd: i32, timeout: Option<Duration>) -> tiny_std::Result<Stream> {
    let slot = mon::claim();
    let r = match l {
        Listener::U(x) => tracked(slot, if timeout.is_some() { 5 } else { 2 }, 0, lfd, sys::POLLIN, || match timeout {
            Some(t) => x.accept_with_timeout(t),
            None => x.accept(),
        })
        .map(Stream::U),
        Listener::T(x) => tracked(slot, if timeout.is_some() { 5 } else { 2 }, 1, lfd, sys::POLLIN, || match timeout {
            Some(t) => x.accept_with_timeout(t),
            None => x.accept(),
        })
        .map(Stream::T),
    };
    mon::release(slot);
    r
}

/// establish a connection in the order the plan asks for (both ends in this process)
pub fn establish(p: &Plan, dir: &str) -> Result<(Estab, Option<Listener>), String> {
    let t = p.tname();
    if p.order == 4 {
        // connect before anything listens: must fail, must not hang
        let r = if p.tcp {
            // a port that was just released
            let (lfd, port) = sys::tcp_listener(1);
            unsafe { sys::close(lfd) };
            TcpStream::connect(&addr(port)).map(|_| ())
        } else {
            let u = ustr(&format!("{dir}/nobody{}", p.id));
            UnixStream::connect(UnixStr::try_from_str(&u).unwrap()).map(|_| ())
        };
        match r {
            Ok(()) => viol(&format!("C16/{t}/connect/succeeded-without-listener"), p, "\"note\":\"connect to an address nobody listens on returned Ok\""),
            Err(e) => {
                vh::count(&format!("connect_before_listen_errno_{}", errno_of(&e)), 1);
            }
        }
    }
    let (mut l, path, port) = bind(p, dir)?;
    let lfd = listener_fd(&l, &path, port).ok_or("listener descriptor could not be validated")?;
    let mut parked = false;
    let do_connect = |l: &Listener| -> Result<Stream, String> {
        let lref = match l {
            Listener::T(x) => Some(x),
            Listener::U(_) => None,
        };
        match connect(p, &path, port, lref) {
            Ok(s) => Ok(s),
            Err(e) => {
                let en = errno_of(&e);
                // independent confirmation that the listener is reachable
                let probe = if p.tcp { sys::tcp_connect(port, false) } else { sys::unix_connect(&path, false) };
                if probe >= 0 {
                    unsafe { sys::close(probe) };
                    viol(
                        &format!("C16/{t}/connect/failed-although-listener-reachable"),
                        p,
                        &format!("\"errno\":{en},\"port\":{port},\"note\":\"a libc connect to the same listener succeeded right after\""),
                    );
                }
                Err(format!("connect failed errno {en}"))
            }
        }
    };
    let (client, server) = match p.order {
        1 | 2 => {
            let timeout = if p.order == 2 { Some(Duration::from_secs(20)) } else { None };
            let (tx, rx) = std::sync::mpsc::channel();
            let h = std::thread::spawn(move || {
                let _ = tx.send(sys::gettid());
                let r = accept_tracked(&mut l, lfd, timeout);
                (r, l)
            });
            let tid = rx.recv().map_err(|e| e.to_string())?;
            parked = wait_parked(tid);
            // connect through a second handle on the same listener object is not possible: use port/path
            let c = match connect(p, &path, port, None) {
                Ok(c) => c,
                Err(e) => return Err(format!("connect failed errno {}", errno_of(&e))),
            };
            let (r, l2) = h.join().map_err(|_| "accept thread panicked")?;
            l = l2;
            match r {
                Ok(s) => (c, s),
                Err(e) => {
                    let en = errno_of(&e);
                    if en == 11 {
                        viol(&format!("C16/{t}/accept/returned-wouldblock"), p, "\"errno\":11");
                    }
                    return Err(format!("accept failed errno {en}"));
                }
            }
        }
        3 => {
            // try-variants, functionally: nothing pending -> None; pending (harness poll says so) -> Some
            let none0 = match &mut l {
                Listener::U(x) => x.try_accept().map(|o| o.is_none()),
                Listener::T(x) => x.try_accept().map(|o| o.is_none()),
            };
            match none0 {
                Ok(true) => vh::count("try_accept_none_when_nothing_pending", 1),
                Ok(false) => viol(&format!("C16/{t}/try_accept/some-without-any-connect"), p, "\"note\":\"fresh listener\""),
                Err(e) => return Err(format!("try_accept errno {}", errno_of(&e))),
            }
            let c = if p.tcp {
                match TcpStream::try_connect(&addr(port)) {
                    Ok(TcpTryConnect::Connected(s)) => {
                        vh::count("tcp_try_connect_connected_immediately", 1);
                        Stream::T(s)
                    }
                    Ok(TcpTryConnect::InProgress(ip)) => {
                        vh::count("tcp_try_connect_in_progress", 1);
                        if p.id % 2 == 0 {
                            Stream::T(ip.connect_blocking().map_err(|e| format!("connect_blocking errno {}", errno_of(&e)))?)
                        } else {
                            let mut ip = ip;
                            let mut spins = 0u32;
                            loop {
                                match ip.try_connect() {
                                    Ok(TcpTryConnect::Connected(s)) => break Stream::T(s),
                                    Ok(TcpTryConnect::InProgress(n)) => {
                                        ip = n;
                                        spins += 1;
                                        if spins > 200_000 {
                                            return Err("tcp in-progress connect never completed".into());
                                        }
                                    }
                                    Err(e) => return Err(format!("in-progress try_connect errno {}", errno_of(&e))),
                                }
                            }
                        }
                    }
                    Err(e) => return Err(format!("tcp try_connect errno {}", errno_of(&e))),
                }
            } else {
                let u = ustr(&path);
                match UnixStream::try_connect(UnixStr::try_from_str(&u).unwrap()) {
                    Ok(Some(s)) => Stream::U(s),
                    Ok(None) => {
                        viol(&format!("C16/{t}/try_connect/none-although-backlog-empty"), p, "\"note\":\"fresh listener, nothing queued\"");
                        return Err("try_connect none".into());
                    }
                    Err(e) => return Err(format!("unix try_connect errno {}", errno_of(&e))),
                }
            };
            // the harness's own poll decides when a connection is pending
            if sys::poll_wait(lfd, sys::POLLIN, 20_000) & sys::POLLIN == 0 {
                return Err("listener never became readable after connect".into());
            }
            let s = match &mut l {
                Listener::U(x) => x.try_accept().map(|o| o.map(Stream::U)),
                Listener::T(x) => x.try_accept().map(|o| o.map(Stream::T)),
            };
            match s {
                Ok(Some(s)) => (c, s),
                Ok(None) => {
                    viol(&format!("C16/{t}/try_accept/none-although-connection-pending"), p, "\"note\":\"harness poll showed POLLIN on the listener\"");
                    return Err("try_accept none".into());
                }
                Err(e) => return Err(format!("try_accept errno {}", errno_of(&e))),
            }
        }
        _ => {
            let c = do_connect(&l)?;
            if p.order == 5 {
                // client writes everything and closes before the server accepts
                let st = writer(c, p, p.pseed);
                if !st.ok {
                    return Err(format!("early writer failed errno {}", st.errno));
                }
                let s = accept_tracked(&mut l, lfd, None).map_err(|e| format!("accept errno {}", errno_of(&e)))?;
                // hand back a dummy client: the caller only runs the reader for order 5
                let dummy = do_connect(&l)?;
                return Ok((
                    Estab {
                        client: dummy,
                        server: s,
                        accept_parked: false,
                    },
                    Some(l),
                ));
            }
            let s = accept_tracked(&mut l, lfd, None).map_err(|e| format!("accept errno {}", errno_of(&e)))?;
            (c, s)
        }
    };
    let keep = if p.order == 6 {
        drop(l);
        if !p.tcp {
            let _ = std::fs::remove_file(&path);
        }
        None
    } else {
        Some(l)
    };
    Ok((
        Estab {
            client,
            server,
            accept_parked: parked,
        },
        keep,
    ))
}

#[derive(Default)]
pub struct Totals {
    pub cases: u64,
    pub bytes: u64,
    pub w_ops: u64,
    pub r_ops: u64,
    pub w_not_ready: u64,
    pub r_not_ready: u64,
    pub w_partial: u64,
    pub epipe: u64,
    pub accept_parked: u64,
    pub setup_fail: u64,
}

fn judge(p: &Plan, w: &Stats, r: &Stats, t: &mut Totals) {
    let tn = p.tname();
    let eof = r.errno == -100;
    let rerr = if r.errno == -100 { 0 } else { r.errno };
    let mut clean = w.ok && r.ok;
    // blocking operations must wait, not surface would-block
    if w.errno == 11 {
        clean = false;
        viol(&format!("C16/{tn}/write/returned-wouldblock"), p, &format!("\"written_before\":{}", w.bytes));
    }
    if rerr == 11 {
        clean = false;
        viol(&format!("C16/{tn}/read/returned-wouldblock"), p, &format!("\"received_before\":{}", r.bytes));
    }
    match p.close {
        2 => {
            // reader left early: writer may see EPIPE/ECONNRESET, or finish if everything fit
            if w.errno == 32 || w.errno == 104 {
                t.epipe += 1;
            } else if w.errno != 0 && w.errno != 11 {
                vh::inconclusive(&format!("writer errno {} after early reader close: {}", w.errno, p.json()));
            }
        }
        _ => {
            if w.errno != 0 && w.errno != 11 {
                clean = false;
                vh::inconclusive(&format!("writer failed with errno {} although the reader stayed: {}", w.errno, p.json()));
            }
            if rerr != 0 && rerr != 11 {
                clean = false;
                // a reset can only come from the writer side failing
                vh::inconclusive(&format!("reader failed with errno {rerr}: {}", p.json()));
            }
            if w.ok && w.errno == 0 && r.ok && rerr == 0 {
                if r.bytes > w.bytes {
                    clean = false;
                    viol(&format!("C16/{tn}/stream/more-bytes-than-written"), p, &format!("\"written\":{},\"received\":{}", w.bytes, r.bytes));
                } else if p.close == 0 && eof && r.bytes < w.bytes {
                    clean = false;
                    viol(&format!("C16/{tn}/stream/truncated-lost-tail"), p, &format!("\"written\":{},\"received_before_eof\":{}", w.bytes, r.bytes));
                } else if p.close == 0 && !eof {
                    clean = false;
                    vh::inconclusive(&format!("reader ended without EOF: {}", p.json()));
                } else if p.close == 1 && r.bytes != w.bytes {
                    clean = false;
                    vh::inconclusive(&format!("reader stopped at {} of {}: {}", r.bytes, w.bytes, p.json()));
                }
            }
        }
    }
    t.cases += 1;
    t.bytes += r.bytes;
    t.w_ops += w.ops;
    t.r_ops += r.ops;
    t.w_not_ready += w.not_ready;
    t.r_not_ready += r.not_ready;
    t.w_partial += w.partial;
    if clean {
        vh::eval(1);
        let coarse = |c: u8| match c {
            0..=2 => "small",
            3..=5 => "big",
            _ => "mixed",
        };
        vh::distinct(&format!(
            "xfer/{tn}/len={}/chunks=w-{}-r-{}/order={}",
            p.len_class(),
            coarse(p.wchunk),
            coarse(p.rchunk),
            ORDERS[p.order as usize]
        ));
        vh::distinct(&format!(
            "xfer-shape/{tn}/close={}/think={}/{}/{}/{}",
            CLOSES[p.close as usize],
            THINKS[p.think as usize],
            ["write", "write_all"][p.wapi as usize],
            ["read", "read_exact", "read_to_end"][p.rapi as usize],
            if p.procs { "2proc" } else { "2thr" }
        ));
        vh::sample(
            &format!(
                "{{\"kind\":\"transfer\",\"case\":{},\"bytes_verified\":{},\"write_ops\":{},\"read_ops\":{},\"writes_issued_when_not_writable\":{},\"reads_issued_when_empty\":{},\"short_writes\":{}}}",
                p.json(),
                r.bytes,
                w.ops,
                r.ops,
                w.not_ready,
                r.not_ready,
                w.partial
            ),
            3,
        );
    } else {
        vh::eval(1);
    }
}

fn reset_case(p: &Plan) {
    mon::CASE_LEN.store(p.len as u64, Relaxed);
    mon::WRITTEN.store(0, Relaxed);
    mon::READ.store(0, Relaxed);
    mon::WRITER_DONE.store(false, Relaxed);
    mon::WRITER_HOLDS_OPEN.store(false, Relaxed);
    READER_GONE.store(false, Relaxed);
    *mon::CASE_DESC.lock().unwrap() = p.json();
    mon::CASE_START_MS.store(mon::now_ms().max(1), Relaxed);
    if std::env::var("C16_TRACE").is_ok() {
        eprintln!("CASE {}", p.json());
    }
}

pub fn run_threads(p: &Plan, dir: &str, t: &mut Totals) {
    reset_case(p);
    let (e, keep) = match establish(p, dir) {
        Ok(x) => x,
        Err(m) => {
            t.setup_fail += 1;
            vh::inconclusive(&format!("connection set-up failed ({m}): {}", p.json()));
            return;
        }
    };
    if e.accept_parked {
        t.accept_parked += 1;
    }
    let Estab {
        client,
        server,
        ..
    } = e;
    if p.order == 5 {
        // the writer already ran (and closed) inside establish
        drop(client);
        let w = Stats {
            ops: 0,
            partial: 0,
            not_ready: 0,
            bytes: p.len as u64,
            errno: 0,
            ok: true,
        };
        let r = reader(server, p, p.pseed);
        judge(p, &w, &r, t);
        drop(keep);
        return;
    }
    let (ws, rs) = if p.c2s { (client, server) } else { (server, client) };
    let pw = p.clone();
    let pr = p.clone();
    let hw = std::thread::spawn(move || writer(ws, &pw, pw.pseed));
    let hr = std::thread::spawn(move || reader(rs, &pr, pr.pseed));
    let w = hw.join();
    let r = hr.join();
    drop(keep);
    match (w, r) {
        (Ok(w), Ok(r)) => judge(p, &w, &r, t),
        _ => vh::inconclusive(&format!("harness thread panicked: {}", p.json())),
    }
}

/// two processes: the child is the client; each side prints its own findings; the reader side judges
pub fn run_procs(p: &Plan, dir: &str, t: &mut Totals) {
    use std::io::Write as _;
    reset_case(p);
    let (l, path, port) = match bind(p, dir) {
        Ok(x) => x,
        Err(m) => {
            vh::inconclusive(&format!("bind failed ({m})"));
            return;
        }
    };
    let mut l = Some(l);
    let Some(lfd) = listener_fd(l.as_ref().unwrap(), &path, port) else {
        vh::inconclusive("listener descriptor could not be validated");
        return;
    };
    let mut pp = [0i32; 2];
    unsafe { sys::pipe(pp.as_mut_ptr()) };
    let _ = std::io::stdout().flush();
    let pid = unsafe { sys::fork() };
    if pid == 0 {
        unsafe { sys::close(pp[0]) };
        if p.order == 1 || p.order == 2 {
            std::thread::sleep(Duration::from_millis(3)); // let the parent park in accept
        }
        let st = match connect(p, &path, port, None) {
            Ok(s) => {
                if p.c2s {
                    writer(s, p, p.pseed)
                } else {
                    reader(s, p, p.pseed)
                }
            }
            Err(e) => Stats {
                ops: 0,
                partial: 0,
                not_ready: 0,
                bytes: 0,
                errno: 1000 + errno_of(&e),
                ok: false,
            },
        };
        let line = format!("{} {} {} {} {} {}\n", st.ops, st.partial, st.not_ready, st.bytes, st.errno, u8::from(st.ok));
        unsafe { sys::write(pp[1], line.as_ptr(), line.len()) };
        let _ = std::io::stdout().flush();
        unsafe { sys::_exit(0) };
    }
    unsafe { sys::close(pp[1]) };
    let timeout = if p.order == 2 { Some(Duration::from_secs(20)) } else { None };
    let mine = match accept_tracked(l.as_mut().unwrap(), lfd, timeout) {
        Ok(s) => {
            if p.order == 6 {
                l = None; // listener dropped before the transfer
            }
            if p.c2s {
                reader(s, p, p.pseed)
            } else {
                writer(s, p, p.pseed)
            }
        }
        Err(e) => {
            let en = errno_of(&e);
            if en == 11 {
                viol(&format!("C16/{}/accept/returned-wouldblock", p.tname()), p, "\"errno\":11");
            }
            vh::inconclusive(&format!("accept failed errno {en}: {}", p.json()));
            unsafe {
                sys::kill(pid, 9);
                let mut s = 0;
                sys::waitpid(pid, &mut s, 0);
                sys::close(pp[0]);
            }
            return;
        }
    };
    // child's stats
    let mut buf = [0u8; 256];
    let mut got = Vec::new();
    loop {
        let n = unsafe { sys::read(pp[0], buf.as_mut_ptr(), buf.len()) };
        if n <= 0 {
            break;
        }
        got.extend_from_slice(&buf[..n as usize]);
    }
    let mut status = 0;
    unsafe {
        sys::waitpid(pid, &mut status, 0);
        sys::close(pp[0]);
    }
    let f: Vec<i64> = String::from_utf8_lossy(&got).split_whitespace().filter_map(|x| x.parse().ok()).collect();
    if f.len() != 6 || status != 0 {
        vh::inconclusive(&format!("client process gave no result (status {status}): {}", p.json()));
        return;
    }
    let theirs = Stats {
        ops: f[0] as u64,
        partial: f[1] as u64,
        not_ready: f[2] as u64,
        bytes: f[3] as u64,
        errno: f[4] as i32,
        ok: f[5] != 0,
    };
    if theirs.errno >= 900 {
        vh::inconclusive(&format!("client connect failed errno {}: {}", theirs.errno - 1000, p.json()));
        return;
    }
    let (w, r) = if p.c2s { (theirs, mine) } else { (mine, theirs) };
    judge(p, &w, &r, t);
    drop(l);
}

pub fn report(t: &Totals) {
    vh::count("transfers", t.cases);
    vh::count("bytes_moved_and_verified", t.bytes);
    vh::count("write_ops", t.w_ops);
    vh::count("read_ops", t.r_ops);
    vh::count("writes_issued_when_socket_not_writable", t.w_not_ready);
    vh::count("reads_issued_when_socket_empty", t.r_not_ready);
    vh::count("short_writes", t.w_partial);
    vh::count("writer_epipe_after_early_reader_close", t.epipe);
    vh::count("accepts_observed_parked_before_connect", t.accept_parked);
    vh::count("transfer_setup_failures", t.setup_fail);
}
