//! Time-limited variants (lower bound only), try-variants (marker windows for sysmon) and a few
//! observation-only edge scenarios.
use crate::marker;
use crate::mon::errno_of;
use crate::sys;
use std::time::{Duration, Instant};
use tiny_std::net::{Ip, SocketAddress, TcpListener, TcpStream, TcpTryConnect, UnixListener, UnixStream};
use tiny_std::unix::fd::AsRawFd;
use tiny_std::UnixStr;

fn addr(port: u16) -> SocketAddress {
    SocketAddress::new(Ip::V4([127, 0, 0, 1]), port)
}

/// harness-owned TCP listener whose accept queue is full: further SYNs are dropped, a connect stays
/// in progress. Returns (listener fd, port, fds to keep alive), or None if the state could not be
/// confirmed with the harness's own non-blocking connect.
pub fn tcp_full_queue() -> Option<(i32, u16, Vec<i32>)> {
    let (lfd, port) = sys::tcp_listener(0);
    let mut keep = Vec::new();
    for _ in 0..4 {
        let c = sys::tcp_connect(port, true);
        if c < 0 {
            break;
        }
        // established connections become writable at once on loopback
        if sys::poll_wait(c, sys::POLLOUT, 40) & sys::POLLOUT == 0 {
            unsafe { sys::close(c) };
            return Some((lfd, port, keep));
        }
        keep.push(c);
    }
    for c in keep {
        unsafe { sys::close(c) };
    }
    unsafe { sys::close(lfd) };
    None
}

/// harness-owned Unix listener with a full backlog (non-blocking connect returns EAGAIN)
pub fn unix_full_backlog(path: &str) -> Option<(i32, Vec<i32>)> {
    let _ = std::fs::remove_file(path);
    let lfd = sys::unix_listener(path, 0);
    let mut keep = Vec::new();
    for _ in 0..8 {
        let c = sys::unix_connect(path, true);
        if c == -11 {
            return Some((lfd, keep));
        }
        if c < 0 {
            break;
        }
        keep.push(c);
    }
    for c in keep {
        unsafe { sys::close(c) };
    }
    unsafe { sys::close(lfd) };
    None
}

struct TOut {
    op: &'static str,
    tr: &'static str,
    limit: Duration,
    elapsed: Duration,
    result: String, // "timeout" | "ok" | "errno N"
}

fn judge_timeout(o: &TOut) {
    vh::eval(1);
    vh::count(&format!("timed_{}_{}_{}", o.tr, o.op, o.result.replace(' ', "_")), 1);
    let lim_class = match o.limit.as_nanos() {
        0 => "0",
        1..=1_000_000 => "le1ms",
        1_000_001..=50_000_000 => "le50ms",
        1_000_000_000.. => "ge1s",
        _ => "lt1s",
    };
    let lim_class = if o.limit.subsec_nanos() % 1_000_000 != 0 { format!("{lim_class}+sub-ms-part") } else { lim_class.to_string() };
    if o.result == "timeout" {
        if o.elapsed < o.limit {
            vh::viol(
                &format!("C16/{}/{}/timeout-earlier-than-limit", o.tr, o.op),
                &format!("{{\"requested_ns\":{},\"elapsed_ns\":{},\"clock\":\"std::time::Instant started before the call\"}}", o.limit.as_nanos(), o.elapsed.as_nanos()),
            );
        } else {
            let key = format!("timeout/{}/{}/limit={lim_class}", o.tr, o.op);
            static SEEN: std::sync::Mutex<Vec<String>> = std::sync::Mutex::new(Vec::new());
            let mut seen = SEEN.lock().unwrap();
            vh::distinct(&key);
            if seen.contains(&key) {
                return;
            }
            seen.push(key);
            vh::sample(
                &format!("{{\"kind\":\"timeout\",\"transport\":\"{}\",\"op\":\"{}\",\"requested_ns\":{},\"elapsed_ns\":{},\"result\":\"Timeout\"}}", o.tr, o.op, o.limit.as_nanos(), o.elapsed.as_nanos()),
                40,
            );
        }
    }
}

fn res_name<T>(r: &tiny_std::Result<T>) -> String {
    match r {
        Ok(_) => "ok".into(),
        Err(tiny_std::Error::Timeout) => "timeout".into(),
        Err(e) => format!("errno {}", errno_of(e)),
    }
}

pub fn run_timeouts(seed: u64, reps: u64, dir: &str) {
    let mut r = vh::Rng::new(seed);
    let mut limits: Vec<Duration> = vec![Duration::ZERO, Duration::from_millis(1), Duration::from_millis(50), Duration::from_millis(1100)];
    for _ in 0..reps.saturating_sub(1) {
        limits.push(Duration::from_nanos(r.range(1, 30_000_000)));
        limits.push(Duration::from_nanos(1_000_000_000 + r.range(0, 300_000_000)));
        limits.push(Duration::ZERO);
        limits.push(Duration::from_millis(1));
        limits.push(Duration::from_millis(50));
    }
    limits.push(Duration::new(1, r.range(600_000, 999_999) as u32)); // whole seconds + a sub-millisecond rest
    let mut hs = Vec::new();
    for (i, lim) in limits.into_iter().enumerate() {
        for op in 0..4u8 {
            let dir = dir.to_string();
            hs.push(std::thread::spawn(move || one_timeout(op, i, lim, &dir)));
        }
    }
    for h in hs {
        match h.join() {
            Ok(Some(o)) => judge_timeout(&o),
            Ok(None) => vh::inconclusive("timeout scenario could not be set up"),
            Err(_) => vh::inconclusive("timeout scenario thread panicked"),
        }
    }
    // limits that are not a whole number of milliseconds (sub-millisecond, fractional, nanosecond-granular
    // from the seed), one call at a time so that scheduling noise of sibling threads does not pad the
    // measured time: a conversion that drops or rounds down part of the limit shows as an early Timeout
    let mut fr: Vec<Duration> = [137_000u64, 900_000, 999_999, 1_700_000, 2_345_678, 2_999_000, 10_500_000, 10_999_999]
        .iter()
        .map(|n| Duration::from_nanos(*n))
        .collect();
    for _ in 0..(2 + 2 * reps.min(8)) {
        fr.push(Duration::from_nanos(r.range(100_000, 1_000_000))); // below 1 ms
        fr.push(Duration::from_nanos(r.range(1, 12) * 1_000_000 + r.range(600_000, 999_999))); // n ms + 0.6..1 ms
        fr.push(Duration::from_nanos(r.range(1_000_001, 25_000_000))); // any
    }
    for (i, lim) in fr.into_iter().enumerate() {
        for op in 0..4u8 {
            match one_timeout(op, 100_000 + i, lim, dir) {
                Some(o) => judge_timeout(&o),
                None => vh::inconclusive("timeout scenario could not be set up"),
            }
        }
    }
    run_peer_acts();
}

/// One time-limited call whose peer never acts. `t0` is taken before the call and the elapsed time after
/// it returned (CLOCK_MONOTONIC), so measured >= really waited: only "shorter than the limit" is judged.
fn one_timeout(op: u8, i: usize, lim: Duration, dir: &str) -> Option<TOut> {
                let o = match op {
                    0 => {
                        let p = format!("{dir}/to{i}\0");
                        let _ = std::fs::remove_file(&p[..p.len() - 1]);
                        let mut l = UnixListener::bind(UnixStr::try_from_str(&p).unwrap()).ok()?;
                        let t0 = Instant::now();
                        let res = l.accept_with_timeout(lim);
                        let el = t0.elapsed();
                        TOut {
                            op: "accept_with_timeout",
                            tr: "unix",
                            limit: lim,
                            elapsed: el,
                            result: res_name(&res),
                        }
                    }
                    1 => {
                        let mut l = TcpListener::bind(&addr(0)).ok()?;
                        let t0 = Instant::now();
                        let res = l.accept_with_timeout(lim);
                        let el = t0.elapsed();
                        TOut {
                            op: "accept_with_timeout",
                            tr: "tcp",
                            limit: lim,
                            elapsed: el,
                            result: res_name(&res),
                        }
                    }
                    2 => {
                        // connected stream, silent peer (harness-owned)
                        let (lfd, port) = sys::tcp_listener(4);
                        let mut s = TcpStream::connect(&addr(port)).ok()?;
                        let peer = unsafe { sys::accept(lfd, std::ptr::null_mut(), std::ptr::null_mut()) };
                        let mut b = [0u8; 16];
                        let t0 = Instant::now();
                        let res = s.read_with_timeout(&mut b, lim);
                        let el = t0.elapsed();
                        unsafe {
                            sys::close(peer);
                            sys::close(lfd);
                        }
                        TOut {
                            op: "read_with_timeout",
                            tr: "tcp",
                            limit: lim,
                            elapsed: el,
                            result: res_name(&res),
                        }
                    }
                    _ => {
                        let (lfd, port, keep) = tcp_full_queue()?;
                        let t0 = Instant::now();
                        let res = TcpStream::connect_with_timeout(&addr(port), lim);
                        let el = t0.elapsed();
                        let name = res_name(&res);
                        drop(res);
                        unsafe {
                            for c in keep {
                                sys::close(c);
                            }
                            sys::close(lfd);
                        }
                        TOut {
                            op: "connect_with_timeout",
                            tr: "tcp",
                            limit: lim,
                            elapsed: el,
                            result: name,
                        }
                    }
                };
                Some(o)
}

fn run_peer_acts() {
    // peer acts inside the limit: the call must deliver (counted; a Timeout here is only judged by the lower bound)
    for i in 0..3u64 {
        let (lfd, port) = sys::tcp_listener(4);
        let Ok(mut s) = TcpStream::connect(&addr(port)) else {
            continue;
        };
        let peer = unsafe { sys::accept(lfd, std::ptr::null_mut(), std::ptr::null_mut()) };
        let h = std::thread::spawn(move || {
            std::thread::sleep(Duration::from_millis(5 + i * 7));
            unsafe { sys::write(peer, b"hello".as_ptr(), 5) };
        });
        let mut b = [0u8; 16];
        let lim = Duration::from_secs(20);
        let t0 = Instant::now();
        let res = s.read_with_timeout(&mut b, lim);
        let el = t0.elapsed();
        let _ = h.join();
        match &res {
            Ok(5) if &b[..5] == b"hello" => {
                vh::eval(1);
                vh::count("timed_read_completed_when_peer_wrote", 1);
                vh::distinct("timeout/tcp/read_with_timeout/peer-acts-inside-limit");
            }
            Ok(n) => vh::viol("C16/tcp/read_with_timeout/wrong-data", &format!("{{\"n\":{n},\"buf\":{}}}", vh::jb(&b))),
            Err(_) => judge_timeout(&TOut {
                op: "read_with_timeout",
                tr: "tcp",
                limit: lim,
                elapsed: el,
                result: res_name(&res),
            }),
        }
        unsafe {
            sys::close(peer);
            sys::close(lfd);
        }
    }
}

// ------------------------------------------------------------------ try-variants

pub const TRY_SCN: [&str; 10] = [
    "",
    "unix-try_accept-nothing-pending",
    "unix-try_accept-connection-pending",
    "tcp-try_accept-nothing-pending",
    "tcp-try_accept-connection-pending",
    "unix-try_connect-backlog-has-room",
    "unix-try_connect-backlog-full",
    "tcp-try_connect-listener-ready",
    "tcp-try_connect-accept-queue-full",
    "tcp-inprogress-try_connect-accept-queue-full",
];

fn announce(fd: i32) {
    // ground truth for descriptors that exist before the window: (fd, O_NONBLOCK?)
    let nb = sys::is_nonblock(fd).map_or(-1, i64::from);
    marker::report(100, i64::from(fd), nb, 0, 0);
}

fn try_viol(scn: usize, what: &str, detail: &str) {
    vh::viol(&format!("C16/try-variants/{}/{what}", TRY_SCN[scn]), &format!("{{{detail}}}"));
}

/// Every try_* call sits between BEGIN(scn, rep, fd) and END(scn, rep, outcome) markers.
/// outcome: 0 None/InProgress, 1 Some/Connected, negative = -errno
pub fn run_tries(_seed: u64, reps: u64, dir: &str) {
    let traced = marker::traced();
    vh::count("try_windows_traced_by_sysmon", u64::from(traced));
    // bail-out so that a try call that blocks forever cannot hang the run: the log up to here is the evidence
    std::thread::spawn(|| {
        let mut last = 0;
        let mut same = 0;
        loop {
            std::thread::sleep(Duration::from_millis(500));
            let w = WINDOW.load(std::sync::atomic::Ordering::Relaxed);
            if w % 2 == 1 && w == last {
                same += 1;
                if same >= 6 {
                    vh::inconclusive("a try_* call did not return within 3 s (see sysmon log for the parked system call)");
                    crate::mon::flush_exit(0);
                }
            } else {
                same = 0;
            }
            last = w;
        }
    });
    for rep in 0..reps as i64 {
        // ---- unix try_accept
        let path = format!("{dir}/try{rep}");
        let up = format!("{path}\0");
        let _ = std::fs::remove_file(&path);
        if let Ok(mut l) = UnixListener::bind(UnixStr::try_from_str(&up).unwrap()) {
            if let Some(lfd) = sys::peek_fd(&l).filter(|&f| sys::is_listening(f)) {
                announce(lfd);
                let r = window(1, rep, lfd, || l.try_accept());
                match r {
                    Ok(None) => ok_case(1),
                    Ok(Some(_)) => try_viol(1, "some-without-any-connect", "\"note\":\"fresh listener\""),
                    Err(e) => vh::inconclusive(&format!("unix try_accept errno {}", errno_of(&e))),
                }
                let c = sys::unix_connect(&path, false);
                if c >= 0 && sys::poll_wait(lfd, sys::POLLIN, 5000) & sys::POLLIN != 0 {
                    announce(lfd);
                    let r = window(2, rep, lfd, || l.try_accept());
                    match r {
                        Ok(Some(s)) => {
                            ok_case(2);
                            drop(s);
                        }
                        Ok(None) => try_viol(2, "none-although-connection-pending", "\"note\":\"harness poll showed POLLIN on the listener\""),
                        Err(e) => vh::inconclusive(&format!("unix try_accept errno {}", errno_of(&e))),
                    }
                }
                if c >= 0 {
                    unsafe { sys::close(c) };
                }
                // ---- unix try_connect with room
                let r = window(5, rep, -1, || UnixStream::try_connect(UnixStr::try_from_str(&up).unwrap()));
                match r {
                    Ok(Some(s)) => {
                        ok_case(5);
                        drop(s);
                    }
                    Ok(None) => try_viol(5, "none-although-backlog-empty", "\"note\":\"listener with an empty backlog\""),
                    Err(e) => vh::inconclusive(&format!("unix try_connect errno {}", errno_of(&e))),
                }
            }
        }
        // ---- unix try_connect, backlog full
        let fpath = format!("{dir}/tryfull{rep}");
        if let Some((lfd, keep)) = unix_full_backlog(&fpath) {
            let fp = format!("{fpath}\0");
            let r = window(6, rep, -1, || UnixStream::try_connect(UnixStr::try_from_str(&fp).unwrap()));
            match r {
                Ok(None) => ok_case(6),
                Ok(Some(_)) => vh::count("unix_try_connect_full_backlog_connected", 1),
                Err(e) => vh::count(&format!("unix_try_connect_full_backlog_errno_{}", errno_of(&e)), 1),
            }
            unsafe {
                for c in keep {
                    sys::close(c);
                }
                sys::close(lfd);
            }
        }
        // ---- tcp try_accept
        if let Ok(mut l) = TcpListener::bind(&addr(0)) {
            if let Some(lfd) = sys::peek_fd(&l).filter(|&f| sys::is_listening(f)) {
                let port = sys::local_port(lfd).unwrap_or(0);
                announce(lfd);
                let r = window(3, rep, lfd, || l.try_accept());
                match r {
                    Ok(None) => ok_case(3),
                    Ok(Some(_)) => try_viol(3, "some-without-any-connect", "\"note\":\"fresh listener\""),
                    Err(e) => vh::inconclusive(&format!("tcp try_accept errno {}", errno_of(&e))),
                }
                let c = sys::tcp_connect(port, false);
                if c >= 0 && sys::poll_wait(lfd, sys::POLLIN, 5000) & sys::POLLIN != 0 {
                    announce(lfd);
                    let r = window(4, rep, lfd, || l.try_accept());
                    match r {
                        Ok(Some(s)) => {
                            ok_case(4);
                            drop(s);
                        }
                        Ok(None) => try_viol(4, "none-although-connection-pending", "\"note\":\"harness poll showed POLLIN on the listener\""),
                        Err(e) => vh::inconclusive(&format!("tcp try_accept errno {}", errno_of(&e))),
                    }
                }
                if c >= 0 {
                    unsafe { sys::close(c) };
                }
                // ---- tcp try_connect to a ready listener
                let r = window(7, rep, -1, || TcpStream::try_connect(&addr(port)));
                match r {
                    Ok(TcpTryConnect::Connected(s)) => {
                        ok_case(7);
                        vh::count("tcp_try_connect_connected", 1);
                        drop(s);
                    }
                    Ok(TcpTryConnect::InProgress(p)) => {
                        ok_case(7);
                        vh::count("tcp_try_connect_inprogress", 1);
                        drop(p);
                    }
                    Err(e) => vh::inconclusive(&format!("tcp try_connect errno {}", errno_of(&e))),
                }
            }
        }
        // ---- tcp try_connect while the accept queue is full
        if let Some((lfd, port, keep)) = tcp_full_queue() {
            let r = window(8, rep, -1, || TcpStream::try_connect(&addr(port)));
            match r {
                Ok(TcpTryConnect::InProgress(p)) => {
                    ok_case(8);
                    let r2 = window(9, rep, -1, || p.try_connect());
                    match r2 {
                        Ok(TcpTryConnect::InProgress(_)) => {
                            ok_case(9);
                            vh::count("tcp_inprogress_try_connect_still_in_progress", 1);
                        }
                        Ok(TcpTryConnect::Connected(_)) => ok_case(9),
                        Err(e) => {
                            // did not block; which error a second connect() gives is not part of the statement
                            ok_case(9);
                            vh::count(&format!("tcp_inprogress_try_connect_errno_{}", errno_of(&e)), 1);
                        }
                    }
                }
                Ok(TcpTryConnect::Connected(s)) => {
                    vh::count("tcp_try_connect_full_queue_connected", 1);
                    drop(s);
                }
                Err(e) => vh::inconclusive(&format!("tcp try_connect (full queue) errno {}", errno_of(&e))),
            }
            unsafe {
                for c in keep {
                    sys::close(c);
                }
                sys::close(lfd);
            }
        }
    }
}

static WINDOW: std::sync::atomic::AtomicU64 = std::sync::atomic::AtomicU64::new(0);

fn window<T>(scn: i64, rep: i64, fd: i32, f: impl FnOnce() -> T) -> T {
    WINDOW.fetch_add(1, std::sync::atomic::Ordering::Relaxed);
    marker::begin(scn, rep, i64::from(fd));
    let r = f();
    marker::end(scn, rep, 0, 0, 0);
    WINDOW.fetch_add(1, std::sync::atomic::Ordering::Relaxed);
    r
}

fn ok_case(scn: usize) {
    vh::eval(1);
    vh::distinct(&format!("try/{}", TRY_SCN[scn]));
    vh::count(&format!("try_{}", TRY_SCN[scn]), 1);
}

// ------------------------------------------------------------------ observations (no verdicts)

/// What blocking connect does when it cannot complete at once. Recorded, not judged: the statement
/// speaks about completion when the peer acts; these calls return an error before the peer acts.
pub fn run_edge(dir: &str) {
    // unix: backlog full
    let fpath = format!("{dir}/edgefull");
    if let Some((lfd, keep)) = unix_full_backlog(&fpath) {
        let fp = format!("{fpath}\0");
        let t0 = Instant::now();
        let r = UnixStream::connect(UnixStr::try_from_str(&fp).unwrap());
        let el = t0.elapsed();
        let name = res_name(&r);
        vh::count(&format!("obs_unix_blocking_connect_backlog_full_{}", name.replace(' ', "_")), 1);
        vh::sample(
            &format!("{{\"kind\":\"observation\",\"what\":\"UnixStream::connect while the listener backlog is full\",\"result\":{},\"elapsed_us\":{}}}", vh::js(&name), el.as_micros()),
            8,
        );
        drop(r);
        unsafe {
            for c in keep {
                sys::close(c);
            }
            sys::close(lfd);
        }
    }
    if let Some((lfd, port, keep)) = tcp_full_queue() {
        if let Ok(TcpTryConnect::InProgress(p)) = TcpStream::try_connect(&addr(port)) {
            let t0 = Instant::now();
            let r = p.connect_blocking();
            let el = t0.elapsed();
            let name = res_name(&r);
            vh::count(&format!("obs_tcp_connect_blocking_queue_full_{}", name.replace(' ', "_")), 1);
            vh::sample(
                &format!("{{\"kind\":\"observation\",\"what\":\"TcpStreamInProgress::connect_blocking while the accept queue is full\",\"result\":{},\"elapsed_us\":{}}}", vh::js(&name), el.as_micros()),
                8,
            );
            if let Ok(s) = r {
                let _ = s.as_raw_fd();
            }
        }
        unsafe {
            for c in keep {
                sys::close(c);
            }
            sys::close(lfd);
        }
    }
}
