//! Signals while a blocking / time-limited socket call is parked in ppoll.
//!
//! A counting SIGUSR1 handler (no SA_RESTART) is installed through libc. For every call kind a worker
//! thread enters the tiny-std call; once /proc/<tid>/syscall shows it inside ppoll, it gets SIGUSR1
//! once or several times (tgkill) at seeded offsets; only afterwards does the peer act.
//! Refuting: the call is over before the peer acted (in particular Err(EINTR) surfaced), a Timeout
//! earlier than the limit (Instant started before the call), wrong data after the peer acted.
//! A case only counts when at least one signal's handler ran while the thread was seen parked.
//! With `inject` (under sysmon) the worker instead arms "first ppoll of this thread returns -EINTR".
use crate::marker;
use crate::mon::{self, errno_of};
use crate::sys;
use crate::timed::{tcp_full_queue, unix_full_backlog};
use std::sync::atomic::{AtomicU64, Ordering::Relaxed};
use std::time::{Duration, Instant};
use tiny_std::io::{Read, Write};
use tiny_std::net::{Ip, SocketAddress, TcpListener, TcpStream, UnixListener, UnixStream};
use tiny_std::unix::fd::AsRawFd;
use tiny_std::UnixStr;
use vh::Rng;

static HANDLED: AtomicU64 = AtomicU64::new(0);

extern "C" fn on_usr1(_sig: i32) {
    HANDLED.fetch_add(1, Relaxed);
}

pub fn install_handler() {
    let sa = sys::SigAction {
        handler: on_usr1 as *const () as usize,
        mask: [0; 16],
        flags: 0, // no SA_RESTART
        restorer: 0,
    };
    unsafe { sys::sigaction(10, &sa, std::ptr::null_mut()) };
}

fn addr(port: u16) -> SocketAddress {
    SocketAddress::new(Ip::V4([127, 0, 0, 1]), port)
}

/// inside a system call a socket operation can wait in (ppoll for the non-blocking design; read,
/// write, connect, accept4, recvfrom... when the descriptor happens to be blocking)
pub fn in_ppoll(tid: i32) -> bool {
    let pid = unsafe { sys::getpid() };
    sys::task_syscall(pid, tid).is_some_and(|s| {
        let nr = s.split_whitespace().next().and_then(|x| x.parse::<i64>().ok()).unwrap_or(-1);
        matches!(nr, 271 | 0 | 1 | 42 | 43 | 44 | 45 | 46 | 47 | 288)
    })
}
pub fn wait_in_ppoll(tid: i32, ms: u64) -> bool {
    for _ in 0..ms * 2 {
        if in_ppoll(tid) {
            return true;
        }
        std::thread::sleep(Duration::from_micros(500));
    }
    false
}

/// what the call produced, reduced to what the oracle needs
#[derive(Debug, Clone)]
pub enum Out {
    Ok(Vec<u8>), // payload seen by the call (read: bytes; write: count as LE; accept/connect: empty)
    Timeout,
    Errno(i32),
}

pub struct Running {
    pub handle: std::thread::JoinHandle<(Out, Duration, Option<Box<dyn std::any::Any + Send>>)>,
    pub tid: i32,
    pub slot_seq: &'static AtomicU64,
    pub seq_before: u64,
}

/// run `f` on a worker thread inside a tracked slot; `f` returns (outcome, object to keep alive)
pub fn start(op: usize, tr: i32, fd: i32, events: i16, inject: bool, f: impl FnOnce() -> (Out, Option<Box<dyn std::any::Any + Send>>) + Send + 'static) -> Running {
    start_timed(op, tr, fd, events, inject, None, f)
}

pub fn start_timed(
    op: usize,
    tr: i32,
    fd: i32,
    events: i16,
    inject: bool,
    limit: Option<Duration>,
    f: impl FnOnce() -> (Out, Option<Box<dyn std::any::Any + Send>>) + Send + 'static,
) -> Running {
    let (tx, rx) = std::sync::mpsc::channel();
    let handle = std::thread::spawn(move || {
        let slot = mon::claim();
        let _ = tx.send((sys::gettid(), &slot.seq, slot.seq.load(Relaxed)));
        if inject {
            marker::inject(marker::SCOPE_THREAD, 271, 0, -4, 1);
        }
        let t0 = Instant::now();
        let (o, keep) = mon::tracked_timed(slot, op, tr, fd, events, limit, f);
        let el = t0.elapsed();
        if inject {
            marker::disarm();
        }
        mon::release(slot);
        (o, el, keep)
    });
    let (tid, seq, seq_before) = rx.recv().unwrap();
    Running {
        handle,
        tid,
        slot_seq: seq,
        seq_before,
    }
}

pub struct Sig {
    pub landed: u64,
    pub sent: u64,
    pub parked: bool,
}

/// deliver `k` signals while the worker is inside ppoll, at seeded offsets
pub fn pester(w: &Running, r: &mut Rng, k: u64, inject: bool, span_us: u64) -> Sig {
    let mut s = Sig {
        landed: 0,
        sent: 0,
        parked: false,
    };
    if inject {
        // the first ppoll of the worker is answered with -EINTR by sysmon: wait until the call is
        // either parked in its second ppoll or over
        for _ in 0..800 {
            if in_ppoll(w.tid) || ended(w) {
                break;
            }
            std::thread::sleep(Duration::from_micros(500));
        }
        s.parked = true;
        return s;
    }
    s.parked = wait_in_ppoll(w.tid, 400);
    if !s.parked {
        return s;
    }
    let seq0 = w.seq_before + 1;
    let pid = unsafe { sys::getpid() };
    for _ in 0..k {
        std::thread::sleep(Duration::from_micros(r.range(100, span_us.max(200))));
        if w.slot_seq.load(Relaxed) != seq0 || !wait_in_ppoll(w.tid, 20) {
            break; // the call is over (or not waiting): nothing to interrupt
        }
        let before = HANDLED.load(Relaxed);
        unsafe { sys::syscall(234, i64::from(pid), i64::from(w.tid), 10i64) };
        s.sent += 1;
        for _ in 0..400 {
            if HANDLED.load(Relaxed) > before {
                s.landed += 1;
                break;
            }
            std::thread::sleep(Duration::from_micros(500));
        }
    }
    s
}

pub struct Verdict<'a> {
    pub tr: &'a str,
    pub op: &'a str,
    pub limit: Option<Duration>,
    pub peer_acts: bool,
    pub want: Option<Vec<u8>>,
}

/// the tracked call has been entered and left again
pub fn ended(w: &Running) -> bool {
    w.slot_seq.load(Relaxed) >= w.seq_before + 2
}

#[allow(clippy::too_many_arguments)]
pub fn conclude(v: &Verdict, sig: &Sig, early: bool, out: &Out, el: Duration, inject: bool, tot: &mut Tot) {
    let desc = format!(
        "\"transport\":\"{}\",\"op\":\"{}\",\"limit_ns\":{},\"peer_acts\":{},\"signals_sent\":{},\"handlers_run_while_parked\":{},\"ppoll_eintr_injected\":{},\"elapsed_ns\":{},\"result\":{}",
        v.tr,
        v.op,
        v.limit.map_or("null".into(), |l| l.as_nanos().to_string()),
        v.peer_acts,
        sig.sent,
        sig.landed,
        inject,
        el.as_nanos(),
        vh::js(&match out {
            Out::Ok(b) => format!("Ok({} bytes)", b.len()),
            Out::Timeout => "Timeout".into(),
            Out::Errno(e) => format!("errno {e}"),
        })
    );
    if !sig.parked {
        tot.not_parked += 1;
        return;
    }
    if !inject && sig.landed == 0 {
        tot.no_signal_landed += 1;
        return;
    }
    tot.signals += sig.landed;
    vh::count(&format!("intr_{}_{}_handlers_run_while_parked", v.tr, v.op), sig.landed);
    vh::eval(1);
    let mut bad = false;
    match out {
        Out::Errno(4) => {
            bad = true;
            vh::viol(&format!("C16/{}/{}/eintr-surfaced", v.tr, v.op), &format!("{{{desc},\"returned_before_peer_acted\":{early}}}"));
        }
        Out::Timeout => {
            if let Some(l) = v.limit {
                if el < l {
                    bad = true;
                    vh::viol(&format!("C16/{}/{}/timeout-earlier-than-limit", v.tr, v.op), &format!("{{\"requested_ns\":{},{desc}}}", l.as_nanos()));
                }
            } else {
                bad = true;
                vh::viol(&format!("C16/{}/{}/timeout-from-untimed-call", v.tr, v.op), &format!("{{{desc}}}"));
            }
        }
        Out::Errno(11) => {
            bad = true;
            vh::viol(&format!("C16/{}/{}/returned-wouldblock", v.tr, v.op), &format!("{{{desc}}}"));
        }
        Out::Errno(e) => {
            bad = true;
            if early {
                vh::viol(&format!("C16/{}/{}/returned-before-peer-acted", v.tr, v.op), &format!("{{{desc}}}"));
            } else {
                vh::inconclusive(&format!("intr {} {}: errno {e} after the peer acted", v.tr, v.op));
            }
        }
        Out::Ok(b) => {
            if early {
                bad = true;
                vh::viol(&format!("C16/{}/{}/returned-before-peer-acted", v.tr, v.op), &format!("{{{desc}}}"));
            } else if let Some(w) = &v.want {
                if w != b {
                    bad = true;
                    vh::viol(&format!("C16/{}/{}/wrong-data-after-interrupted-wait", v.tr, v.op), &format!("{{{desc},\"want\":{},\"got\":{}}}", vh::jb(w), vh::jb(b)));
                }
            }
        }
    }
    if !bad {
        let how = if inject {
            "injected"
        } else if sig.landed == 1 {
            "1-signal"
        } else {
            "several-signals"
        };
        vh::distinct(&format!("intr/{}/{}/{}/{}", v.tr, v.op, if v.peer_acts { "peer-acts-after" } else { "runs-to-timeout" }, how));
        static SEEN: std::sync::Mutex<Vec<String>> = std::sync::Mutex::new(Vec::new());
        let key = format!("{}{}{}", v.tr, v.op, v.peer_acts);
        let mut seen = SEEN.lock().unwrap();
        if !seen.contains(&key) {
            seen.push(key);
            vh::sample(&format!("{{\"kind\":\"interrupted-wait\",{desc}}}"), 40);
        }
    }
}

#[derive(Default)]
pub struct Tot {
    pub signals: u64,
    pub not_parked: u64,
    pub no_signal_landed: u64,
}

pub fn out_of<T>(r: tiny_std::Result<T>, f: impl FnOnce(&T) -> Vec<u8>) -> (Out, Option<T>) {
    match r {
        Ok(v) => (Out::Ok(f(&v)), Some(v)),
        Err(tiny_std::Error::Timeout) => (Out::Timeout, None),
        Err(e) => (Out::Errno(errno_of(&e)), None),
    }
}

pub fn keep<T: Send + 'static>(o: (Out, Option<T>)) -> (Out, Option<Box<dyn std::any::Any + Send>>) {
    (o.0, o.1.map(|v| Box::new(v) as Box<dyn std::any::Any + Send>))
}

/// fill the send side of a connected non-blocking socket through the harness's own write(2)
fn prefill(fd: i32) -> usize {
    let buf = [0xA5u8; 4096];
    let mut n = 0usize;
    loop {
        let w = unsafe { sys::write(fd, buf.as_ptr(), buf.len()) };
        if w <= 0 {
            break;
        }
        n += w as usize;
        if n > (64 << 20) {
            break;
        }
    }
    n
}

pub fn run_intr(seed: u64, reps: u64, dir: &str, inject: bool) {
    install_handler();
    let inject = inject && marker::traced();
    mon::spawn_monitor(6000);
    let mut r = Rng::new(seed);
    let mut tot = Tot::default();
    for rep in 0..reps {
        let k = if rep % 2 == 0 { 1 } else { r.range(2, 6) };
        // ------------------------------------------------ accept / accept_with_timeout, unix + tcp
        for tcp in [false, true] {
            for mode in 0..3u8 {
                // 0 blocking, peer acts; 1 timed (long), peer acts; 2 timed (short), nobody comes
                let tr = if tcp { "tcp" } else { "unix" };
                let path = format!("{dir}/i{rep}-{}-{mode}", u8::from(tcp));
                let limit = match mode {
                    0 => None,
                    1 => Some(Duration::from_secs(30)),
                    _ => Some(Duration::from_millis(*r.pick(&[60u64, 150, 400]))),
                };
                let (w, lfd, port) = if tcp {
                    let Ok(mut l) = TcpListener::bind(&addr(0)) else {
                        continue;
                    };
                    let Some(lfd) = sys::peek_fd(&l).filter(|&f| sys::is_listening(f)) else {
                        continue;
                    };
                    let port = sys::local_port(lfd).unwrap_or(0);
                    let w = start(if limit.is_some() { 5 } else { 2 }, 1, lfd, sys::POLLIN, inject, move || {
                        let res = match limit {
                            Some(t) => l.accept_with_timeout(t),
                            None => l.accept(),
                        };
                        let mut o = out_of(res, |_| Vec::new());
                        // read what the peer sent over the accepted connection
                        if let (Out::Ok(b), Some(s)) = (&mut o.0, &mut o.1) {
                            let mut buf = [0u8; 8];
                            if s.read_exact(&mut buf).is_ok() {
                                b.extend_from_slice(&buf);
                            }
                        }
                        keep((o.0, o.1.map(|s| (s, l))))
                    });
                    (w, lfd, port)
                } else {
                    let up = format!("{path}\0");
                    let _ = std::fs::remove_file(&path);
                    let Ok(mut l) = UnixListener::bind(UnixStr::try_from_str(&up).unwrap()) else {
                        continue;
                    };
                    let Some(lfd) = sys::peek_fd(&l).filter(|&f| sys::is_listening(f)) else {
                        continue;
                    };
                    let w = start(if limit.is_some() { 5 } else { 2 }, 0, lfd, sys::POLLIN, inject, move || {
                        let res = match limit {
                            Some(t) => l.accept_with_timeout(t),
                            None => l.accept(),
                        };
                        let mut o = out_of(res, |_| Vec::new());
                        if let (Out::Ok(b), Some(s)) = (&mut o.0, &mut o.1) {
                            let mut buf = [0u8; 8];
                            if s.read_exact(&mut buf).is_ok() {
                                b.extend_from_slice(&buf);
                            }
                        }
                        keep((o.0, o.1.map(|s| (s, l))))
                    });
                    (w, lfd, 0)
                };
                let _ = lfd;
                let span = limit.filter(|_| mode == 2).map_or(3000, |l| (l.as_micros() as u64) / (k + 2));
                let sig = pester(&w, &mut r, k, inject, span);
                let early = mode != 2 && ended(&w);
                let msg = (seed ^ rep ^ u64::from(mode)).to_le_bytes();
                let mut peer = -1;
                if mode != 2 {
                    peer = if tcp { sys::tcp_connect(port, false) } else { sys::unix_connect(&path, false) };
                    if peer >= 0 {
                        unsafe { sys::write(peer, msg.as_ptr(), 8) };
                    }
                }
                let Ok((out, el, kept)) = w.handle.join() else {
                    continue;
                };
                conclude(
                    &Verdict {
                        tr,
                        op: if limit.is_some() { "accept_with_timeout" } else { "accept" },
                        limit,
                        peer_acts: mode != 2,
                        want: (mode != 2).then(|| msg.to_vec()),
                    },
                    &sig,
                    early,
                    &out,
                    el,
                    inject,
                    &mut tot,
                );
                drop(kept);
                if peer >= 0 {
                    unsafe { sys::close(peer) };
                }
            }
        }
        // ------------------------------------------------ read / read_with_timeout
        for tcp in [false, true] {
            for mode in 0..3u8 {
                if !tcp && mode != 0 {
                    continue; // UnixStream has no timed read
                }
                let tr = if tcp { "tcp" } else { "unix" };
                let limit = match mode {
                    0 => None,
                    1 => Some(Duration::from_secs(30)),
                    _ => Some(Duration::from_millis(*r.pick(&[60u64, 150, 400]))),
                };
                // harness-owned listener and peer end
                let path = format!("{dir}/r{rep}");
                let (lfd, peer, w) = if tcp {
                    let (lfd, port) = sys::tcp_listener(4);
                    let Ok(mut s) = TcpStream::connect(&addr(port)) else {
                        unsafe { sys::close(lfd) };
                        continue;
                    };
                    let peer = unsafe { sys::accept(lfd, std::ptr::null_mut(), std::ptr::null_mut()) };
                    let fd = s.as_raw_fd().value();
                    let w = start(if limit.is_some() { 4 } else { 0 }, 1, fd, sys::POLLIN, inject, move || {
                        let mut buf = [0u8; 8];
                        let res = match limit {
                            Some(t) => s.read_with_timeout(&mut buf, t),
                            None => s.read(&mut buf),
                        };
                        let o = out_of(res, |&n| buf[..n.min(8)].to_vec());
                        keep((o.0, Some(s)))
                    });
                    (lfd, peer, w)
                } else {
                    let _ = std::fs::remove_file(&path);
                    let lfd = sys::unix_listener(&path, 4);
                    let up = format!("{path}\0");
                    let Ok(mut s) = UnixStream::connect(UnixStr::try_from_str(&up).unwrap()) else {
                        unsafe { sys::close(lfd) };
                        continue;
                    };
                    let peer = unsafe { sys::accept(lfd, std::ptr::null_mut(), std::ptr::null_mut()) };
                    let fd = s.as_raw_fd().value();
                    let w = start(0, 0, fd, sys::POLLIN, inject, move || {
                        let mut buf = [0u8; 8];
                        let res = s.read(&mut buf);
                        let o = out_of(res, |&n| buf[..n.min(8)].to_vec());
                        keep((o.0, Some(s)))
                    });
                    (lfd, peer, w)
                };
                let span = limit.filter(|_| mode == 2).map_or(3000, |l| (l.as_micros() as u64) / (k + 2));
                let sig = pester(&w, &mut r, k, inject, span);
                let early = mode != 2 && ended(&w);
                let msg = (seed.rotate_left(7) ^ rep ^ u64::from(mode)).to_le_bytes();
                if mode != 2 {
                    unsafe { sys::write(peer, msg.as_ptr(), 8) };
                }
                if let Ok((out, el, kept)) = w.handle.join() {
                    conclude(
                        &Verdict {
                            tr,
                            op: if limit.is_some() { "read_with_timeout" } else { "read" },
                            limit,
                            peer_acts: mode != 2,
                            want: (mode != 2).then(|| msg.to_vec()),
                        },
                        &sig,
                        early,
                        &out,
                        el,
                        inject,
                        &mut tot,
                    );
                    drop(kept);
                }
                unsafe {
                    sys::close(peer);
                    sys::close(lfd);
                }
            }
        }
        // ------------------------------------------------ write into a full send buffer
        for tcp in [false, true] {
            let tr = if tcp { "tcp" } else { "unix" };
            let path = format!("{dir}/w{rep}");
            let (lfd, peer, stream_fd, w, pre) = if tcp {
                let (lfd, port) = sys::tcp_listener(4);
                let Ok(mut s) = TcpStream::connect(&addr(port)) else {
                    unsafe { sys::close(lfd) };
                    continue;
                };
                let peer = unsafe { sys::accept(lfd, std::ptr::null_mut(), std::ptr::null_mut()) };
                let fd = s.as_raw_fd().value();
                let pre = prefill(fd);
                let w = start(1, 1, fd, sys::POLLOUT, inject, move || {
                    let chunk = [0x3Cu8; 1000];
                    let o = out_of(s.write(&chunk), |&n| (n as u64).to_le_bytes().to_vec());
                    keep((o.0, Some(s)))
                });
                (lfd, peer, fd, w, pre)
            } else {
                let _ = std::fs::remove_file(&path);
                let lfd = sys::unix_listener(&path, 4);
                let up = format!("{path}\0");
                let Ok(mut s) = UnixStream::connect(UnixStr::try_from_str(&up).unwrap()) else {
                    unsafe { sys::close(lfd) };
                    continue;
                };
                let peer = unsafe { sys::accept(lfd, std::ptr::null_mut(), std::ptr::null_mut()) };
                let fd = s.as_raw_fd().value();
                let pre = prefill(fd);
                let w = start(1, 0, fd, sys::POLLOUT, inject, move || {
                    let chunk = [0x3Cu8; 1000];
                    let o = out_of(s.write(&chunk), |&n| (n as u64).to_le_bytes().to_vec());
                    keep((o.0, Some(s)))
                });
                (lfd, peer, fd, w, pre)
            };
            let _ = stream_fd;
            let sig = pester(&w, &mut r, k, inject, 3000);
            let early = ended(&w);
            // the peer acts: drain everything that arrives until the writer is done and the count adds up
            let mut got_pre = 0usize;
            let mut got_chunk = 0usize;
            let mut order_ok = true;
            let mut buf = vec![0u8; 1 << 16];
            let t0 = Instant::now();
            let mut result = None;
            let mut handle = Some(w.handle);
            loop {
                let rev = sys::poll_wait(peer, sys::POLLIN, 20);
                if rev & sys::POLLIN != 0 {
                    let n = unsafe { sys::read(peer, buf.as_mut_ptr(), buf.len()) };
                    if n > 0 {
                        for &b in &buf[..n as usize] {
                            if b == 0xA5 {
                                if got_chunk > 0 {
                                    order_ok = false;
                                }
                                got_pre += 1;
                            } else if b == 0x3C {
                                got_chunk += 1;
                            } else {
                                order_ok = false;
                            }
                        }
                    } else if n == 0 {
                        break;
                    }
                }
                if result.is_none() && handle.as_ref().is_some_and(|h| h.is_finished()) {
                    result = handle.take().and_then(|h| h.join().ok());
                }
                if let Some((Out::Ok(b), _, _)) = &result {
                    let n = u64::from_le_bytes(b[..8].try_into().unwrap()) as usize;
                    if got_pre + got_chunk >= pre + n {
                        break;
                    }
                } else if result.is_some() {
                    break;
                }
                if t0.elapsed().as_secs() > 60 {
                    break;
                }
            }
            if result.is_none() {
                result = handle.take().and_then(|h| h.join().ok());
            }
            if let Some((out, el, kept)) = result {
                // data intact: exactly the prefill, then exactly the n bytes the call reported
                let (out2, want) = match &out {
                    Out::Ok(b) => {
                        let n = u64::from_le_bytes(b[..8].try_into().unwrap());
                        let seen = format!("pre={got_pre} chunk={got_chunk} order_ok={order_ok}").into_bytes();
                        let want = format!("pre={pre} chunk={n} order_ok=true").into_bytes();
                        (Out::Ok(seen), Some(want))
                    }
                    o => (o.clone(), None),
                };
                conclude(
                    &Verdict {
                        tr,
                        op: "write",
                        limit: None,
                        peer_acts: true,
                        want,
                    },
                    &sig,
                    early,
                    &out2,
                    el,
                    inject,
                    &mut tot,
                );
                drop(kept);
            }
            unsafe {
                sys::close(peer);
                sys::close(lfd);
            }
        }
        // ------------------------------------------------ tcp connect / connect_with_timeout, accept queue full
        for mode in 0..3u8 {
            if mode == 0 && rep % 2 == 1 {
                continue; // the blocking variant costs a SYN retransmission (about 1 s): every other repetition
            }
            let Some((lfd, port, held)) = tcp_full_queue() else {
                continue;
            };
            let limit = match mode {
                0 => None,
                1 => Some(Duration::from_secs(30)),
                _ => Some(Duration::from_millis(*r.pick(&[60u64, 150, 400]))),
            };
            if mode == 1 && rep % 2 == 0 {
                unsafe {
                    for c in held {
                        sys::close(c);
                    }
                    sys::close(lfd);
                }
                continue;
            }
            let w = start(3, 1, -1, sys::POLLOUT, inject, move || {
                let res = match limit {
                    Some(t) => TcpStream::connect_with_timeout(&addr(port), t),
                    None => TcpStream::connect(&addr(port)),
                };
                keep(out_of(res, |_| Vec::new()))
            });
            let span = limit.filter(|_| mode == 2).map_or(3000, |l| (l.as_micros() as u64) / (k + 2));
            let sig = pester(&w, &mut r, k, inject, span);
            let early = mode != 2 && ended(&w);
            let mut accepted = Vec::new();
            if mode != 2 {
                // the peer acts: take the queued connections so that the retransmitted SYN gets in
                for _ in 0..held.len() + 1 {
                    if sys::poll_wait(lfd, sys::POLLIN, 10) & sys::POLLIN != 0 {
                        accepted.push(unsafe { sys::accept(lfd, std::ptr::null_mut(), std::ptr::null_mut()) });
                    }
                }
            }
            if let Ok((out, el, kept)) = w.handle.join() {
                conclude(
                    &Verdict {
                        tr: "tcp",
                        op: if limit.is_some() { "connect_with_timeout" } else { "connect" },
                        limit,
                        peer_acts: mode != 2,
                        want: None,
                    },
                    &sig,
                    early,
                    &out,
                    el,
                    inject,
                    &mut tot,
                );
                drop(kept);
            }
            unsafe {
                for c in held.into_iter().chain(accepted) {
                    if c >= 0 {
                        sys::close(c);
                    }
                }
                sys::close(lfd);
            }
        }
        // unix connect to a full backlog does not wait at all (EAGAIN at once): nothing to interrupt
        let _ = unix_full_backlog;
    }
    vh::count("intr_handlers_run_while_parked_total", tot.signals);
    vh::count("intr_cases_not_parked_in_ppoll", tot.not_parked);
    vh::count("intr_cases_where_no_signal_landed", tot.no_signal_landed);
    vh::count("intr_sigusr1_handler_invocations", HANDLED.load(Relaxed));
}
