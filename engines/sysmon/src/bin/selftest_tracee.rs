//! Tracee used by the sysmon self-test: markers, an injected failure, a thread, a fork.
extern "C" {
    fn syscall(nr: i64, ...) -> i64;
    fn fork() -> i32;
    fn waitpid(pid: i32, status: *mut i32, options: i32) -> i32;
    fn _exit(c: i32) -> !;
    fn __errno_location() -> *mut i32;
}
const M: i64 = 0x5EC0;
fn main() {
    unsafe {
        let traced = syscall(M, 3i64, 1i64, 2i64, 3i64, 4i64, 5i64) == 0;
        println!("traced={traced}");
        syscall(M, 1i64, 7i64, 0i64, 0i64, 0i64, 0i64); // BEGIN scenario 7 case 0
        // injected by --inject 7:0:1:39:0:-4  => getpid fails with EINTR once
        let r = syscall(39);
        let e = *__errno_location();
        println!("getpid1={r} errno={e}");
        let r2 = syscall(39);
        println!("getpid2_ok={}", r2 > 0);
        // self-armed injection: 2nd upcoming getuid (102) returns 4242
        syscall(M, 4i64, 0i64, 102i64, 1i64, 4242i64, 1i64);
        let a = syscall(102);
        let b = syscall(102);
        println!("getuid a_is_real={} b={b}", a != 4242);
        // number-agnostic injection (nr = -1): the next system call of this thread, whatever its number
        syscall(M, 4i64, 0i64, -1i64, 0i64, 777i64, 1i64);
        let g1 = syscall(186); // gettid: forced
        let g2 = syscall(186); // real again
        println!("anynr first={g1} second_is_real={}", g2 != 777 && g2 > 0);
        // post-mode injection (scope + 16): the call is executed, the caller is told something else.
        // close(dup(1)) is told EINTR but the descriptor must really be gone: closing it again gives EBADF.
        let d = syscall(32, 1i64); // dup
        syscall(M, 4i64, 16i64, 3i64, 0i64, -4i64, 1i64);
        let c1 = syscall(3, d);
        let e1 = *__errno_location();
        let c2 = syscall(3, d);
        let e2 = *__errno_location();
        println!("post close told={c1}/{e1} again={c2}/{e2}");
        let f = std::fs::File::open("/proc/self/maps").unwrap();
        syscall(M, 5i64, 11i64, 0i64, 0i64, 0i64, 0i64); // SNAPFD tag 11
        drop(f);
        let h = std::thread::spawn(|| {
            syscall(M, 3i64, 100i64, 0i64, 0i64, 0i64, 0i64);
        });
        h.join().unwrap();
        let p = fork();
        if p == 0 {
            syscall(M, 3i64, 200i64, 0i64, 0i64, 0i64, 0i64);
            _exit(3);
        }
        let mut st = 0;
        waitpid(p, &mut st, 0);
        println!("child_status={}", st >> 8);
        let buf = b"hello-bytes";
        syscall(M, 6i64, buf.as_ptr(), buf.len(), 77i64, 0i64, 0i64);
        syscall(M, 2i64, 7i64, 0i64, 0i64, 0i64, 0i64); // END
    }
    std::process::exit(5);
}
