//! sysmon — ptrace system-call monitor, fault injector and event log for tiny-std probes.
//!
//! usage: sysmon --log FILE [options] -- PROG ARGS...
//!   --log FILE            event log (text, one event per line, see below)
//!   --timeout-s N         overall watchdog (default 120): kills the tracees, exit 124
//!   --idle-ms N           after N ms without any ptrace event, sample /proc/<tid>/syscall of all
//!                         tracee threads into the log ("T" lines) (default 400; 0 = off)
//!   --env-clear / --env K=V   environment of the tracee
//!   --spec FILE           raw exec spec: lines `path <hex>`, `arg <hex>`, `env <hex>` (bytes, no NUL)
//!                         (overrides PROG/ARGS/--env; allows empty argv, non-UTF-8, duplicates)
//!   --entries             also log syscall entries ("s" lines), not only exits (exit/exit_group entries
//!                         are always logged: they have no exit stop)
//!   --scope-markers       log syscalls only between BEGIN and END markers of the issuing process
//!   --inject S:C:SCOPE:NR:K:RET[:COUNT]   when a BEGIN marker (scenario S, case C; C=* any) is seen, arm:
//!                         in SCOPE (0 thread,1 process,2 children forked later,3 all) the K-th (0-based)
//!                         next syscall with number NR is not executed and returns RET (i64, e.g. -12);
//!                         COUNT consecutive matching calls (default 1). NR = -1 matches every system call
//!                         number (the marker call itself is never injected)
//!
//! Marker syscall (number 0x5EC0, ENOSYS without tracer; returns 0 under sysmon), arg0 = kind:
//!   1 BEGIN(scenario, case, x, y, z)   2 END(scenario, case, x, y, z)   3 REPORT(a,b,c,d,e)
//!   4 INJECT(scope, nr|-1=any, k, ret, count) 5 SNAPFD(tag)  6 BYTES(ptr, len, tag)  7 DISARM()  8 SNAPMAPS(tag)
//!   9 SNAPTHREADS(tag)
//!
//! Log lines (all numbers hex without 0x except seq/pid/tid/decimal fields noted):
//!   s seq tgid tid nr a0 a1 a2 a3 a4 a5            syscall entry (decimal seq/tgid/tid/nr)
//!   S seq tgid tid nr a0 a1 a2 a3 a4 a5 ret flags  syscall exit; ret as signed decimal; flags: - or i (injected)
//!   M seq tgid tid kind a1 a2 a3 a4 a5             marker (kind decimal, args signed decimal)
//!   F seq tgid tid newtid kind                     fork|vfork|clone event
//!   N seq tgid tid                                 first sight of a task
//!   E seq tgid tid                                 exec event
//!   X seq tgid tid status                          task gone (wait status decimal; exit code = status>>8)
//!   G seq tgid tid sig                             signal delivery stop
//!   D seq tgid tid tag fd=target ...               /proc/<tgid>/fd snapshot (targets %-escaped)
//!   B seq tgid tid tag hexbytes                    memory capture
//!   P seq tgid tid tag start-end perms path ...    /proc/<tgid>/maps snapshot (one line, ';' separated)
//!   H seq tgid tid tag nthreads                    /proc/<tgid>/status Threads:
//!   T seq tid state syscallline                    idle sample
//!   W seq text                                     watchdog / notes
use std::collections::HashMap;
use std::ffi::CString;
use std::fs::File;
use std::io::{BufWriter, Read, Seek, SeekFrom, Write};
use std::sync::atomic::{AtomicBool, AtomicU64, Ordering};
use std::sync::{Arc, Mutex};

extern "C" {
    fn fork() -> i32;
    fn execve(path: *const i8, argv: *const *const i8, envp: *const *const i8) -> i32;
    fn ptrace(req: i64, pid: i32, addr: usize, data: usize) -> i64;
    fn waitpid(pid: i32, status: *mut i32, options: i32) -> i32;
    fn raise(sig: i32) -> i32;
    fn kill(pid: i32, sig: i32) -> i32;
    fn _exit(code: i32) -> !;
    fn __errno_location() -> *mut i32;
}

const PTRACE_TRACEME: i64 = 0;
const PTRACE_GETREGS: i64 = 12;
const PTRACE_SETREGS: i64 = 13;
const PTRACE_SYSCALL: i64 = 24;
const PTRACE_SETOPTIONS: i64 = 0x4200;
const PTRACE_GETEVENTMSG: i64 = 0x4201;
const OPTS: usize = 1 | 2 | 4 | 8 | 0x10 | 0x10_0000; // SYSGOOD FORK VFORK CLONE EXEC EXITKILL
const WALL: i32 = 0x4000_0000;
const MARK_NR: u64 = 0x5EC0;

#[repr(C)]
#[derive(Default, Clone, Copy, Debug)]
struct Regs {
    r15: u64,
    r14: u64,
    r13: u64,
    r12: u64,
    rbp: u64,
    rbx: u64,
    r11: u64,
    r10: u64,
    r9: u64,
    r8: u64,
    rax: u64,
    rcx: u64,
    rdx: u64,
    rsi: u64,
    rdi: u64,
    orig_rax: u64,
    rip: u64,
    cs: u64,
    eflags: u64,
    rsp: u64,
    ss: u64,
    fs_base: u64,
    gs_base: u64,
    ds: u64,
    es: u64,
    fs: u64,
    gs: u64,
}

#[derive(Clone, Debug)]
struct Inject {
    scope: i64, // 0 thread 1 process 2 children-forked-later 3 all
    owner_tid: i32,
    owner_tgid: i32,
    armed_seq: u64,
    nr: u64,
    skip: i64,
    ret: i64,
    count: i64,
}

#[derive(Clone, Debug)]
struct PlanInject {
    scenario: i64,
    case: Option<i64>,
    scope: i64,
    nr: u64,
    k: i64,
    ret: i64,
    count: i64,
}

#[derive(Default, Clone, Debug)]
struct Task {
    tgid: i32,
    in_syscall: bool,
    entry: Regs,
    pending_ret: Option<i64>,
    pending_post: bool,
    born_seq: u64,
    parent_tgid: i32,
    seen_stop: bool,
}

struct Logger {
    w: BufWriter<File>,
    seq: u64,
}
impl Logger {
    fn line(&mut self, kind: char, rest: &str) -> u64 {
        self.seq += 1;
        let _ = writeln!(self.w, "{} {} {}", kind, self.seq, rest);
        self.seq
    }
}

fn errno() -> i32 {
    unsafe { *__errno_location() }
}

fn unhex(s: &str) -> Vec<u8> {
    (0..s.len() / 2)
        .map(|i| u8::from_str_radix(&s[2 * i..2 * i + 2], 16).unwrap_or(0))
        .collect()
}

fn esc(s: &str) -> String {
    let mut o = String::new();
    for b in s.bytes() {
        if b.is_ascii_graphic() && b != b'%' {
            o.push(b as char);
        } else {
            o.push_str(&format!("%{b:02x}"));
        }
    }
    o
}

fn tgid_of(tid: i32) -> i32 {
    if let Ok(s) = std::fs::read_to_string(format!("/proc/{tid}/status")) {
        for l in s.lines() {
            if let Some(v) = l.strip_prefix("Tgid:") {
                return v.trim().parse().unwrap_or(tid);
            }
        }
    }
    tid
}

fn read_mem(tgid: i32, addr: u64, len: usize) -> Vec<u8> {
    let mut buf = vec![0u8; len];
    if let Ok(mut f) = File::open(format!("/proc/{tgid}/mem")) {
        if f.seek(SeekFrom::Start(addr)).is_ok() {
            let mut got = 0;
            while got < len {
                match f.read(&mut buf[got..]) {
                    Ok(0) | Err(_) => break,
                    Ok(n) => got += n,
                }
            }
            buf.truncate(got);
            return buf;
        }
    }
    Vec::new()
}

fn snap_fds(tgid: i32) -> String {
    let mut v: Vec<(i32, String)> = Vec::new();
    if let Ok(rd) = std::fs::read_dir(format!("/proc/{tgid}/fd")) {
        for e in rd.flatten() {
            let name = e.file_name().to_string_lossy().to_string();
            if let Ok(n) = name.parse::<i32>() {
                let t = std::fs::read_link(e.path())
                    .map(|p| p.to_string_lossy().to_string())
                    .unwrap_or_else(|_| "?".into());
                v.push((n, t));
            }
        }
    }
    v.sort();
    v.iter()
        .map(|(n, t)| format!("{}={}", n, esc(t)))
        .collect::<Vec<_>>()
        .join(" ")
}

fn snap_maps(tgid: i32) -> String {
    let mut out = Vec::new();
    if let Ok(s) = std::fs::read_to_string(format!("/proc/{tgid}/maps")) {
        for l in s.lines() {
            let mut it = l.split_whitespace();
            let range = it.next().unwrap_or("");
            let perms = it.next().unwrap_or("");
            let path = it.nth(3).unwrap_or("-");
            out.push(format!("{},{},{}", range, perms, esc(path)));
        }
    }
    out.join(";")
}

fn nthreads(tgid: i32) -> i64 {
    if let Ok(s) = std::fs::read_to_string(format!("/proc/{tgid}/status")) {
        for l in s.lines() {
            if let Some(v) = l.strip_prefix("Threads:") {
                return v.trim().parse().unwrap_or(-1);
            }
        }
    }
    -1
}

fn main() {
    let args: Vec<String> = std::env::args().collect();
    let mut log_path = None;
    let mut timeout_s = 120u64;
    let mut idle_ms = 400u64;
    let mut env_clear = false;
    let mut envs: Vec<Vec<u8>> = Vec::new();
    let mut spec = None;
    let mut log_entries = false;
    let mut scope_markers = false;
    let mut plan: Vec<PlanInject> = Vec::new();
    let mut i = 1;
    let mut prog: Vec<String> = Vec::new();
    while i < args.len() {
        match args[i].as_str() {
            "--log" => {
                log_path = Some(args[i + 1].clone());
                i += 2;
            }
            "--timeout-s" => {
                timeout_s = args[i + 1].parse().unwrap();
                i += 2;
            }
            "--idle-ms" => {
                idle_ms = args[i + 1].parse().unwrap();
                i += 2;
            }
            "--env-clear" => {
                env_clear = true;
                i += 1;
            }
            "--env" => {
                envs.push(args[i + 1].clone().into_bytes());
                i += 2;
            }
            "--spec" => {
                spec = Some(args[i + 1].clone());
                i += 2;
            }
            "--entries" => {
                log_entries = true;
                i += 1;
            }
            "--scope-markers" => {
                scope_markers = true;
                i += 1;
            }
            "--inject" => {
                let p: Vec<&str> = args[i + 1].split(':').collect();
                plan.push(PlanInject {
                    scenario: p[0].parse().unwrap(),
                    case: if p[1] == "*" { None } else { Some(p[1].parse().unwrap()) },
                    scope: p[2].parse().unwrap(),
                    nr: p[3].parse::<i64>().unwrap() as u64, // -1 (u64::MAX) = any number
                    k: p[4].parse().unwrap(),
                    ret: p[5].parse().unwrap(),
                    count: p.get(6).map_or(1, |c| c.parse().unwrap()),
                });
                i += 2;
            }
            "--" => {
                prog = args[i + 1..].to_vec();
                break;
            }
            other => {
                eprintln!("sysmon: unknown option {other}");
                std::process::exit(125);
            }
        }
    }
    let log_path = log_path.unwrap_or_else(|| {
        eprintln!("sysmon: --log required");
        std::process::exit(125)
    });

    // exec spec
    let (path_b, argv_b, env_b): (Vec<u8>, Vec<Vec<u8>>, Vec<Vec<u8>>) = if let Some(sp) = spec {
        let txt = std::fs::read_to_string(&sp).expect("spec file");
        let mut path = Vec::new();
        let mut av = Vec::new();
        let mut ev = Vec::new();
        for l in txt.lines() {
            let mut it = l.splitn(2, ' ');
            let k = it.next().unwrap_or("");
            let v = it.next().unwrap_or("");
            match k {
                "path" => path = unhex(v),
                "arg" => av.push(unhex(v)),
                "env" => ev.push(unhex(v)),
                _ => {}
            }
        }
        (path, av, ev)
    } else {
        if prog.is_empty() {
            eprintln!("sysmon: no program");
            std::process::exit(125);
        }
        let mut ev: Vec<Vec<u8>> = Vec::new();
        if !env_clear {
            for (k, v) in std::env::vars_os() {
                use std::os::unix::ffi::OsStrExt;
                let mut e = k.as_bytes().to_vec();
                e.push(b'=');
                e.extend_from_slice(v.as_bytes());
                ev.push(e);
            }
        }
        ev.extend(envs);
        (
            prog[0].clone().into_bytes(),
            prog.iter().map(|s| s.clone().into_bytes()).collect(),
            ev,
        )
    };
    let c_path = CString::new(path_b).expect("NUL in path");
    let c_argv: Vec<CString> = argv_b.into_iter().map(|a| CString::new(a).expect("NUL in arg")).collect();
    let c_env: Vec<CString> = env_b.into_iter().map(|a| CString::new(a).expect("NUL in env")).collect();
    let mut p_argv: Vec<*const i8> = c_argv.iter().map(|c| c.as_ptr()).collect();
    p_argv.push(std::ptr::null());
    let mut p_env: Vec<*const i8> = c_env.iter().map(|c| c.as_ptr()).collect();
    p_env.push(std::ptr::null());

    let logger = Arc::new(Mutex::new(Logger {
        w: BufWriter::with_capacity(1 << 20, File::create(&log_path).expect("log file")),
        seq: 0,
    }));

    let child = unsafe { fork() };
    if child < 0 {
        eprintln!("sysmon: fork failed");
        std::process::exit(125);
    }
    if child == 0 {
        unsafe {
            ptrace(PTRACE_TRACEME, 0, 0, 0);
            raise(19); // SIGSTOP
            execve(c_path.as_ptr(), p_argv.as_ptr(), p_env.as_ptr());
            _exit(127);
        }
    }
    let mut status = 0i32;
    unsafe {
        waitpid(child, &mut status, WALL);
        if ptrace(PTRACE_SETOPTIONS, child, 0, OPTS) < 0 {
            eprintln!("sysmon: SETOPTIONS failed errno {}", errno());
            kill(child, 9);
            std::process::exit(125);
        }
    }

    let tids: Arc<Mutex<Vec<i32>>> = Arc::new(Mutex::new(vec![child]));
    let last_event = Arc::new(AtomicU64::new(now_ms()));
    let done = Arc::new(AtomicBool::new(false));
    let start_ms = now_ms();
    // watchdog + idle sampler
    {
        let tids = tids.clone();
        let last_event = last_event.clone();
        let done = done.clone();
        let logger = logger.clone();
        std::thread::spawn(move || {
            let mut last_sample = 0u64;
            loop {
                std::thread::sleep(std::time::Duration::from_millis(50));
                if done.load(Ordering::Relaxed) {
                    return;
                }
                let now = now_ms();
                if now - start_ms > timeout_s * 1000 {
                    {
                        let mut l = logger.lock().unwrap();
                        sample_idle(&tids, &mut l);
                        l.line('W', "watchdog-timeout");
                        let _ = l.w.flush();
                    }
                    for t in tids.lock().unwrap().iter() {
                        unsafe {
                            kill(*t, 9);
                        }
                    }
                    std::process::exit(124);
                }
                let le = last_event.load(Ordering::Relaxed);
                if idle_ms > 0 && now - le > idle_ms && last_sample < le {
                    last_sample = le;
                    let mut l = logger.lock().unwrap();
                    sample_idle(&tids, &mut l);
                    let _ = l.w.flush();
                } else if idle_ms > 0 && now - le > idle_ms && now - last_sample.max(le) > 4 * idle_ms {
                    // still idle: second sample so that persistence can be judged
                    last_sample = now;
                    let mut l = logger.lock().unwrap();
                    sample_idle(&tids, &mut l);
                    let _ = l.w.flush();
                }
            }
        });
    }

    let mut tasks: HashMap<i32, Task> = HashMap::new();
    tasks.insert(
        child,
        Task {
            tgid: child,
            seen_stop: true,
            ..Default::default()
        },
    );
    let mut injects: Vec<Inject> = Vec::new();
    let mut in_scope: HashMap<i32, i64> = HashMap::new(); // tgid -> nesting of BEGIN
    let mut root_status: Option<i32> = None;
    unsafe {
        ptrace(PTRACE_SYSCALL, child, 0, 0);
    }
    loop {
        let tid = unsafe { waitpid(-1, &mut status, WALL) };
        if tid < 0 {
            break;
        }
        last_event.store(now_ms(), Ordering::Relaxed);
        let st = status;
        let exited = (st & 0x7f) == 0;
        let signaled = ((st & 0x7f) + 1) as i8 >= 2 && (st & 0xff) != 0x7f;
        if exited || signaled {
            let tg = tasks.get(&tid).map_or(tid, |t| t.tgid);
            logger.lock().unwrap().line('X', &format!("{tg} {tid} {st}"));
            tasks.remove(&tid);
            tids.lock().unwrap().retain(|t| *t != tid);
            if tid == child {
                root_status = Some(st);
            }
            if tasks.is_empty() {
                break;
            }
            continue;
        }
        // stopped
        let sig = (st >> 8) & 0xff;
        let event = (st >> 16) & 0xff;
        if !tasks.contains_key(&tid) {
            let tg = tgid_of(tid);
            let mut l = logger.lock().unwrap();
            let s = l.line('N', &format!("{tg} {tid}"));
            tasks.insert(
                tid,
                Task {
                    tgid: tg,
                    born_seq: s,
                    ..Default::default()
                },
            );
            tids.lock().unwrap().push(tid);
        }
        let mut deliver = 0usize;
        if sig == (5 | 0x80) {
            // syscall stop
            let mut regs = Regs::default();
            unsafe {
                ptrace(PTRACE_GETREGS, tid, 0, &mut regs as *mut Regs as usize);
            }
            let t = tasks.get_mut(&tid).unwrap();
            if !t.in_syscall {
                t.in_syscall = true;
                t.entry = regs;
                let nr = regs.orig_rax;
                let tg = t.tgid;
                if nr == MARK_NR {
                    let kind = regs.rdi as i64;
                    let a = [regs.rsi as i64, regs.rdx as i64, regs.r10 as i64, regs.r8 as i64, regs.r9 as i64];
                    let mut l = logger.lock().unwrap();
                    let seq = l.line('M', &format!("{tg} {tid} {kind} {} {} {} {} {}", a[0], a[1], a[2], a[3], a[4]));
                    match kind {
                        1 => {
                            *in_scope.entry(tg).or_insert(0) += 1;
                            for p in &plan {
                                if p.scenario == a[0] && p.case.map_or(true, |c| c == a[1]) {
                                    injects.push(Inject {
                                        scope: p.scope,
                                        owner_tid: tid,
                                        owner_tgid: tg,
                                        armed_seq: seq,
                                        nr: p.nr,
                                        skip: p.k,
                                        ret: p.ret,
                                        count: p.count,
                                    });
                                }
                            }
                        }
                        2 => {
                            let e = in_scope.entry(tg).or_insert(0);
                            if *e > 0 {
                                *e -= 1;
                            }
                            // injections armed by this process do not outlive the case
                            injects.retain(|j| j.owner_tgid != tg);
                        }
                        4 => injects.push(Inject {
                            scope: a[0],
                            owner_tid: tid,
                            owner_tgid: tg,
                            armed_seq: seq,
                            nr: a[1] as u64,
                            skip: a[2],
                            ret: a[3],
                            count: if a[4] <= 0 { 1 } else { a[4] },
                        }),
                        5 => {
                            let s = snap_fds(tg);
                            l.line('D', &format!("{tg} {tid} {} {}", a[0], s));
                        }
                        6 => {
                            let b = read_mem(tg, a[0] as u64, (a[1] as usize).min(1 << 20));
                            let hex: String = b.iter().map(|x| format!("{x:02x}")).collect();
                            l.line('B', &format!("{tg} {tid} {} {}", a[2], hex));
                        }
                        7 => injects.retain(|j| j.owner_tgid != tg),
                        8 => {
                            let s = snap_maps(tg);
                            l.line('P', &format!("{tg} {tid} {} {}", a[0], s));
                        }
                        9 => {
                            l.line('H', &format!("{tg} {tid} {} {}", a[0], nthreads(tg)));
                        }
                        _ => {}
                    }
                    t.pending_ret = Some(0);
                } else {
                    // injection?
                    let parent = t.parent_tgid;
                    let born = t.born_seq;
                    let mut hit = None;
                    for (ix, j) in injects.iter_mut().enumerate() {
                        if j.nr != u64::MAX && j.nr != nr {
                            continue; // u64::MAX (-1) = any system call number
                        }
                        let in_sc = match j.scope & 15 {
                            0 => j.owner_tid == tid,
                            1 => j.owner_tgid == tg,
                            2 => parent == j.owner_tgid && born > j.armed_seq && tg != j.owner_tgid,
                            _ => true,
                        };
                        if !in_sc {
                            continue;
                        }
                        if j.skip > 0 {
                            j.skip -= 1;
                            continue;
                        }
                        hit = Some(ix);
                        break;
                    }
                    if let Some(ix) = hit {
                        let ret = injects[ix].ret;
                        // scope + 16: the call is EXECUTED and only its result is replaced afterwards (what the
                        // kernel does for close(): the descriptor is gone although the caller is told EINTR)
                        let post = injects[ix].scope & 16 != 0;
                        injects[ix].count -= 1;
                        if injects[ix].count <= 0 {
                            injects.remove(ix);
                        }
                        if post {
                            t.pending_post = true;
                        } else {
                            let mut r2 = regs;
                            r2.orig_rax = u64::MAX;
                            unsafe {
                                ptrace(PTRACE_SETREGS, tid, 0, &r2 as *const Regs as usize);
                            }
                        }
                        t.pending_ret = Some(ret);
                    }
                    if (log_entries || nr == 60 || nr == 231) && (!scope_markers || in_scope.get(&tg).copied().unwrap_or(0) > 0 || scoped_child(&tasks, &in_scope, tid)) {
                        logger.lock().unwrap().line(
                            's',
                            &format!(
                                "{tg} {tid} {nr} {:x} {:x} {:x} {:x} {:x} {:x}",
                                regs.rdi, regs.rsi, regs.rdx, regs.r10, regs.r8, regs.r9
                            ),
                        );
                    }
                }
            } else {
                t.in_syscall = false;
                let e = t.entry;
                let tg = t.tgid;
                let nr = e.orig_rax;
                let mut ret = regs.rax as i64;
                let mut flag = String::from("-");
                if let Some(pr) = t.pending_ret.take() {
                    let mut r2 = regs;
                    r2.rax = pr as u64;
                    unsafe {
                        ptrace(PTRACE_SETREGS, tid, 0, &r2 as *const Regs as usize);
                    }
                    if t.pending_post {
                        // executed: the log keeps the kernel's real result, the flag carries what the caller was told
                        t.pending_post = false;
                        flag = format!("p{pr}");
                    } else {
                        ret = pr;
                        flag = String::from("i");
                    }
                }
                if nr != MARK_NR
                    && (!scope_markers || in_scope.get(&tg).copied().unwrap_or(0) > 0 || scoped_child(&tasks, &in_scope, tid))
                {
                    logger.lock().unwrap().line(
                        'S',
                        &format!(
                            "{tg} {tid} {nr} {:x} {:x} {:x} {:x} {:x} {:x} {ret} {flag}",
                            e.rdi, e.rsi, e.rdx, e.r10, e.r8, e.r9
                        ),
                    );
                }
                // a successful execve changes the thread group leader's identity: refresh
                if nr == 59 && ret == 0 {
                    if let Some(t) = tasks.get_mut(&tid) {
                        t.tgid = tgid_of(tid);
                    }
                }
            }
        } else if sig == 5 && event != 0 {
            // ptrace event stop
            let tg = tasks.get(&tid).map_or(tid, |t| t.tgid);
            match event {
                1 | 2 | 3 => {
                    let mut newtid: u64 = 0;
                    unsafe {
                        ptrace(PTRACE_GETEVENTMSG, tid, 0, &mut newtid as *mut u64 as usize);
                    }
                    let kind = ["", "fork", "vfork", "clone"][event as usize];
                    let newtid = newtid as i32;
                    let mut l = logger.lock().unwrap();
                    let s = l.line('F', &format!("{tg} {tid} {newtid} {kind}"));
                    drop(l);
                    let ntg = if event == 3 {
                        // thread or process? decide from the clone flags of the pending syscall
                        let fl = tasks.get(&tid).map_or(0, |t| t.entry.rdi);
                        if fl & 0x10000 != 0 {
                            tg
                        } else {
                            newtid
                        }
                    } else {
                        newtid
                    };
                    let e = tasks.entry(newtid).or_insert_with(Task::default);
                    e.tgid = ntg;
                    e.parent_tgid = tg;
                    e.born_seq = s;
                    let mut tl = tids.lock().unwrap();
                    if !tl.contains(&newtid) {
                        tl.push(newtid);
                    }
                }
                4 => {
                    // exec: all other threads are gone, the task continues under the tgid
                    logger.lock().unwrap().line('E', &format!("{tg} {tid}"));
                }
                _ => {}
            }
        } else {
            // signal-delivery stop (or the initial SIGSTOP of an auto-attached task)
            let t = tasks.get_mut(&tid).unwrap();
            if sig == 19 && !t.seen_stop {
                t.seen_stop = true;
                if t.tgid == 0 {
                    t.tgid = tgid_of(tid);
                }
            } else {
                let tg = t.tgid;
                logger.lock().unwrap().line('G', &format!("{tg} {tid} {sig}"));
                deliver = sig as usize;
            }
        }
        unsafe {
            ptrace(PTRACE_SYSCALL, tid, 0, deliver);
        }
    }
    done.store(true, Ordering::Relaxed);
    let _ = logger.lock().unwrap().w.flush();
    let code = match root_status {
        Some(st) if st & 0x7f == 0 => (st >> 8) & 0xff,
        Some(st) => 128 + (st & 0x7f),
        None => 125,
    };
    std::process::exit(code);
}

/// processes forked by a process that is inside a BEGIN/END scope are in scope too
fn scoped_child(tasks: &HashMap<i32, Task>, in_scope: &HashMap<i32, i64>, tid: i32) -> bool {
    if let Some(t) = tasks.get(&tid) {
        return in_scope.get(&t.parent_tgid).copied().unwrap_or(0) > 0;
    }
    false
}

fn sample_idle(tids: &Arc<Mutex<Vec<i32>>>, l: &mut Logger) {
    let v = tids.lock().unwrap().clone();
    for t in v {
        let sc = std::fs::read_to_string(format!("/proc/{t}/syscall")).unwrap_or_default();
        let state = std::fs::read_to_string(format!("/proc/{t}/stat"))
            .ok()
            .and_then(|s| s.rsplit(") ").next().map(|r| r.chars().next().unwrap_or('?')))
            .unwrap_or('?');
        l.line('T', &format!("{t} {state} {}", sc.trim()));
    }
}

fn now_ms() -> u64 {
    static START: std::sync::OnceLock<std::time::Instant> = std::sync::OnceLock::new();
    START.get_or_init(std::time::Instant::now).elapsed().as_millis() as u64
}
