// Marker calls understood by sysmon (include with `#[path = "/verif/engines/sysmon/marker.rs"] mod marker;`).
// Works in no_std and std code on x86_64: a raw `syscall` instruction with an unassigned number
// (ENOSYS without a tracer, 0 under sysmon). Never allocates.
#![allow(dead_code)]

pub const NR: usize = 0x5EC0;
pub const BEGIN: i64 = 1;
pub const END: i64 = 2;
pub const REPORT: i64 = 3;
pub const INJECT: i64 = 4;
pub const SNAPFD: i64 = 5;
pub const BYTES: i64 = 6;
pub const DISARM: i64 = 7;
pub const SNAPMAPS: i64 = 8;
pub const SNAPTHREADS: i64 = 9;

/// `nr` for `inject`: any system call number (the marker call itself is never injected)
pub const ANY_NR: i64 = -1;
/// add to a scope: the call is executed and only its result is replaced afterwards
pub const SCOPE_POST: i64 = 16;

pub const SCOPE_THREAD: i64 = 0;
pub const SCOPE_PROCESS: i64 = 1;
pub const SCOPE_CHILDREN: i64 = 2;
pub const SCOPE_ALL: i64 = 3;

#[inline(never)]
pub fn mark(kind: i64, a: i64, b: i64, c: i64, d: i64, e: i64) -> i64 {
    let ret: i64;
    unsafe {
        core::arch::asm!(
            "syscall",
            inlateout("rax") NR as i64 => ret,
            in("rdi") kind,
            in("rsi") a,
            in("rdx") b,
            in("r10") c,
            in("r8") d,
            in("r9") e,
            lateout("rcx") _,
            lateout("r11") _,
            options(nostack)
        );
    }
    ret
}

/// true when running under sysmon
pub fn traced() -> bool {
    mark(REPORT, -1, 0, 0, 0, 0) == 0
}
pub fn begin(scenario: i64, case: i64, x: i64) {
    mark(BEGIN, scenario, case, x, 0, 0);
}
pub fn end(scenario: i64, case: i64, x: i64, y: i64, z: i64) {
    mark(END, scenario, case, x, y, z);
}
pub fn report(a: i64, b: i64, c: i64, d: i64, e: i64) {
    mark(REPORT, a, b, c, d, e);
}
/// In `scope`, the k-th (0-based) upcoming syscall number `nr` is suppressed and returns `ret`
pub fn inject(scope: i64, nr: i64, k: i64, ret: i64, count: i64) {
    mark(INJECT, scope, nr, k, ret, count);
}
pub fn disarm() {
    mark(DISARM, 0, 0, 0, 0, 0);
}
pub fn snap_fd(tag: i64) {
    mark(SNAPFD, tag, 0, 0, 0, 0);
}
pub fn snap_maps(tag: i64) {
    mark(SNAPMAPS, tag, 0, 0, 0, 0);
}
pub fn snap_threads(tag: i64) {
    mark(SNAPTHREADS, tag, 0, 0, 0, 0);
}
pub fn bytes(ptr: *const u8, len: usize, tag: i64) {
    mark(BYTES, ptr as i64, len as i64, tag, 0, 0);
}
